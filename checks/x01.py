"""X01 - (not a listed property: coverage of the reporting commands) `desync info`, `list-chunks`, `inspect-chunks` print what IndexInfo.tla defines.
design level : IndexInfo.tla: every figure of `info` as a set expression (Info) and the single pass over the index as coded (Loop); TLC shows Loop = Info
               and the sanity relations for every index with <= 3/4 entries over three IDs, every seed/cache subset and chunks-info file (ASSUME);
               a loop that keeps a partial estimate must fail (witness).
code -> spec : the real binary on random indexes (0-12 entries over <= 7 chunks), 0-2 seed indexes, a cache, 0-2 stores, chunks-info files produced by the
               real inspect-chunks (complete, partial, entries removed), json and plain output; judged by Trace_IndexInfo.tla.
"""
import json, os, re
import vlib

def run(rep, tier, seed):
    work = vlib.workdir("X01")
    binp = vlib.go_build("x01")
    desync = vlib.build_desync(tags="")
    thorough = tier == "thorough"
    cfg = vlib.write_cfg(os.path.join(work, "mc.cfg"), open(os.path.join(vlib.SPEC, "cfg", "IndexInfo.cfg")).read().replace("@MAXLEN@", "4" if thorough else "3"))
    r = vlib.tlc_design("IndexInfo", cfg, work, workers=4, timeout=3000)
    rep.add_tlc("IndexInfo: the loop as coded prints the defined figures, and they are consistent (ASSUME)", r)
    r = vlib.tlc("IndexInfo", "IndexInfo.noreset.cfg", work, workers=2, timeout=600)
    if r.ok or "Assumption" not in (r.error or "") or "is false" not in (r.error or ""):
        raise vlib.Infra("witness IndexInfo.noreset did not fail: the specification is vacuous")
    rep.add_tlc("witness: a loop that keeps a partial estimate is rejected (must fail)", r)
    trace = os.path.join(work, "trace.ndjson")
    p = vlib.sh("%s -seed %d -n %d -out %s -dir %s -desync %s 2>/dev/null" % (binp, seed, 1500 if thorough else 150, trace, os.path.join(work, "data"), desync), timeout=3000, check=False)
    if p.returncode != 0:
        raise vlib.Infra("driver x01 failed:\n" + p.stdout[-3000:])
    vlib.log(p.stdout.strip())
    events = vlib.read_ndjson(trace)
    res, info = vlib.validate_trace("Trace_IndexInfo", open(os.path.join(vlib.SPEC, "cfg", "Trace_IndexInfo.cfg")).read(), trace, work, timeout=3000)
    rep.add_tlc("Trace_IndexInfo validation", res)
    if info["kind"] is None:
        rep.traces += len(events)
    else:
        for m in re.finditer(r"<<\s*(\d+),\s*\"([^\"]*)\"", info.get("bad", "") or ""):
            evt = events[int(m.group(1)) - 1] if int(m.group(1)) <= len(events) else None
            rep.violation("%s; record: %s" % (m.group(2), json.dumps(evt)[:1500]), {"events": [evt] if evt else [], "info": info})
        if not rep.violations:
            rep.violation("trace rejected: %s" % str(info)[:600], {"events": [], "info": info})
    for e in events:
        rep.case(e, len(e.get("ix", [])) >= 3)
    rep.sample(events[:3])
    rep.rule = ("case = random index (0-12 entries over <= 7 numbered chunks of 1-400 bytes), 0-2 seed indexes, cache yes/no with a random subset, 0-2 local stores with "
                "random subsets, chunks-info from the real inspect-chunks (complete / partial / entries removed) or none, -n 1/3/10; info in json and plain, list-chunks, "
                "inspect-chunks against a compressed store, an uncompressed store (config file) or none; distinct = different record; non-trivial = >= 3 index entries")
    rep.trusted = ["mapping of printed chunk IDs back to the driver's chunk numbers"]
    rep.assumptions = ["local stores only; remote stores answer HasChunk through the transports decided under C14"]


def replay(path):
    d = json.load(open(path))
    work = vlib.workdir("X01-replay")
    f = os.path.join(work, "trace.ndjson")
    vlib.write_ndjson(f, d["replay"]["events"])
    res, info = vlib.validate_trace("Trace_IndexInfo", open(os.path.join(vlib.SPEC, "cfg", "Trace_IndexInfo.cfg")).read(), f, work)
    print(d["what"]); print("re-validation:", info)
    return 0 if info["kind"] is None else 1
