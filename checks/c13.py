"""C13 - archives written by desync are well-formed casync catar.   (shared machinery with C05)
design level : Catar.tla: the complete-BST layout (BSTOrder) is checked by TLC to be complete and a search tree for every n <= 200 (600 thorough);
               the recogniser (element order, sizes, offsets, sorted children, goodbye tables, node reconstruction) is the specification applied to traces
code -> spec : random trees built on disk as root (owners, set-id/sticky modes, symlinks, devices, user xattrs, ns mtimes), directories with every fan-out
               0..N, packed by the real Tar from disk and from an independent PAX tar stream of the same tree; archives are tokenised by an independent
               tokeniser (with independent SipHash-2-4) and run through the recogniser; the node list the specification reconstructs must equal the
               source tree; casync-made fixtures guard the grammar against over-strictness.
"""
import json, os, re
import vlib
from checks import cli_common

TRACE_CFG = """SPECIFICATION TSpec
CONSTANT TraceFile = "@TRACE@"
INVARIANTS NoBad
CONSTRAINT Constr
POSTCONDITION Accepted
CHECK_DEADLOCK FALSE
"""


def drive(rep, pid, tier, seed, unpack):
    work = vlib.workdir(pid)
    binp = vlib.go_build("c13")
    thorough = tier == "thorough"
    cfg = vlib.write_cfg(os.path.join(work, "mc.cfg"), "SPECIFICATION Spec\nCONSTANTS MaxN = %d\n" % (600 if thorough else 200))
    r = vlib.tlc_design("Catar", cfg, work, workers=4, timeout=3000)
    rep.add_tlc("Catar: BSTOrder(n) is a complete binary search tree in array form for all n (ASSUME)", r)
    trace = os.path.join(work, "trace.ndjson")
    p = vlib.sh("%s -seed %d -n %d -fanout %d -unpack=%s -out %s -dir %s -repo %s" % (binp, seed, (120 if thorough else 40), (200 if thorough else 64),
                "true" if unpack else "false", trace, os.path.join(work, "data"), vlib.REPO), timeout=3000, check=False)
    if p.returncode != 0:
        raise vlib.Infra("driver c13 failed:\n" + p.stdout[-3000:])
    vlib.log(p.stdout.strip().splitlines()[-1])
    events = vlib.read_ndjson(trace)
    scens = vlib.split_scenarios(events, key="archive")
    res, info = vlib.validate_trace("Trace_Catar", TRACE_CFG, trace, work, timeout=3400)
    rep.add_tlc("Trace_Catar validation", res)
    for fid in sorted(set(re.findall(r'<<"KNOWN", "([^"]+)", \d+, \d+>>', res.out))):
        k = next((x for x in vlib.known_findings() if x.get("status") == "known" and x.get("property") == pid and x.get("id") == fid), None)
        if k:
            rep.known_finding(k)
        else:
            first = re.search(r'<<"KNOWN", "%s", (\d+), (\d+)>>' % re.escape(fid), res.out)
            sc = next((s for s in scens if s[0].get("scen") == int(first.group(1))), [])
            rep.violation("deviation %s observed on the real code and not listed as a known finding for %s" % (fid, pid), {"events": sc[:200]})
    if info["kind"] is None:
        rep.traces += len(scens)
    else:
        m = re.search(r"<<\s*(\d+),\s*(\d+),\s*\"([^\"]*)\"", info.get("bad", "") or "")
        scn = int(m.group(1)) if m else None
        sc = next((s for s in scens if s[0].get("scen") == scn), [])
        evt = events[int(m.group(2)) - 1] if m and int(m.group(2)) <= len(events) else None
        rep.violation("%s (archive %s, source %s); element/record: %s" % (m.group(3) if m else info, scn, (sc[0] if sc else {}).get("source"), json.dumps(evt)[:700]),
                      {"events": sc[:400], "info": info})
    for sc in scens:
        rep.case([[e.get("t"), e.get("size"), e.get("kind"), e.get("mode"), e.get("via"), e.get("ok")] for e in sc], sc[0].get("nodes", 0) >= 3)
    if scens:
        rep.sample({"source": scens[0][0].get("source"), "tree": scens[0][0].get("expect")[:6], "elements": scens[0][1:12]})
    rep.extra["xattrs_and_devices_exercised"] = "xattrs_and_devices=true" in p.stdout
    rep.trusted = ["independent catar tokeniser and SipHash-2-4 in harness/oracle (agree with the casync-made fixtures)", "the kernel's chown/chmod/mknod/xattr/utimensat semantics (executed as root)"]
    return events


def run(rep, tier, seed):
    drive(rep, "C13", tier, seed, False)
    # the command glue: `desync tar` onto an existing larger archive, the source directory spelled in equivalent ways, untar of the result
    cli_common.run(rep, vlib.workdir("C13-cli"), seed, "tar,stdout-catar", tier == "thorough")
    rep.rule = ("case = random tree of 5-45 nodes (nesting <= 4, fan-out <= 8, names of arbitrary bytes / with spaces / 50-250 characters, files of 0 / 1 / up to 3000 "
                "bytes, symlinks incl. dangling and absolute, char and block devices, 10 modes incl. set-id/sticky, 6 owners up to 2^31-1, 6 mtimes with ns, user "
                "xattrs), plus one flat directory for every fan-out 0..64 (0..200 thorough), each packed from disk and from an independent tar stream; "
                "casync fixtures; distinct = different element sequence; non-trivial = >= 3 nodes")


def replay(path):
    d = json.load(open(path))
    _r = cli_common.replay_if_cli(d, vlib.workdir("C13-cli-replay"))
    if _r is not None:
        return _r
    work = vlib.workdir("C13-replay")
    f = os.path.join(work, "trace.ndjson")
    vlib.write_ndjson(f, d["replay"]["events"])
    res, info = vlib.validate_trace("Trace_Catar", TRACE_CFG, f, work)
    print(d["what"]); print("re-validation:", info)
    return 0 if info["kind"] is None else 1
