"""C15 - HTTP servers enforce authorization, read-only mode and path confinement.
design level : HttpServer.tla: RowOK (the property as a decision rule over a request row) and Handle (abstract model of both handlers);
               TLC checks RowOK(ModelRow(r)) for all configurations x methods x path classes x authorization classes x body classes
code -> spec : the full request table is sent to the real chunk and index handlers in every configuration over a sandboxed store with
               sentinel files in the parent and sibling directories; store calls are logged by a wrapper, the sandbox is snapshotted
               before and after every request; every row is judged by RowOK (Trace_HttpServer.tla).
"""
import json, os, re
import vlib

TRACE_CFG = """SPECIFICATION TSpec
CONSTANT TraceFile = "@TRACE@"
INVARIANTS NoBad
CONSTRAINT Constr
POSTCONDITION Accepted
CHECK_DEADLOCK FALSE
"""


def run(rep, tier, seed):
    work = vlib.workdir("C15")
    binp = vlib.go_build("c15")
    thorough = tier == "thorough"
    r = vlib.tlc_design("HttpServer", "HttpServer.cfg", work, workers=2, timeout=1200)
    rep.add_tlc("HttpServer: RowOK holds for the abstract handler model on all rows (ASSUME)", r)
    trace = os.path.join(work, "trace.ndjson")
    desync = vlib.build_desync(tags="")
    p = vlib.sh("%s -seed %d -variants %d -out %s -dir %s -desync %s 2>/dev/null" % (binp, seed, 4 if thorough else 1, trace, os.path.join(work, "data"), desync), timeout=3000, check=False)
    if p.returncode != 0:
        raise vlib.Infra("driver c15 failed:\n" + p.stdout[-3000:])
    vlib.log(p.stdout.strip())
    events = vlib.read_ndjson(trace)
    res, info = vlib.validate_trace("Trace_HttpServer", TRACE_CFG, trace, work, timeout=3400)
    rep.add_tlc("Trace_HttpServer validation", res)
    if info["kind"] is None:
        rep.traces += len(events)
    else:
        m = re.search(r"<<\s*(\d+),", info.get("bad", "") or "")
        evt = events[int(m.group(1)) - 1] if m and int(m.group(1)) <= len(events) else None
        rep.violation("HTTP server handled a request against the rules: %s" % json.dumps(evt), {"events": [evt] if evt else [], "info": info})
    for e in events:
        rep.case({k: v for k, v in e.items() if k not in ("path", "target")}, e.get("authset") or e.get("method") == "PUT" or e.get("pathclass") not in ("ok",))
    rep.sample(events[:2] + events[5000:5002])
    rep.exhaustive = True
    rep.rule = ("case = one row of {chunk, index server} x {authorization set?} x {writable?} x {verify-write?} x {compressed?} x {GET, HEAD, PUT, DELETE, POST} x "
                "path class (well-formed existing / missing, wrong prefix, missing or foreign suffix, dot-dot plain and %-encoded, absolute, empty, over-long, "
                "short id, non-hex; for the index server paths that reduce to an existing / missing base name) x authorization class (none, wrong, right, other "
                "case, surrounding space, prefix/extension) x body class (valid, mismatching, garbage, empty), concrete strings drawn per class; the table is "
                "enumerated completely; distinct = different row; non-trivial = authorization configured, or PUT, or a path class other than 'ok'")
    rep.trusted = ["in-process handlers (http.ServeMux path cleaning of the chunk-server / index-server binaries only removes dot segments before the handler runs)"]


def replay(path):
    d = json.load(open(path))
    work = vlib.workdir("C15-replay")
    f = os.path.join(work, "trace.ndjson")
    vlib.write_ndjson(f, d["replay"]["events"])
    res, info = vlib.validate_trace("Trace_HttpServer", TRACE_CFG, f, work)
    print(d["what"]); print("re-validation:", info)
    return 0 if info["kind"] is None else 1
