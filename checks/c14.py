"""C14 - remote transports preserve data and report missing vs. failed truthfully.
design level : HttpRetry.tla: Required(script, R, op) (the outcome the caller must see) vs. Loop (the retry loop as implemented) for all response scripts
               of length <= 4 over {200,201,404,400,403,500,503,reset,short body}, budgets {0,1,2,3,5}, GET/HEAD/PUT, plus the statement's clauses (Props)
code -> spec : the real RemoteHTTP / RemoteHTTPIndex against a scripted server (every script of length <= 3, sampled longer ones, all budgets, chunk and
               index GET/HEAD/PUT; connection resets and short bodies are real), the real client + real handler in all 16 compression / verify
               combinations (GET and PUT), and the real RemoteSSH store against the real `desync pull` behind a fake ssh; Trace_HttpRetry.tla.
"""
import json, os, re
import vlib
from checks import cli_common

TRACE_CFG = """SPECIFICATION TSpec
CONSTANT TraceFile = "@TRACE@"
INVARIANTS NoBad
CONSTRAINT Constr
POSTCONDITION Accepted
CHECK_DEADLOCK FALSE
"""


def run(rep, tier, seed):
    work = vlib.workdir("C14")
    binp = vlib.go_build("c14")
    desync = vlib.build_desync(tags="")
    thorough = tier == "thorough"
    cfg = vlib.write_cfg(os.path.join(work, "mc.cfg"), "SPECIFICATION Spec\nCONSTANTS MaxLen = %d  Budgets = {0, 1, 2, 3, 5}\n" % (5 if thorough else 4))
    r = vlib.tlc_design("HttpRetry", cfg, work, workers=4, timeout=3000)
    rep.add_tlc("HttpRetry: Loop = Required and the statement's clauses for all scripts (ASSUME)", r)
    trace = os.path.join(work, "trace.ndjson")
    p = vlib.sh("%s -seed %d -maxlen %d -sample %d -out %s -dir %s -desync %s 2>/dev/null" % (binp, seed, 4 if thorough else 3, 3000 if thorough else 300, trace,
                os.path.join(work, "data"), desync), timeout=3000, check=False)
    if p.returncode != 0:
        raise vlib.Infra("driver c14 failed:\n" + p.stdout[-3000:])
    vlib.log(p.stdout.strip())
    events = vlib.read_ndjson(trace)
    res, info = vlib.validate_trace("Trace_HttpRetry", TRACE_CFG, trace, work, timeout=3400)
    rep.add_tlc("Trace_HttpRetry validation", res)
    if info["kind"] is None:
        rep.traces += len(events)
    else:
        m = re.search(r"<<\s*(\d+),", info.get("bad", "") or "")
        evt = events[int(m.group(1)) - 1] if m and int(m.group(1)) <= len(events) else None
        rep.violation("remote transport deviates from the specification: %s; record: %s" % ((info.get("bad") or "")[:300], json.dumps(evt)), {"events": [evt] if evt else [], "info": info})
    # ---- the S3 transport (minio client) against an in-memory S3 endpoint with scripted responses: S3Store.tla
    rep.add_tlc("S3Store: the loops as coded stay within the allowed outcome sets (ASSUME)", vlib.tlc_design("S3Store", "S3Store.cfg", work, workers=4, timeout=1500))
    rw = vlib.tlc("S3Store", "S3Store.strict.cfg", work, workers=2, timeout=600)
    if rw.ok or "Assumption" not in rw.out:
        raise vlib.Infra("S3Store.strict.cfg (HasChunk must report failures) is expected to fail for the code as it is (known finding F23)")
    s3bin = vlib.go_build("s3")
    s3trace = os.path.join(work, "s3ops.ndjson")
    p = vlib.sh("%s -seed %d -len %d -prune 1 -out %s -outprune %s" % (s3bin, seed, 3 if thorough else 2, s3trace, os.path.join(work, "s3prune.ndjson")), timeout=3000, check=False)
    if p.returncode != 0:
        raise vlib.Infra("driver s3 failed:\n" + p.stdout[-3000:])
    vlib.log(p.stdout.strip())
    s3ev = vlib.read_ndjson(s3trace)
    cfg_text = open(os.path.join(vlib.SPEC, "cfg", "Trace_S3Store.cfg")).read()
    res3, info3 = vlib.validate_trace("Trace_S3Store", cfg_text, s3trace, work, timeout=3400)
    rep.add_tlc("Trace_S3Store validation", res3)
    if info3["kind"] is None:
        rep.traces += len(s3ev)
    else:
        ln = info3.get("line")
        evt = s3ev[ln - 1] if ln and ln <= len(s3ev) else None
        rep.violation("S3 store deviates from the specification: %s; record: %s" % ((info3.get("bad") or "")[:300], json.dumps(evt)), {"events": [evt] if evt else [], "info": info3, "trace_spec": "Trace_S3Store"})
    for fid in sorted(set(re.findall(r'<<"KNOWN", "([^"]+)", \d+, \d+>>', res3.out))):
        k = next((x for x in vlib.known_findings() if x.get("status") == "known" and x.get("property") == "C14" and x.get("id") == fid), None)
        if k:
            rep.known_finding(k)
        else:
            rep.violation("deviation %s observed on the real S3 store and not listed as a known finding" % fid, {"events": []})
    for e in s3ev:
        rep.case(["s3", e["op"], e["script"], e["R"], e["verify"], e["unc"], e["prefix"]], any(x != "ok" for x in e["script"]))
    for e in events:
        rep.case(e, e.get("ev") != "retry" or any(x not in ("200",) for x in e.get("script", [])))
    rep.sample(events[5:7] + [e for e in events if e["ev"] == "matrix"][:2] + [e for e in events if e["ev"] == "proto"][:3])
    # casync-protocol stores in the chains the command line builds (a remote `pull` that lacks chunks, or dies)
    cli_common.run(rep, vlib.workdir("C14-cli"), seed, "ssh,server", tier == "thorough")
    rep.rule = ("case = response script (all of length <= 3-4, sampled up to 8) x retry budget {0,1,2,3,5} x {chunk GET/HEAD/PUT, index GET/PUT}; "
                "{client compressed?} x {server compressed?} x {upstream compressed?} x {verify?} x {GET, PUT}; casync protocol sessions (1 and 2 pooled "
                "sessions: existing, missing, existing again, HasChunk missing/existing); distinct = different record; non-trivial = script contains a non-200 response, or matrix/protocol record")
    rep.trusted = ["keep-alives are disabled on the scripted server so that net/http's transparent retry of idempotent requests does not add hidden attempts"]
    rep.assumptions = ["the S3 transport runs against an in-memory S3 endpoint written for this harness (harness/fakes/s3.go); the minio client's own "
                       "retries of 429/5xx responses are outside desync's budget and avoided by using a status it does not retry; SFTP and GCS are not exercised offline"]


def replay(path):
    import json as _json
    _r = cli_common.replay_if_cli(_json.load(open(path)), vlib.workdir("C14-cli-replay"))
    if _r is not None:
        return _r
    d = json.load(open(path))
    work = vlib.workdir("C14-replay")
    f = os.path.join(work, "trace.ndjson")
    vlib.write_ndjson(f, d["replay"]["events"])
    if d["replay"].get("trace_spec") == "Trace_S3Store":
        res, info = vlib.validate_trace("Trace_S3Store", open(os.path.join(vlib.SPEC, "cfg", "Trace_S3Store.cfg")).read(), f, work)
    else:
        res, info = vlib.validate_trace("Trace_HttpRetry", TRACE_CFG, f, work)
    print(d["what"]); print("re-validation:", info)
    return 0 if info["kind"] is None else 1
