"""Shared by C06 / C07: design-level PipelineMC runs, the pipe driver and Trace_Pipeline validation."""
import json, os
import vlib

TRACE_CFG = """SPECIFICATION TSpec
CONSTANT TraceFile = "@TRACE@"
INVARIANTS OkImpliesComplete FailureReported WorkerErrorReported OkImpliesAllDone WaitsForWorkers CleanRunSucceeds VerdictOK NoBad
CONSTRAINT Constr
POSTCONDITION Accepted
CHECK_DEADLOCK FALSE
"""
MC = """SPECIFICATION MCSpec
CONSTANTS Ids = {%s}  MaxJobs = %d  NW = %d  MaxFaults = %d  Mode = "%s"  MayCancel = %s  AllowDev = {%s}
INVARIANTS %s
CHECK_DEADLOCK FALSE
"""
SAFE = "OkImpliesComplete FailureReported WorkerErrorReported OkImpliesAllDone WaitsForWorkers Terminates CleanRunSucceeds"


def design(rep, work, runs, witnesses=True):
    for name, c in runs:
        cfg = vlib.write_cfg(os.path.join(work, "mc.cfg"), MC % (c + (SAFE,)))
        r = vlib.tlc_design("PipelineMC", cfg, work, workers=12, timeout=3000)
        rep.add_tlc("Pipeline design: " + name, r)
        vlib.log("design %s: %d distinct states, %.0fs" % (name, r.distinct, r.wall))
    if witnesses:
        name, c = runs[0]
        ws = ["NeverRaceOnId", "NeverError"] + (["NeverInterrupted"] if c[5] == "TRUE" else [])
        for wn in ws:
            cfg = vlib.write_cfg(os.path.join(work, "w.cfg"), MC % (c + (wn,)))
            r = vlib.tlc("PipelineMC", cfg, work, workers=8, timeout=600)
            if r.violated != wn:
                raise vlib.Infra("vacuous design run: witness %s not reachable" % wn)
        rep.extra["reachability_witnesses"] = ws
        # the deviation the unrepaired code had must be caught by the invariants (the spec is not too weak)
        cfg = vlib.write_cfg(os.path.join(work, "dev.cfg"), MC % (c[:6] + ('"FeederCancelNil"', SAFE)))
        r = vlib.tlc("PipelineMC", cfg, work, workers=8, timeout=600)
        if c[5] == "TRUE" and r.violated not in ("OkImpliesAllDone", "OkImpliesComplete"):
            raise vlib.Infra("Dev_FeederCancelNil is not rejected by the design-level invariants (%s)" % r.violated)


def drive(rep, work, binp, seed, n, kinds, modes, maxper, big=False, tag="pipe"):
    trace = os.path.join(work, tag + ".ndjson")
    meta = os.path.join(work, tag + ".json")
    scratch = os.path.join(work, "data")
    os.makedirs(scratch, exist_ok=True)
    args = [binp, "-seed", str(seed), "-n", str(n), "-kinds", kinds, "-modes", modes, "-maxper", str(maxper),
            "-out", trace, "-meta", meta, "-dir", scratch] + (["-big"] if big else [])
    p = vlib.sh(args, timeout=3400, check=False)
    if p.returncode != 0:
        raise vlib.Infra("driver pipe failed:\n" + p.stdout[-3000:])
    vlib.log(p.stdout.strip())
    m = json.load(open(meta))
    events = vlib.read_ndjson(trace)
    scens = vlib.split_scenarios(events)
    rep.extra.setdefault("scenario_kinds", {})
    for k, v in m["kinds"].items():
        rep.extra["scenario_kinds"][k] = rep.extra["scenario_kinds"].get(k, 0) + v
    rep.extra["unannounced_blocks"] = rep.extra.get("unannounced_blocks", 0) + m["unannounced"]
    for h in m["hangs"]:
        rep.violation("pipeline did not return (goroutines: %s)" % h["parked"], {"events": scens[h["scen"] - 1], "stacks": h["stacks"][:20000]})
    res, info = vlib.validate_trace("Trace_Pipeline", TRACE_CFG, trace, work, timeout=3400)
    rep.add_tlc("Trace_Pipeline validation (%s)" % tag, res)
    if info["kind"] is None:
        rep.traces += len(scens)
    else:
        scn = info.get("scen")
        sc = scens[scn - 1] if scn and scn <= len(scens) else []
        head = sc[0] if sc else {}
        if info["kind"] == "invariant":
            rep.violation("trace of the real %s violates %s (scenario %s: faults=%s cancel=%s; %s)" % (
                head.get("mode"), info["invariant"], scn, head.get("faults"), head.get("cancel"), info.get("bad", "")),
                {"events": sc, "info": info})
        else:
            line = info.get("line", 0)
            evt = events[line - 1] if 0 < line <= len(events) else None
            rep.violation("trace of the real %s is not a behaviour of Pipeline.tla: event %s of scenario %s has no matching action" % (
                head.get("mode"), evt, scn), {"events": sc, "info": info})
        rep.traces += max(0, (scn or 1) - 1)
    for sc in scens:
        head = sc[0]
        nontriv = head.get("units", 0) >= 2 and (head.get("faults") or head.get("cancel", -1) >= 0 or head.get("nw", 1) >= 2)
        rep.case([[e.get("g"), e.get("ev"), e.get("id"), e.get("res"), e.get("first")] for e in sc] + [head.get("mode"), head.get("damage"), head.get("mism")], bool(nontriv))
    for sc in scens[:1] + scens[len(scens) // 2:len(scens) // 2 + 1]:
        rep.sample({"instance": sc[0], "events": sc[1:40]})
    return scens
