"""C05 - tar then untar reproduces the directory tree.   (machinery shared with C13, see checks/c13.py)
code -> spec : every random tree is packed (from disk and from a tar stream), the archive's node list as reconstructed by the specification must equal the
               source tree, packing twice must give identical bytes, and the trees unpacked by the real UnTar (disk writer), UnTarIndex (through ChunkStream
               and a LocalStore with 64-512 byte chunks) and the tar writer must equal the source tree in path, type, permission and set-id/sticky bits,
               owner, symlink target, xattrs, device numbers, content and modification time. Deviations of the unchanged code are known findings.
"""
import vlib
from checks import cli_common
from checks import c13


def run(rep, tier, seed):
    c13.drive(rep, "C05", tier, seed, True)
    # the command glue: the real binary end to end, judged by CliOutcome.tla
    cli_common.run(rep, vlib.workdir("C05-cli"), seed, "tar", tier == "thorough")
    rep.rule = ("case = random tree (as for C13) x {catar from disk, catar from tar stream} x {untar to disk, untar through caidx + store, tar-stream output}; "
                "packing twice; distinct = different element/unpack sequence; non-trivial = >= 3 nodes")
    rep.assumptions = ["SHA256 digest mode and the mtree output format are not exercised", "runs as root on a filesystem with user xattrs (reported in coverage.xattrs_and_devices_exercised)"]


def replay(path):
    import json as _json
    _d = _json.load(open(path))
    _r = cli_common.replay_if_cli(_d, vlib.workdir("C05-cli-replay"))
    if _r is not None:
        return _r
    return c13.replay(path)
