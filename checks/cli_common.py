"""End-to-end layer shared by C01, C02, C05, C06, C09, C17: the real desync binary, judged by CliOutcome.tla's rule
(exit 0 => result complete and correct; valid inputs and no fault => exit 0; the command terminates)."""
import json, os
import vlib


def run(rep, work, seed, modes, thorough, min_records=4):
    for cfg, must_pass in (("CliOutcome.code.cfg", True), ("CliOutcome.swallow.cfg", False)):
        if must_pass:
            rep.add_tlc("CliOutcome/%s" % cfg, vlib.tlc_design("CliOutcome", cfg, work, workers=2, timeout=600))
        else:
            r = vlib.tlc("CliOutcome", cfg, work, workers=2, timeout=600)
            if r.ok or not r.violated:
                raise vlib.Infra("CliOutcome/%s must violate ModelRule (witness)" % cfg)
    binp = vlib.go_build("cli")
    desync = vlib.build_desync(tags="")
    tr = os.path.join(work, "cli.ndjson")
    p = vlib.sh([binp, "-mode", modes, "-seed", str(seed)] + (["-thorough"] if thorough else []) + ["-out", tr, "-dir", os.path.join(work, "clidata"), "-desync", desync],
                timeout=3400, check=False)
    if p.returncode != 0:
        raise vlib.Infra("driver cli failed:\n" + p.stdout[-3000:])
    ev = vlib.read_ndjson(tr)
    if len(ev) < min_records or not any(e["exit"] == 0 and e["complete"] for e in ev):
        raise vlib.Infra("the CLI driver produced %d records and no successful run: the binary is not working" % len(ev))
    cfg_text = open(os.path.join(vlib.SPEC, "cfg", "Trace_CliOutcome.cfg")).read()
    res, info = vlib.validate_trace("Trace_CliOutcome", cfg_text, tr, work, timeout=1800)
    rep.add_tlc("Trace_CliOutcome validation (%s)" % modes, res)
    if info["kind"] is None:
        rep.traces += len(ev)
    else:
        ln = info.get("line")
        evt = ev[ln - 1] if ln and ln <= len(ev) else None
        rep.violation("desync %s: %s | %s" % ((evt or {}).get("cmd"), (info.get("bad") or "")[:300], json.dumps(evt)[:500]),
                      {"events": [evt] if evt else [], "info": info, "trace_spec": "Trace_CliOutcome"})
    for e in ev:
        rep.case(["cli", e["fam"], e["cmd"], e.get("k"), e.get("n")], e["exit"] != 0 or e["fam"] in ("fault", "extract"))
    rep.extra.setdefault("entry_points", [])
    if isinstance(rep.extra["entry_points"], list):
        rep.extra["entry_points"] = rep.extra["entry_points"] + ["desync CLI: " + modes]
    return ev


def replay_if_cli(d, work):
    ev = d["replay"].get("events") or []
    if ev and ev[0] and ev[0].get("ev") == "cli":
        f = os.path.join(work, "cli-replay.ndjson")
        vlib.write_ndjson(f, ev)
        cfg_text = open(os.path.join(vlib.SPEC, "cfg", "Trace_CliOutcome.cfg")).read()
        res, info = vlib.validate_trace("Trace_CliOutcome", cfg_text, f, work)
        print(d["what"]); print("re-validation:", info)
        return 0 if info["kind"] is None else 1
    return None
