"""C11 - store chains follow their documented routing, caching and failover policy (sequential part also serves C03).
design level : StoreChain.tla is an executable reference model (Get/Has/Put over router, cache +- repair, failover group, wrappers);
               StoreChainMC.tla checks for every chain shape over three members and every content/health pattern that the model
               says what the documentation says (RouterFinds, CacheHitLocalOnly, CacheFills, FailoverLive, NoBadDelivery)
code -> spec : random chains of the real wrappers over fault-injecting members (in-memory and real LocalStores with really
               corrupted files), random operation / fault / corruption sequences; result class, members called and member
               contents after every operation compared with the model (Trace_StoreChain.tla). Concurrent part under the gate
               scheduler: Swap under load (no request fails, no store closed while in use), concurrent requests on a failover
               group with a failing member.
"""
import json, os
import vlib
from checks import cli_common

TRACE_CFG = """SPECIFICATION TSpec
CONSTANT TraceFile = "@TRACE@"
INVARIANTS NoBad
CONSTRAINT Constr
POSTCONDITION Accepted
CHECK_DEADLOCK FALSE
"""


def drive(rep, pid, tier, seed):
    work = vlib.workdir(pid)
    binp = vlib.go_build("c11")
    thorough = tier == "thorough"
    r = vlib.tlc_design("StoreChainMC", "StoreChainMC.cfg", work, workers=12, timeout=3000)
    rep.add_tlc("StoreChain policy properties over all small chains", r)
    vlib.log("design: %d instances, %.0fs" % (r.distinct, r.wall))
    trace = os.path.join(work, "trace.ndjson")
    errf = os.path.join(work, "stderr.txt")
    p = vlib.sh("%s -seed %d -n %d -ops %d -conc %d -out %s -dir %s 2>%s" % (binp, seed, 5000 if thorough else 600, 30 if thorough else 25,
                300 if thorough else 40, trace, os.path.join(work, "data"), errf), timeout=3400, check=False)
    if p.returncode != 0:
        err = open(errf).read()
        i = max(err.find("panic:"), err.find("fatal error:"))
        if i >= 0:
            rep.violation("the store chain crashed the process: " + err[i:i + 200].splitlines()[0], {"stack": err[i:i + 6000]})
            return
        raise vlib.Infra("driver c11 failed:\n" + p.stdout[-2000:] + err[-2000:])
    vlib.log(p.stdout.strip())
    events = vlib.read_ndjson(trace)
    scens = vlib.split_scenarios(events)
    res, info = vlib.validate_trace("Trace_StoreChain", TRACE_CFG, trace, work, timeout=3400)
    rep.add_tlc("Trace_StoreChain validation", res)
    if info["kind"] is None:
        rep.traces += len(scens)
    else:
        scn = info.get("scen")
        sc = next((s for s in scens if s[0].get("scen") == scn), [])
        rep.violation("real store chain deviates from the documented policy: %s; chain: %s" % (info.get("bad", info), json.dumps((sc[0] if sc else {}).get("chain"))[:600]),
                      {"events": sc, "info": info})
    for sc in scens:
        rep.case(sc, sc[0].get("chain", {}).get("t") != "leaf" and len(sc) > 3)
    for sc in scens[:2]:
        rep.sample({"chain": sc[0].get("chain"), "members": sc[0].get("members"), "ops": sc[1:10]})
    # the chain the command line builds from -s / -c / "a|b" / --cache-repair: the real binary over local and HTTP stores
    cli_common.run(rep, vlib.workdir("C11-cli"), seed, "chain,ssh", tier == "thorough")
    rep.rule = ("case = random chain (router of leaves/groups, cache +- repair over leaf/router/failover group, dedup or swap wrapper, writable single store) over "
                "2-7 members (in-memory or real LocalStore, compressed or not, verifying or not) with random contents {absent, good, corrupt} for 3 IDs x 25-30 "
                "operations (GetChunk/HasChunk/StoreChunk, member starts/stops failing, chunk appears/disappears/gets corrupted); plus Swap-under-load and "
                "concurrent-failover scenarios under random schedules; distinct = different chain/op sequence; non-trivial = chain is not a single leaf")
    rep.trusted = ["in-memory members answer ChunkInvalid for corrupt content when verifying, as real verifying stores do (the LocalStore members are real)"]
    rep.assumptions = ["all members of a failover group hold the same chunks (documented precondition)"]


def run(rep, tier, seed):
    drive(rep, "C11", tier, seed)


def replay(path):
    import json as _json
    _r = cli_common.replay_if_cli(_json.load(open(path)), vlib.workdir("C11-cli-replay"))
    if _r is not None:
        return _r
    d = json.load(open(path))
    work = vlib.workdir("C11-replay")
    f = os.path.join(work, "trace.ndjson")
    vlib.write_ndjson(f, d["replay"]["events"])
    res, info = vlib.validate_trace("Trace_StoreChain", TRACE_CFG, f, work)
    print(d["what"]); print("re-validation:", info)
    return 0 if info["kind"] is None else 1
