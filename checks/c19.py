"""C19 - decoders survive arbitrary input: no panic, allocation proportional to the input, malformed input yields an error.
design level : FormatDecoder.tla: element classes (type x size-field value x bytes available x content flags) with their class from the format
               description (valid / malformed / loose), the decoder as coded with the bytes it allocates; the archive grammar over element kinds and
               ArchiveDecoder.Next as coded; protocol messages. TLC proves: no panic, allocation <= 8 * available + 256 KiB, malformed => error,
               valid => element, for all 20 types x 20 sizes x 13 availabilities x flags, all messages, all kind sequences of length <= 5; and shows
               the violations for the code as found (Guarded = FALSE: findings F10, F21 - both repaired).
code -> spec : the same classes as bytes (plus sequences, every truncation of valid archives and indexes, random and mutated strings) are fed to the real
               FormatDecoder.Next, ArchiveDecoder.Next, IndexFromReader, Protocol.ReadMessage / RecvHello / RequestChunk, ProtocolServer.Serve, the
               index handler's PUT and IndexFromFile in a child process with a bounded address space (a fatal out-of-memory is attributed to the
               case that was running); Trace_FormatDecoder.tla judges outcome, panic and allocation of every record.
"""
import json, os
import vlib

TRACE_CFG = """SPECIFICATION TSpec
CONSTANTS Guarded = TRUE
 MaxKinds = 0
 TraceFile = "@TRACE@"
INVARIANTS NoBad
CONSTRAINT Constr
POSTCONDITION Accepted
CHECK_DEADLOCK FALSE
"""


def describe(e):
    if e["ep"] in ("format", "makefile"):
        return "%s on elements %s" % (e["ep"], [(x["t"], x["sz"], x["avail"], x["hdr"]) for x in e["elems"]])
    if e["ep"] == "archive":
        return "archive %s%s" % (e["kinds"], " + cut inside the next element" if e["cutmid"] else "")
    if e["ep"] in ("index", "httpput"):
        return "%s on %d bytes of an index (%s)" % (e["ep"], e["inlen"], "complete" if e["complete"] else "truncated")
    return "%s on message %s" % (e["ep"], e["msg"])


def run(rep, tier, seed):
    work = vlib.workdir("C19")
    binp = vlib.go_build("c19")
    thorough = tier == "thorough"
    r = vlib.tlc_design("FormatDecoder", "FormatDecoder.cfg", work, workers=8, timeout=3000)
    rep.add_tlc("FormatDecoder: ElemOK / MsgOK / ArchOK for all classes (ASSUME), repaired decoder", r)
    r2 = vlib.tlc("FormatDecoder", "FormatDecoder.dev.cfg", work, workers=4, timeout=3000)
    if r2.ok or "Assumption" not in r2.out:
        raise vlib.Infra("FormatDecoder.tla with Guarded = FALSE is expected to violate ElemOK (non-vacuity check)")
    trace = os.path.join(work, "trace.ndjson")
    p = vlib.sh("%s -seed %d %s -out %s -dir %s" % (binp, seed, "-thorough" if thorough else "", trace, os.path.join(work, "data")), timeout=3300, check=False)
    if p.returncode != 0:
        raise vlib.Infra("driver c19 failed:\n" + p.stdout[-3000:])
    vlib.log(p.stdout.strip().splitlines()[-1])
    events = vlib.read_ndjson(trace)
    res, info = vlib.validate_trace("Trace_FormatDecoder", TRACE_CFG, trace, work, timeout=3400)
    rep.add_tlc("Trace_FormatDecoder validation", res)
    if info["kind"] is None:
        rep.traces += len(events)
    else:
        ln = info.get("line")
        evt = events[ln - 1] if ln and ln <= len(events) else None
        rep.violation("%s: %s -> outcome %s panic=%r alloc=%s" % (
            (info.get("bad") or "")[:300], describe(evt) if evt else "?", (evt or {}).get("res"), (evt or {}).get("panic"), (evt or {}).get("alloc")),
            {"events": [evt] if evt else [], "info": info})
    for e in events:
        key = [e["ep"], e["fam"], e["hex"][:160], e["inlen"]]
        rep.case(key, e["inlen"] >= 16)
    by = {}
    for e in events:
        by[e["ep"] + "/" + e["fam"]] = by.get(e["ep"] + "/" + e["fam"], 0) + 1
    rep.extra["records_by_entry_point_and_family"] = by
    rep.extra["max_alloc_minus_8x_input"] = max(e["alloc"] - 8 * e["inlen"] for e in events)
    rep.sample([events[i] for i in (5, 3000, len(events) - 1) if i < len(events)])
    rep.rule = ("case = one input to one entry point: (a) every element type x 25 size-field values (0, 8, 15, 16, 17, ..., 2^16, 2^20, 2^31, 2^40, 2^62, 2^63, "
                "2^64-8, 2^64-1) x availability (none, partial, exact) x content flag, alone / after / before a valid element, to FormatDecoder.Next and at the head "
                "of a blob given to IndexFromFile; (b) all element-kind sequences of length <= 3 (4 thorough) + random grammar-biased mutated sequences to "
                "ArchiveDecoder.Next; (c) every byte truncation of random valid archives and indexes (reader and PUT); (d) every protocol message length x type x "
                "availability to ReadMessage, RecvHello, RequestChunk (as the server's reply) and Serve (as the client's request); (e) random fields / mutated "
                "valid files / random bytes to all entry points. distinct = entry point + bytes; non-trivial = input of >= 16 bytes")
    rep.trusted = ["runtime.MemStats.TotalAlloc as the allocation measure", "RLIMIT_AS (6 GiB) on the child; deaths are attributed to the case begun"]


def replay(path):
    d = json.load(open(path))
    work = vlib.workdir("C19-replay")
    f = os.path.join(work, "trace.ndjson")
    vlib.write_ndjson(f, d["replay"]["events"])
    res, info = vlib.validate_trace("Trace_FormatDecoder", TRACE_CFG, f, work)
    print(d["what"]); print("re-validation:", info)
    return 0 if info["kind"] is None else 1
