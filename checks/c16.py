"""C16 - prune and verify remove exactly what they should.
design level : LocalStoreFS.tla: PruneOK / VerifyOK state the property over a store directory as a set of files; the walk as coded is checked against
               PruneOK for every directory content with <= 5 files over two IDs, both formats and every keep-set (TLC, ASSUME)
code -> spec : random store directories (valid / invalid chunks of both formats, abandoned temporary files, junk, chunk-named files in foreign directories),
               random keep-sets incl. IDs absent from the store, compressed and uncompressed mode, 1/4/10 workers: the real LocalStore.Prune / Verify
               (and `desync prune` for a subset); what disappeared and what was reported is judged by Trace_LocalStoreFS.tla.
"""
import json, os, re
import vlib

TRACE_CFG = """SPECIFICATION TSpec
CONSTANT TraceFile = "@TRACE@"
INVARIANTS NoBad
CONSTRAINT Constr
POSTCONDITION Accepted
CHECK_DEADLOCK FALSE
"""


def validate(rep, work, trace, what):
    events = vlib.read_ndjson(trace)
    res, info = vlib.validate_trace("Trace_LocalStoreFS", TRACE_CFG, trace, work, timeout=3400)
    rep.add_tlc("Trace_LocalStoreFS validation (%s)" % what, res)
    if info["kind"] is None:
        rep.traces += len(events)
    else:
        m = re.search(r"<<\s*(\d+),", info.get("bad", "") or "")
        evt = events[int(m.group(1)) - 1] if m and int(m.group(1)) <= len(events) else None
        rep.violation("%s: %s; record: %s" % (what, (info.get("bad") or "")[:300], json.dumps(evt)[:1500]), {"events": [evt] if evt else [], "info": info})
    return events


def run(rep, tier, seed):
    work = vlib.workdir("C16")
    binp = vlib.go_build("c16")
    desync = vlib.build_desync(tags="")
    thorough = tier == "thorough"
    r = vlib.tlc_design("LocalStoreFS", "LocalStoreFS.cfg", work, workers=4, timeout=3000)
    rep.add_tlc("LocalStoreFS: the prune walk satisfies PruneOK on every small directory (ASSUME)", r)
    trace = os.path.join(work, "trace.ndjson")
    p = vlib.sh("%s -seed %d -n %d -out %s -dir %s -desync %s 2>/dev/null" % (binp, seed, 6000 if thorough else 800, trace, os.path.join(work, "data"), desync), timeout=3000, check=False)
    if p.returncode != 0:
        raise vlib.Infra("driver c16 failed:\n" + p.stdout[-3000:])
    vlib.log(p.stdout.strip())
    events = validate(rep, work, trace, "prune/verify")
    # the S3 store's Prune against an in-memory S3 endpoint (listing pages of 3 / 7 / 1000 keys, refused DELETEs)
    s3bin = vlib.go_build("s3")
    s3trace = os.path.join(work, "s3prune.ndjson")
    p = vlib.sh("%s -seed %d -len 1 -prune %d -out %s -outprune %s" % (s3bin, seed, 1500 if thorough else 200, os.path.join(work, "s3ops.ndjson"), s3trace), timeout=3000, check=False)
    if p.returncode != 0:
        raise vlib.Infra("driver s3 failed:\n" + p.stdout[-3000:])
    vlib.log(p.stdout.strip())
    events += validate(rep, work, s3trace, "S3 prune")
    for e in events:
        rep.case(e, len(e.get("files", [])) >= 3)
    rep.sample(events[:3])
    rep.rule = ("case = store directory with, per ID (3) and format (2), a valid chunk / an invalid chunk (other chunk's object, garbage, truncated) / nothing, optional "
                "chunk-named files in foreign directories, 0-2 abandoned temporary files, 0-2 junk files; then Prune with a random keep-set over 4 IDs (one absent "
                "from the store) or Verify with/without repair and 1/4/10 workers, in compressed or uncompressed mode, library and (every 8th) `desync prune`; "
                "plus S3 buckets with own-format / other-format chunks, junk objects, objects outside the prefix, listing pages of 3/7/1000 keys and a DELETE the service refuses; "
                "distinct = different directory/operation; non-trivial = >= 3 files")
    rep.trusted = ["the ID in a verify message is parsed from 'chunk id <id> does not match its hash'"]
    rep.assumptions = ["S3 prune runs against an in-memory S3 endpoint written for this harness (harness/fakes/s3.go); SFTP stores are not exercised (no server offline)"]


def replay(path):
    d = json.load(open(path))
    work = vlib.workdir("C16-replay")
    f = os.path.join(work, "trace.ndjson")
    vlib.write_ndjson(f, d["replay"]["events"])
    res, info = vlib.validate_trace("Trace_LocalStoreFS", TRACE_CFG, f, work)
    print(d["what"]); print("re-validation:", info)
    return 0 if info["kind"] is None else 1
