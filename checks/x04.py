"""X04 - (not a listed property: coverage of the mtree renderer) every line `desync mtree` prints can be read back, by mtree(5)'s rules, to the node it describes.
design level : Mtree.tla: the printer (Line) and an mtree(5) reader (Read: words at white space, backslash-octal escapes, keyword=value); TLC shows
               Read(Line(n)) = Want(n) for all nodes with names/targets of <= 2 bytes over {a, blank, backslash, #, '=', a high byte, ...}, all types, three modes and
               three nanosecond values (ASSUME); the printer as first found (blanks not escaped, nanoseconds padded with blanks) must fail (witness).
code -> spec : random trees (names with blanks, control and high bytes, long names; files, directories, symlinks, devices; all owner/mode/mtime classes incl. before 1970)
               rendered by the real `desync mtree` from the directory and from its catar; every line judged by Trace_Mtree.tla.
"""
import json, os, re
import vlib


def run(rep, tier, seed):
    work = vlib.workdir("X04")
    binp = vlib.go_build("x04", tags="")
    desync = vlib.build_desync(tags="")
    thorough = tier == "thorough"
    cfg = vlib.write_cfg(os.path.join(work, "mc.cfg"), open(os.path.join(vlib.SPEC, "cfg", "Mtree.spec.cfg")).read().replace("@ALPHA@", "97, 32, 92, 35, 10, 200, 61, 48" if thorough else "97, 32, 92, 35, 200, 61"))
    rep.add_tlc("Mtree: a reader gets every small node back from its line (ASSUME)", vlib.tlc_design("Mtree", cfg, work, workers=4, timeout=3000))
    r = vlib.tlc("Mtree", "Mtree.found.cfg", work, workers=2, timeout=600)
    if r.ok or "is false" not in (r.error or ""):
        raise vlib.Infra("witness Mtree.found did not fail: the specification is vacuous")
    trace = os.path.join(work, "trace.ndjson")
    p = vlib.sh("%s -seed %d -n %d -out %s -dir %s -desync %s 2>/dev/null" % (binp, seed, 300 if thorough else 40, trace, os.path.join(work, "data"), desync), timeout=3000, check=False)
    if p.returncode != 0:
        raise vlib.Infra("driver x04 failed:\n" + p.stdout[-3000:])
    vlib.log(p.stdout.strip())
    events = vlib.read_ndjson(trace)
    if sum(1 for e in events if e["ev"] == "mtree") < 50:
        raise vlib.Infra("fewer than 50 lines recorded: nothing to judge")
    res, info = vlib.validate_trace("Trace_Mtree", open(os.path.join(vlib.SPEC, "cfg", "Trace_Mtree.cfg")).read(), trace, work, timeout=3000)
    rep.add_tlc("Trace_Mtree validation", res)
    if info["kind"] is None:
        rep.traces += len(events)
    else:
        for m in re.finditer(r"<<\s*(\d+),\s*\"([^\"]*)\"", info.get("bad", "") or ""):
            evt = events[int(m.group(1)) - 1] if int(m.group(1)) <= len(events) else None
            shown = dict(evt or {})
            if "line" in shown:
                shown["text"] = bytes(shown["line"]).decode("latin-1")
            rep.violation("%s; record: %s" % (m.group(2), json.dumps(shown)[:1200]), {"events": [evt] if evt else [], "info": info})
        if not rep.violations:
            rep.violation("trace rejected: %s" % str(info)[:600], {"events": [], "info": info})
    for e in events:
        rep.case(e, e["ev"] == "mtree")
    rep.sample(events[:3])
    rep.rule = ("case = one line of `desync mtree` for one node of a random tree (3-27 nodes; names 'a b', 1-6 random bytes, 50-250 letters, letter+number; files, directories, "
                "symlinks, devices; 10 modes, 6 owners, 8 mtimes incl. before 1970), rendered from the directory and from its catar; distinct = different line/node; non-trivial = a node line")
    rep.trusted = ["the tree snapshot (lstat, readlink, read) and SHA512/256 of the content computed by the driver"]
    rep.assumptions = ["set-id and sticky bits are not listed by desync's mtree (permission bits only): modelled as coded, named in the specification"]


def replay(path):
    d = json.load(open(path))
    work = vlib.workdir("X04-replay")
    f = os.path.join(work, "trace.ndjson")
    vlib.write_ndjson(f, d["replay"]["events"])
    res, info = vlib.validate_trace("Trace_Mtree", open(os.path.join(vlib.SPEC, "cfg", "Trace_Mtree.cfg")).read(), f, work)
    print(d["what"]); print("re-validation:", info)
    return 0 if info["kind"] is None else 1
