"""C04 - index files round-trip exactly and malformed ones are rejected.
design level : IndexCodec.tla: Encode (the caibx layout) and Decode (the reader as a state machine with reject transitions) over tokens;
               TLC proves over all indexes with <=3 chunks: round trip, every strict prefix rejected, oversize chunk rejected, digest
               mismatch rejected, and for every single-token substitution: accepted => the file re-encodes to itself (canonical)
code -> spec : random indexes written by the real WriteTo must tokenise to Encode(index); valid files, every field-boundary and random
               byte truncation, single-field substitutions, digest mismatch, trailing bytes are fed to IndexFromReader (plain and through
               fragmenting readers), LocalIndexStore, RemoteHTTPIndex against the real handler and PUT to the handler; verdict and table
               must be Decode's. casync-made fixtures must be in the language and re-encode byte-identically.
"""
import json, os
import vlib
from checks import cli_common

TRACE_CFG = """SPECIFICATION TSpec
CONSTANT TraceFile = "@TRACE@"
INVARIANTS NoBad
CONSTRAINT Constr
POSTCONDITION Accepted
CHECK_DEADLOCK FALSE
"""


def run(rep, tier, seed):
    work = vlib.workdir("C04")
    binp = vlib.go_build("c04")
    thorough = tier == "thorough"
    cfg = vlib.write_cfg(os.path.join(work, "mc.cfg"), "SPECIFICATION Spec\nCONSTANTS MaxChunks = %d  Sizes = {1, 2, 3}  IdVals = {1, 2}\n" % (4 if thorough else 3))
    r = vlib.tlc_design("IndexCodec", cfg, work, workers=4, timeout=3400)
    rep.add_tlc("IndexCodec theorems (ASSUME) over all indexes with <= %d chunks" % (4 if thorough else 3), r)
    trace = os.path.join(work, "trace.ndjson")
    p = vlib.sh("%s -seed %d -n %d -out %s -dir %s -repo %s 2>/dev/null" % (binp, seed, 1500 if thorough else 150, trace, os.path.join(work, "data"), vlib.REPO),
                timeout=3000, check=False)
    if p.returncode != 0:
        raise vlib.Infra("driver c04 failed:\n" + p.stdout[-3000:])
    vlib.log(p.stdout.strip())
    events = vlib.read_ndjson(trace)
    res, info = vlib.validate_trace("Trace_IndexCodec", TRACE_CFG, trace, work, timeout=3400)
    rep.add_tlc("Trace_IndexCodec validation", res)
    if info["kind"] is None:
        rep.traces += len(events)
    else:
        import re
        m = re.search(r"<<\s*(\d+),", info.get("bad", "") or "")
        evt = events[int(m.group(1)) - 1] if m and int(m.group(1)) <= len(events) else None
        rep.violation("index codec deviates from the specification: %s; record: %s" % (info.get("bad", info), json.dumps(evt)[:900]),
                      {"events": [evt] if evt else [], "info": info})
    # the stdin/stdout store kind through the real binary: an index written to standard output is the index, whatever the progress settings
    cli_common.run(rep, vlib.workdir("C04-cli"), seed, "stdout-index", thorough, min_records=4)
    for e in events:
        rep.case(e, e.get("ev") == "dec" and len(e.get("tokens", [])) > 8)
    rep.sample([events[0], events[8]] + events[-2:])
    rep.rule = ("case = random index (0-8 chunks, sizes <= max, 6 IDs, both digest flags) -> written by WriteTo and tokenised independently; then the valid "
                "file, every 8-byte-boundary prefix, random byte prefixes, 25 single-field substitutions (0, 1, v-1, v+1, v/2, v+d, 2^64-1, magic constants), "
                "the other digest, trailing bytes, each through one of {IndexFromReader, fragmenting reader (1/3/5/7/13 bytes per read), LocalIndexStore, "
                "RemoteHTTPIndex + real handler, PUT to the handler}; casync fixtures; distinct = different token string/verdict; non-trivial = decode of > 8 tokens")
    rep.trusted = ["independent tokeniser of the byte layout in the driver"]
    rep.assumptions = ["S3 and SFTP index stores read the object and call the same IndexFromReader; stdin and stdout are covered by the fragmenting reader and by `make -` / `tar -i -` / `list-chunks -` through the real binary"]


def replay(path):
    d = json.load(open(path))
    _r = cli_common.replay_if_cli(d, vlib.workdir("C04-cli-replay"))
    if _r is not None:
        return _r
    work = vlib.workdir("C04-replay")
    f = os.path.join(work, "trace.ndjson")
    vlib.write_ndjson(f, d["replay"]["events"])
    res, info = vlib.validate_trace("Trace_IndexCodec", TRACE_CFG, f, work)
    print(d["what"]); print("re-validation:", info)
    return 0 if info["kind"] is None else 1
