"""X02 - (not a listed property: coverage of assembly's reporting) the statistics AssembleFile returns agree with what the run did.
code -> spec : the C01 driver (real AssembleFile under the gate scheduler: seeds of every kind, in-place targets, regenerate, cancellation, store failures)
               records the returned ExtractStats after every scenario; ExtractStats.tla recounts store requests, chunks kept in place and seed segments from
               the scenario's own events and compares.
"""
import json, os, re
import vlib
from checks import c01


def run(rep, tier, seed):
    work = vlib.workdir("X02")
    binp = vlib.go_build("c01")
    thorough = tier == "thorough"
    trace = os.path.join(work, "assemble.ndjson")
    p = vlib.sh([binp, "-seed", str(seed), "-n", str(4000 if thorough else 500), "-out", trace, "-meta", os.path.join(work, "meta.json"), "-dir", os.path.join(work, "data")],
                timeout=3400, check=False)
    if p.returncode != 0:
        raise vlib.Infra("driver c01 failed:\n" + p.stdout[-3000:])
    events = vlib.read_ndjson(trace)
    stats = [e for e in events if e.get("ev") == "stats"]
    if len(stats) < 10 or not any(e["rep"]["fromseeds"] > 0 for e in stats) or not any(e["rep"]["inplace"] > 0 for e in stats) or not any(e["rep"]["store"] > 0 for e in stats):
        raise vlib.Infra("the driver produced %d statistics records without every kind of source: nothing to judge" % len(stats))
    res, info = vlib.validate_trace("ExtractStats", open(os.path.join(vlib.SPEC, "cfg", "ExtractStats.cfg")).read(), trace, work, timeout=3400)
    rep.add_tlc("ExtractStats validation", res)
    if info["kind"] is None:
        rep.traces += len(stats)
    else:
        for m in re.finditer(r"<<\s*(\d+),\s*\"([^\"]*)\"", info.get("bad", "") or ""):
            evt = events[int(m.group(1)) - 1] if int(m.group(1)) <= len(events) else None
            sc = events[evt["from"] - 1:int(m.group(1))] if evt and "from" in evt else []
            # the replay file must keep line numbers: "from" is re-based
            if sc:
                sc = [dict(e) for e in sc]
                sc[-1]["from"] = 1
            rep.violation("%s; record: %s" % (m.group(2), json.dumps(evt)[:900]), {"events": sc, "info": info})
        if not rep.violations:
            rep.violation("trace rejected: %s" % str(info)[:600], {"events": [], "info": info})
    for e in stats:
        rep.case(e["rep"], e["k"] >= 2)
    rep.sample(stats[:3])
    rep.rule = ("case = one scenario of the C01 driver (see C01) with the ExtractStats it returned; distinct = different statistics; non-trivial = >= 2 chunks")
    rep.trusted = ["the scenario's events (hooks asm.job / asm.chunk, gated store) as counted sources"]
    rep.assumptions = []


def replay(path):
    d = json.load(open(path))
    work = vlib.workdir("X02-replay")
    f = os.path.join(work, "trace.ndjson")
    vlib.write_ndjson(f, d["replay"]["events"])
    res, info = vlib.validate_trace("ExtractStats", open(os.path.join(vlib.SPEC, "cfg", "ExtractStats.cfg")).read(), f, work)
    print(d["what"]); print("re-validation:", info)
    return 0 if info["kind"] is None else 1
