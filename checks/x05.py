"""X05 - (not a listed property: coverage of the cache's only other state) reading through a local cache keeps the chunk files' times current, as the README documents.
design level : CacheAge.tla: Use (fill or touch) / Tick / Collect (an external collector by file age); invariants KeepsRecent (a chunk used within the age limit is never
               collected) and TimeFollowsUse; a cache whose hits leave the file time alone must violate KeepsRecent (witness).
code -> spec : caches with aged chunk files; 1-3 runs of the real `desync cat -c`, `desync extract -c` or the library's Cache over LocalStore{UpdateTimes}; the time class of every
               cache file after each run is compared with the model's by Trace_CacheAge.tla.
"""
import json, os, re
import vlib


def run(rep, tier, seed):
    work = vlib.workdir("X05")
    binp = vlib.go_build("x05", tags="")
    desync = vlib.build_desync(tags="")
    thorough = tier == "thorough"
    rep.add_tlc("CacheAge: documented behaviour keeps recently used chunks", vlib.tlc_design("CacheAge", "CacheAge.documented.cfg", work, workers=2, timeout=600))
    r = vlib.tlc("CacheAge", "CacheAge.noupdate.cfg", work, workers=2, timeout=600)
    if r.ok or r.violated != "KeepsRecent":
        raise vlib.Infra("witness CacheAge.noupdate did not violate KeepsRecent: the specification is vacuous")
    trace = os.path.join(work, "trace.ndjson")
    p = vlib.sh("%s -seed %d -n %d -out %s -dir %s -desync %s 2>/dev/null" % (binp, seed, 400 if thorough else 60, trace, os.path.join(work, "data"), desync), timeout=3000, check=False)
    if p.returncode != 0:
        raise vlib.Infra("driver x05 failed:\n" + p.stdout[-3000:])
    vlib.log(p.stdout.strip())
    events = vlib.read_ndjson(trace)
    res, info = vlib.validate_trace("Trace_CacheAge", open(os.path.join(vlib.SPEC, "cfg", "Trace_CacheAge.cfg")).read(), trace, work, timeout=3000)
    rep.add_tlc("Trace_CacheAge validation", res)
    if info["kind"] is None:
        rep.traces += len(events)
    else:
        seen = set()
        for m in re.finditer(r"<<\s*(\d+),\s*\"([^\"]*)\"", info.get("bad", "") or ""):
            i = int(m.group(1))
            if i in seen:
                continue
            seen.add(i)
            j = i
            while j > 1 and events[j - 1]["ev"] != "reset":
                j -= 1
            rep.violation("%s; record: %s" % (m.group(2), json.dumps(events[i - 1])[:900]), {"events": events[j - 1:i], "info": info})
        if not rep.violations:
            rep.violation("trace rejected: %s" % str(info)[:600], {"events": [], "info": info})
    for e in events:
        rep.case(e, e["ev"] == "run")
    rep.sample(events[:4])
    rep.rule = ("case = cache holding a random subset of 6 chunks with file times in 2001, then 1-3 runs (cat / extract / library) over indexes of 1-5 entries; "
                "distinct = different record; non-trivial = a run")
    rep.trusted = ["file times read with stat; a file counts as touched by a run when its time is not older than the run's start minus 15 ms"]
    rep.assumptions = []


def replay(path):
    d = json.load(open(path))
    work = vlib.workdir("X05-replay")
    f = os.path.join(work, "trace.ndjson")
    vlib.write_ndjson(f, d["replay"]["events"])
    res, info = vlib.validate_trace("Trace_CacheAge", open(os.path.join(vlib.SPEC, "cfg", "Trace_CacheAge.cfg")).read(), f, work)
    print(d["what"]); print("re-validation:", info)
    return 0 if info["kind"] is None else 1
