"""C20 - local chunk stores use casync's on-disk format; both formats coexist.
design level : LocalStoreFS.tla: FmtOp / FmtPrune / FmtVerify (what a client configured for one format may see and touch); TLC checks that no operation
               of a client configured for f changes files of the other format (ASSUME over all small directory contents)
code -> spec : random histories of a compressed and an uncompressed LocalStore client (plus HTTP handler + client per format) over ONE directory: store, has,
               get, remove, prune, verify, damage; after every step the directory is listed with a strict parser of casync's layout
               (<id[0:4]>/<id>[.cacnk]) and result and listing are compared with the model. Every stored object is checked to be one standard zstd frame of
               the chunk (independent frame walker) / the raw bytes; stores written with the klauspost encoder are read with libzstd (-tags datadog build)
               and vice versa; casync-written fixture stores are read with both.
"""
import json, os, re
import vlib
from checks import cli_common
from checks import c16


def run(rep, tier, seed):
    work = vlib.workdir("C20")
    binp = vlib.go_build("c20")
    zdef = vlib.go_build("zcheck")
    zlib = vlib.go_build("zcheck", tags="verif datadog", out=os.path.join(vlib.BUILD, "bin", "zcheck-libzstd"))
    thorough = tier == "thorough"
    r = vlib.tlc_design("LocalStoreFS", "LocalStoreFS.cfg", work, workers=4, timeout=3000)
    rep.add_tlc("LocalStoreFS: operations in one format never change files of the other (ASSUME)", r)
    trace = os.path.join(work, "trace.ndjson")
    p = vlib.sh("%s -seed %d -n %d -steps %d -out %s -dir %s -repo %s -zdefault %s -zlib %s 2>/dev/null" % (
        binp, seed, 3000 if thorough else 300, 40 if thorough else 25, trace, os.path.join(work, "data"), vlib.REPO, zdef, zlib), timeout=3000, check=False)
    if p.returncode != 0:
        raise vlib.Infra("driver c20 failed:\n" + p.stdout[-3000:])
    vlib.log(p.stdout.strip())
    events = c16.validate(rep, work, trace, "format coexistence")
    scs = vlib.split_scenarios(events, key="fmtreset")
    for sc in scs:
        rep.case(sc, len(sc) > 5)
    rep.sample(scs[0][:12] if scs else events[:5])
    rep.sample([e for e in events if e["ev"] == "object"][:3])
    # store options from the config file (uncompressed: true for an absolute path or glob) against every spelling of the store path
    cli_common.run(rep, vlib.workdir("C20-cli"), seed, "config,ssh", tier == "thorough")
    rep.rule = ("case = history of 25-40 steps by a compressed and an uncompressed client on one directory (store/has/get through LocalStore or HTTP handler+client, "
                "remove, prune with a random keep-set, verify +- repair, damage of one client's file) over 3 chunk contents drawn from {1 byte, all-zero up to 64 KiB, "
                "incompressible random, text}; plus cross-implementation reads (15 contents each way) and fixture stores; distinct = different history; non-trivial = > 4 steps")
    rep.trusted = ["independent zstd frame walker (magic, frame header, block headers, optional checksum, no trailing bytes)", "libzstd through github.com/DataDog/zstd (cgo)"]


def replay(path):
    import json as _json
    _r = cli_common.replay_if_cli(_json.load(open(path)), vlib.workdir("C20-cli-replay"))
    if _r is not None:
        return _r
    return c16.replay(path)
