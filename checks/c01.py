"""C01 - extract reproduces the indexed blob byte-for-byte (and terminates, without panic, also for an empty blob).
design level : Assemble.tla (chunk-level concurrency core: plan, validation, bail/skip/regenerate, seed copy + re-hash,
               self-seed, in-place reuse, a seed that aliases the target or mutates) exhaustively for K=3, 2 workers,
               all three actions (TLC)
code -> spec : the real AssembleFile under the gate scheduler on generated scenarios (seeds consistent / stale / truncated /
               empty / aliasing the target, prior target absent / empty / garbage / longer / shorter / older / complete,
               1-3 workers, FICLONERANGE emulated or absent, chunk sizes below and above the block size, a seed
               rewritten during the run, cancellation); after every worker step the whole target is read back and
               Trace_Assemble.tla checks the frame condition, the self-seed invariant, plan well-formedness, the final
               verdict and the promised success; a panic or hang of the real code is a violation.
"""
import json, os, re
import vlib
from checks import cli_common

TRACE_CFG = """SPECIFICATION TSpec
CONSTANT TraceFile = "@TRACE@"
INVARIANTS Safety SelfSeedSound Success InterruptedOnlyIfCancelled NoBad
CONSTRAINT Constr
POSTCONDITION Accepted
CHECK_DEADLOCK FALSE
"""
MC = """SPECIFICATION Spec
CONSTANTS K = %d  Vals = {%s}  Workers = {%s}  Act = "%s"  MaxMut = %d
INVARIANTS Safe SelfSound PlanTiles NoStuck %s
CHECK_DEADLOCK FALSE
"""


def drive(rep, work, binp, seed, n, tag, extra=()):
    trace = os.path.join(work, tag + ".ndjson")
    meta = os.path.join(work, tag + ".json")
    scratch = os.path.join(work, "data")
    p = vlib.sh([binp, "-seed", str(seed), "-n", str(n), "-out", trace, "-meta", meta, "-dir", scratch] + list(extra), timeout=3400, check=False)
    if p.returncode != 0:
        # the driver died: a panic in a goroutine of the code under test kills the process
        scs = re.findall(r"^SCENARIO (.*)$", p.stdout, re.M)
        m = re.search(r"^(panic: .*|fatal error: .*)$", p.stdout, re.M)
        if m and scs:
            stack = p.stdout[p.stdout.index(m.group(1)):][:6000]
            rep.violation("AssembleFile crashed the process: %s (scenario %s)" % (m.group(1), scs[-1][:600]),
                          {"scenario": json.loads(scs[-1]), "stack": stack})
            return None, []
        raise vlib.Infra("driver c01 failed:\n" + p.stdout[-3000:])
    vlib.log(p.stdout.strip().splitlines()[-1])
    m = json.load(open(meta))
    events = vlib.read_ndjson(trace)
    scens = vlib.split_scenarios(events)
    for h in m["hangs"]:
        rep.violation("AssembleFile did not return (goroutines: %s; scenario %s)" % (h["parked"], json.dumps(h["scenario"])[:500]),
                      {"scenario": h["scenario"], "events": scens[h["scen"] - 1] if h["scen"] <= len(scens) else [], "stacks": h["stacks"][:30000]})
    res, info = vlib.validate_trace("Trace_Assemble", TRACE_CFG, trace, work, timeout=3400)
    rep.add_tlc("Trace_Assemble validation (%s)" % tag, res)
    if info["kind"] is None:
        rep.traces += len(scens) - len(m["hangs"])
    else:
        scn = info.get("scen")
        sc = next((s for s in scens if s[0].get("scen") == scn), [])
        head = {k: v for k, v in (sc[0] if sc else {}).items() if k not in ("cstarts",)}
        if info["kind"] == "invariant":
            rep.violation("trace of the real AssembleFile violates %s (%s); scenario: %s" % (info["invariant"], info.get("bad", ""), json.dumps(head)[:700]),
                          {"events": sc, "info": info})
        else:
            line = info.get("line", 0)
            evt = events[line - 1] if 0 < line <= len(events) else None
            rep.violation("trace of the real AssembleFile is not accepted by Trace_Assemble.tla at event %s; scenario: %s" % (evt, json.dumps(head)[:700]),
                          {"events": sc, "info": info})
        rep.traces += max(0, (scn or 1) - 1)
    for sc in scens:
        h = sc[0]
        nontriv = len(h.get("idx", [])) >= 2 and (any(e.get("ev") == "asm.copied" for e in sc) or h.get("prior") not in ("absent", "empty")) \
            and (h.get("n", 1) >= 2 or h.get("prior") not in ("absent", "empty"))
        rep.case([[e.get("g"), e.get("ev"), e.get("first"), e.get("pos"), e.get("src"), e.get("t")] for e in sc], bool(nontriv))
    for sc in scens[:1] + scens[7:8]:
        rep.sample({"instance": {k: v for k, v in sc[0].items() if k != "cstarts"}, "events": sc[1:25]})
    return m, scens


def run(rep, tier, seed):
    work = vlib.workdir("C01")
    binp = vlib.go_build("c01")
    thorough = tier == "thorough"
    runs = [("regenerate K=3 2 workers", (3, '"a","z"', "w1, w2", "regen", 1, "RegenSucceeds")),
            ("skip K=3 2 workers", (3, '"a","z"', "w1, w2", "skip", 1, "")),
            ("bail-out K=3 2 workers", (3, '"a","z"', "w1, w2", "bail", 1, ""))]
    if thorough:
        runs += [("regenerate K=3 3 workers", (3, '"a","z"', "w1, w2, w3", "regen", 1, "RegenSucceeds")),
                 ("regenerate K=4 2 workers", (4, '"a","z"', "w1, w2", "regen", 1, "RegenSucceeds")),
                 ("regenerate K=3 3 values", (3, '"a","b","z"', "w1, w2", "regen", 1, "RegenSucceeds"))]
    for name, c in runs:
        cfg = vlib.write_cfg(os.path.join(work, "mc.cfg"), MC % c)
        r = vlib.tlc_design("Assemble", cfg, work, workers=14, timeout=3400, heap="24g")
        rep.add_tlc("Assemble design: " + name, r)
        vlib.log("design %s: %d distinct states, %.0fs" % (name, r.distinct, r.wall))
    drive(rep, work, binp, seed, 8000 if thorough else 1200, "assemble")
    # the command glue: the real binary end to end, judged by CliOutcome.tla
    cli_common.run(rep, vlib.workdir("C01-cli"), seed, "extract,ssh", tier == "thorough")
    rep.rule = ("case = blob of 0-7 chunks over 3 contents + the null chunk (sizes 40-120 bytes, or 200-9000 bytes around the 4096-byte block) x "
                "prior target in {absent, empty, garbage, longer, shorter, older version, complete} x 0-2 seeds in {consistent, stale, truncated, "
                "empty index, alias of the target} x action in {bail-out, skip, regenerate} x 1-3 workers x {no cloning, emulated FICLONERANGE} x "
                "optional seed rewrite at a random event x every 5th case cancelled at a random event x random/PCT schedule; distinct = "
                "different event/state sequence; non-trivial = >= 2 chunks and (a seed copy or existing target content) and (>= 2 workers or existing content)")
    rep.trusted = ["FICLONERANGE emulation follows the generic VFS remap rules (no reflink filesystem available)", "SHA512/256",
                   "gate scheduler; target snapshots are taken at token-holder arrivals only"]
    rep.assumptions = ["block devices are out of scope", "seeds are identified by file name in recorded events (at most one seed aliases the target)"]


def replay(path):
    import json as _json
    _d = _json.load(open(path))
    _r = cli_common.replay_if_cli(_d, vlib.workdir("C01-cli-replay"))
    if _r is not None:
        return _r
    d = json.load(open(path))
    work = vlib.workdir("C01-replay")
    print(d["what"])
    if "events" in d["replay"] and d["replay"]["events"]:
        f = os.path.join(work, "trace.ndjson")
        vlib.write_ndjson(f, d["replay"]["events"])
        res, info = vlib.validate_trace("Trace_Assemble", TRACE_CFG, f, work)
        print("re-validation:", info)
        return 0 if info["kind"] is None else 1
    binp = vlib.go_build("c01")
    p = vlib.sh([binp, "-scenario", json.dumps(d["replay"]["scenario"]), "-out", os.path.join(work, "t.ndjson"), "-dir", os.path.join(work, "data")], check=False)
    print(p.stdout[-3000:])
    return 1 if p.returncode != 0 else 0
