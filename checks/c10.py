"""C10 - copy-on-read sparse files return the blob's bytes or an error, never stale zeros.
design level : SparseFile.tla: implementation-shaped model (need set, load, cache write, done bit, save-state, restart, lost cache)
               against the oracle ReadAtOK for all small indexes, reads and failure patterns (TLC)
code -> spec : the real SparseFile: reads through two handles and the mount node, failing-ID set changes, save-state, restart with a
               matching / lost / resized cache file or pre-load, plus concurrent readers under the gate scheduler (gates at the
               store call, before the cache write and before the done bit); every result judged by Trace_SparseFile.tla.
"""
import json, os, re
import vlib

TRACE_CFG = """SPECIFICATION TSpec
CONSTANT TraceFile = "@TRACE@"
INVARIANTS NoBad
CONSTRAINT Constr
POSTCONDITION Accepted
CHECK_DEADLOCK FALSE
"""
MC = """SPECIFICATION Spec
CONSTANTS
  Contents <- MCContents
  NullC <- MCNull
  MaxChunks = %d
  MaxOps = %d
  Offsets = {%s}
  Lengths = {%s}
INVARIANTS ResultOK DoneImpliesPresent
CHECK_DEADLOCK FALSE
"""


def run(rep, tier, seed):
    work = vlib.workdir("C10")
    binp = vlib.go_build("c10")
    thorough = tier == "thorough"
    runs = [("<=2 chunks, 2 reads, save/restart/lost cache, failures", (2, 2, "0, 1, 2, 3, 5", "0, 1, 2, 4, 10"))]
    if thorough:
        runs.append(("<=3 chunks, 2 reads", (3, 2, "0, 1, 2, 3, 5, 9", "0, 1, 2, 4, 10")))
    for name, c in runs:
        cfg = vlib.write_cfg(os.path.join(work, "mc.cfg"), MC % c)
        r = vlib.tlc_design("SparseFile", cfg, work, workers=14, timeout=3400)
        rep.add_tlc("SparseFile design: " + name, r)
        vlib.log("design %s: %d distinct states, %.0fs" % (name, r.distinct, r.wall))
    trace = os.path.join(work, "trace.ndjson")
    errf = os.path.join(work, "stderr.txt")
    p = vlib.sh("%s -seed %d -n %d -ops %d -conc %d -out %s -dir %s 2>%s" % (binp, seed, 4000 if thorough else 600, 50 if thorough else 40,
                300 if thorough else 40, trace, os.path.join(work, "data"), errf), timeout=3400, check=False)
    if p.returncode != 0:
        err = open(errf).read()
        i = max(err.find("panic:"), err.find("fatal error:"))
        if i >= 0:
            rep.violation("the sparse file code crashed the process: " + err[i:i + 200].splitlines()[0], {"stack": err[i:i + 6000]})
            return
        raise vlib.Infra("driver c10 failed:\n" + p.stdout[-2000:] + err[-2000:])
    vlib.log(p.stdout.strip())
    events = vlib.read_ndjson(trace)
    scens = vlib.split_scenarios(events)
    res, info = vlib.validate_trace("Trace_SparseFile", TRACE_CFG, trace, work, timeout=3400)
    rep.add_tlc("Trace_SparseFile validation", res)
    # deviations the specification names: known findings, or violations if they are not listed
    for fid in sorted(set(re.findall(r'<<"KNOWN", "([^"]+)", \d+, \d+>>', res.out))):
        k = next((x for x in vlib.known_findings() if x.get("status") == "known" and x.get("property") == "C10" and x.get("id") == fid), None)
        first = re.search(r'<<"KNOWN", "%s", (\d+), (\d+)>>' % re.escape(fid), res.out)
        if k:
            rep.known_finding(k)
        else:
            sc = next((s for s in scens if s[0].get("scen") == int(first.group(1))), [])
            rep.violation("deviation %s observed on the real code and not listed as a known finding" % fid, {"events": sc})
    if info["kind"] is None:
        rep.traces += len(scens)
    else:
        scn = info.get("scen")
        sc = next((s for s in scens if s[0].get("scen") == scn), [])
        rep.violation("real SparseFile returned a result the specification does not allow: %s; index chunks: %s" % (
            info.get("bad", info), (sc[0] if sc else {}).get("chunks")), {"events": sc, "info": info})
    for sc in scens:
        rep.case(sc, len(sc[0].get("chunks", [])) >= 2 and len(sc) > 5)
    for sc in scens[:1] + scens[-1:]:
        rep.sample({"index_chunks": sc[0].get("chunks"), "ops": sc[1:15]})
    rep.rule = ("case = hand-built index of 0-9 chunks (1-6 bytes, runs of the null chunk, repeated IDs) x 40-50 operations (ReadAt of any "
                "(offset, length) incl. zero length and past the end on two handles and through the mount node, change of the failing-ID set, "
                "save-state, restart with matching / lost / resized cache file or pre-load, clean or unclean exit) plus concurrent readers "
                "(2-4 goroutines x 2 reads on 8-19 chunk indexes) under random schedules; distinct = different op/result sequence; non-trivial = >= 2 chunks and > 4 ops")
    rep.trusted = ["SHA512/256 of chunk data as identity", "gate scheduler for the concurrent part"]
    rep.assumptions = ["an error is acceptable whenever some chunk ID is failing in the store; with a healthy store reads must succeed"]


def replay(path):
    d = json.load(open(path))
    work = vlib.workdir("C10-replay")
    f = os.path.join(work, "trace.ndjson")
    vlib.write_ndjson(f, d["replay"]["events"])
    res, info = vlib.validate_trace("Trace_SparseFile", TRACE_CFG, f, work)
    print(d["what"]); print("re-validation:", info)
    return 0 if info["kind"] is None else 1
