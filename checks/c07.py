"""C07 - a cancelled or interrupted operation never reports success.
design level : PipelineMC.tla with Cancel enabled in every state (ChunkStorage and Copy disciplines); ParChunker.tla with Cancel
code -> spec : ChopFile / Copy / ChunkStream / VerifyIndex / IndexFromFile under the gate scheduler, the context cancelled at
               every event of small runs (sampled for larger ones); traces validated by Trace_Pipeline.tla /
               Trace_ParChunker.tla: a run that reports success must have completed all its work.
"""
import os, json
import vlib
from checks import pipeline_common as pc
from checks import c02
from checks import c01


def run(rep, tier, seed):
    work = vlib.workdir("C07")
    binp = vlib.go_build("pipe")
    bin2 = vlib.go_build("c02")
    thorough = tier == "thorough"
    runs = [("chop + cancel: 2 ids, <=3 jobs, 2 workers, <=1 fault", ("1, 2", 3, 2, 1, "chop", "TRUE", "")),
            ("copy + cancel: 2 ids, <=3 jobs, 2 workers, <=1 fault", ("1, 2", 3, 2, 1, "copy", "TRUE", ""))]
    if thorough:
        runs += [("chop + cancel: 2 ids, <=4 jobs, 3 workers, <=1 fault", ("1, 2", 4, 3, 1, "chop", "TRUE", ""))]
    pc.design(rep, work, runs)
    pc.drive(rep, work, binp, seed, 40 if thorough else 10, "clean,cancel", "chop,copy,stream,verify", 120 if thorough else 50)
    if thorough:
        pc.drive(rep, work, binp, seed + 9, 10, "clean,cancel", "chop,copy,stream,verify", 60, big=True, tag="big")
    # IndexFromFile (make): cancellation at a random event of every instance
    trace = os.path.join(work, "pc.ndjson")
    scratch = os.path.join(work, "pcdata")
    os.makedirs(scratch)
    p = vlib.sh([bin2, "-seed", str(seed), "-n", "400" if thorough else "80", "-per", "4" if thorough else "3", "-out", trace,
                 "-meta", os.path.join(work, "pc.json"), "-dir", scratch], timeout=3400, check=False)
    if p.returncode != 0:
        raise vlib.Infra("driver c02 failed:\n" + p.stdout[-3000:])
    vlib.log(p.stdout.strip())
    events = vlib.read_ndjson(trace)
    scens = vlib.split_scenarios(events)
    res, info = vlib.validate_trace("Trace_ParChunker", c02.TRACE_CFG, trace, work, timeout=3400)
    rep.add_tlc("Trace_ParChunker validation (cancellation)", res)
    if info["kind"] is None:
        rep.traces += len(scens)
    else:
        scn = info.get("scen")
        sc = scens[scn - 1] if scn and scn <= len(scens) else []
        rep.violation("IndexFromFile: %s in scenario %s (cancel at event %s): %s" % (
            info.get("invariant", "trace not accepted"), scn, (sc[0] if sc else {}).get("cancel"), info.get("bad", "")), {"events": sc, "info": info})
    for sc in scens:
        if sc[0].get("cancel", -1) >= 0:
            rep.case([[e.get("g"), e.get("ev"), e.get("start")] for e in sc], True)
    # AssembleFile (extract): every scenario cancelled at a random event
    bin3 = vlib.go_build("c01")
    c01.drive(rep, work, bin3, seed + 3, 2500 if thorough else 500, "assemble-cancel", extra=["-cancelevery", "1"])
    # Tar / UnTar / UnTarIndex cancelled at the k-th write / read / chunk request; the real binary signalled at its k-th store request
    for cfg, must_pass in (("CancelOutcome.code.cfg", True), ("CancelOutcome.nilOnCancel.cfg", False)):
        if must_pass:
            rep.add_tlc("CancelOutcome/%s" % cfg, vlib.tlc_design("CancelOutcome", cfg, work, workers=2, timeout=600))
        else:
            r = vlib.tlc("CancelOutcome", cfg, work, workers=2, timeout=600)
            if r.ok or not r.violated:
                raise vlib.Infra("CancelOutcome/%s must violate SuccessMeansComplete (witness)" % cfg)
    bin4 = vlib.go_build("c07")
    desync = vlib.build_desync(tags="")
    tr = os.path.join(work, "cancel.ndjson")
    p = vlib.sh([bin4, "-mode", "all", "-seed", str(seed)] + (["-thorough"] if thorough else []) + ["-out", tr, "-dir", os.path.join(work, "c07data"), "-desync", desync],
                timeout=3400, check=False)
    if p.returncode != 0:
        raise vlib.Infra("driver c07 failed:\n" + p.stdout[-3000:])
    vlib.log(p.stdout.strip().splitlines()[-1])
    cev = vlib.read_ndjson(tr)
    sig = [e for e in cev if e["ev"] == "signal"]
    if sum(1 for e in sig if e["signalled"] and e["exit"] != 0) < 20 or sum(1 for e in cev if e["ev"] == "cancel" and e["err"] != "nil") < 50:
        raise vlib.Infra("the cancellation driver did not interrupt anything: %d signal records" % len(sig))
    cfg_text = open(os.path.join(vlib.SPEC, "cfg", "Trace_CancelOutcome.cfg")).read()
    res, info = vlib.validate_trace("Trace_CancelOutcome", cfg_text, tr, work, timeout=1800)
    rep.add_tlc("Trace_CancelOutcome validation", res)
    if info["kind"] is None:
        rep.traces += len(cev)
    else:
        ln = info.get("line")
        evt = cev[ln - 1] if ln and ln <= len(cev) else None
        rep.violation("%s | %s" % ((info.get("bad") or "")[:300], json.dumps(evt)[:400]), {"events": [evt] if evt else [], "info": info, "trace_spec": "Trace_CancelOutcome"})
    for e in cev:
        if e["ev"] == "cancel":
            rep.case(["cancel", e["op"], e["n"], e["k"], e["after"]], e["k"] > 0)
        else:
            rep.case(["signal", e["cmd"], e["sig"], e["k"]], e["signalled"])
    rep.rule = ("case = small input x entry point in {ChopFile, Copy, ChunkStream, VerifyIndex, IndexFromFile} x 1-3 workers x cancellation "
                "of the caller's context at the k-th recorded event (every k for small runs, bounded sample otherwise; k = 0 is "
                "'before start') x random/PCT schedule; plus Tar / UnTar / UnTarIndex (1, 3 workers) cancelled before or after their k-th write / read / chunk "
                "request (every k for UnTarIndex, every 3rd otherwise; every k thorough) and seven commands of the real binary sent SIGINT / SIGTERM at their k-th "
                "store request (k in 0,1,2,3,5,9,17,30,45; 0..70 thorough); distinct = different event sequence / (entry point, k); non-trivial = >= 2 units of work")
    rep.trusted = ["gate scheduler; cancellation is performed inside the scheduler's critical section, so its position in the trace is exact"]
    rep.assumptions = ["verify-index is covered at library level (VerifyIndex under the gate scheduler) only: the command has no observable output by which "
                       "completeness could be judged from outside"]
    rep.extra["entry_points"] = ["ChopFile", "Copy", "ChunkStream", "VerifyIndex", "IndexFromFile", "AssembleFile", "Tar", "UnTar", "UnTarIndex",
                                 "desync extract / extract -k / untar -i / cache / chop / make / tar -i under SIGINT and SIGTERM"]


def replay(path):
    d = json.load(open(path))
    work = vlib.workdir("C07-replay")
    f = os.path.join(work, "trace.ndjson")
    ev = d["replay"]["events"]
    vlib.write_ndjson(f, ev)
    if any(e.get("ev", "") in ("cancel", "signal") for e in ev):
        res, info = vlib.validate_trace("Trace_CancelOutcome", open(os.path.join(vlib.SPEC, "cfg", "Trace_CancelOutcome.cfg")).read(), f, work)
    elif any(e.get("ev", "").startswith("asm.") for e in ev):
        res, info = vlib.validate_trace("Trace_Assemble", c01.TRACE_CFG, f, work)
    elif any(e.get("ev", "").startswith("pc.") for e in ev):
        res, info = vlib.validate_trace("Trace_ParChunker", c02.TRACE_CFG, f, work)
    else:
        res, info = vlib.validate_trace("Trace_Pipeline", pc.TRACE_CFG, f, work)
    print(d["what"]); print("re-validation:", info)
    return 0 if info["kind"] is None else 1
