"""C09 - random-access reads through an index return exactly the blob's bytes.
design level : ReadSeeker.tla: the implementation-shaped model (findOffset branches, cached chunk, load/copy/advance loop, FUSE
               handle) against the property oracle (SeekOK/ReadOK) for all indexes over a 4-5 element chunk alphabet incl. the
               null chunk, all op sequences of bounded length, any set of failing chunk IDs (TLC)
code -> spec : random Seek/Read sequences on the real IndexPos and read(off,size) on the real mount file handle (sequential and
               concurrent on one handle through a gated store), with a changing set of failing IDs; every result is judged
               by the same oracle in Trace_ReadSeeker.tla.
"""
import json, os
import vlib
from checks import cli_common

TRACE_CFG = """SPECIFICATION TSpec
CONSTANT TraceFile = "@TRACE@"
INVARIANTS NoBad
CONSTRAINT Constr
POSTCONDITION Accepted
CHECK_DEADLOCK FALSE
"""
MC = """SPECIFICATION Spec
CONSTANTS
  Contents <- %s
  NullC <- MCNull
  MaxChunks = %d
  MaxOps = %d
  Offsets <- MCOffsets
  Lengths = {%s}
INVARIANTS ResultOK CursorConsistent
CHECK_DEADLOCK FALSE
"""


def run(rep, tier, seed):
    work = vlib.workdir("C09")
    binp = vlib.go_build("c09")
    thorough = tier == "thorough"
    runs = [("4 contents, <=3 chunks, 2 ops", ("MCContents4", 3, 2, "0, 1, 2, 4, 10"))]
    if thorough:
        runs += [("5 contents, <=3 chunks, 2 ops", ("MCContents", 3, 2, "0, 1, 2, 4, 10")),
                 ("4 contents, <=2 chunks, 3 ops", ("MCContents4", 2, 3, "0, 1, 4, 10"))]
    for name, c in runs:
        cfg = vlib.write_cfg(os.path.join(work, "mc.cfg"), MC % c)
        r = vlib.tlc_design("ReadSeeker", cfg, work, workers=14, timeout=3400)
        rep.add_tlc("ReadSeeker design: " + name, r)
        vlib.log("design %s: %d distinct states, %.0fs" % (name, r.distinct, r.wall))
    trace = os.path.join(work, "trace.ndjson")
    errf = os.path.join(work, "stderr.txt")
    p = vlib.sh("%s -seed %d -n %d -ops %d -conc %d -out %s 2>%s" % (binp, seed, 3000 if thorough else 400, 60 if thorough else 40,
                                                                       200 if thorough else 30, trace, errf), timeout=3400, check=False, hang_ok=True)
    if p.returncode == 4 and "HANG:" in open(errf).read():
        vlib.log("driver: " + open(errf).read().strip().splitlines()[-1])     # the hang record is in the trace; judged below
    elif p.returncode != 0:
        err = open(errf).read()
        i = err.find("panic:")
        if i < 0:
            i = err.find("fatal error:")
        if i >= 0:
            rep.violation("the real reader crashed the process: " + err[i:i + 200].splitlines()[0], {"stack": err[i:i + 6000]})
            return
        raise vlib.Infra("driver c09 failed:\n" + p.stdout[-2000:] + err[-2000:])
    vlib.log(p.stdout.strip())
    events = vlib.read_ndjson(trace)
    scens = vlib.split_scenarios(events)
    res, info = vlib.validate_trace("Trace_ReadSeeker", TRACE_CFG, trace, work, timeout=3400)
    rep.add_tlc("Trace_ReadSeeker validation", res)
    if info["kind"] is None:
        rep.traces += len(scens)
    else:
        scn = info.get("scen")
        sc = next((s for s in scens if s[0].get("scen") == scn), [])
        line = info.get("line", 0)
        rep.violation("real IndexPos / mount handle returned a result the specification does not allow: %s; index chunks: %s" % (
            info.get("bad", info), (sc[0] if sc else {}).get("chunks")), {"events": sc, "info": info})
    for sc in scens:
        nontriv = len(sc[0].get("chunks", [])) >= 2 and len(sc) > 5
        rep.case(sc, nontriv)
    for sc in scens[:1] + scens[-1:]:
        rep.sample({"index_chunks": sc[0].get("chunks"), "ops": sc[1:15]})
    # the command glue: the real binary end to end, judged by CliOutcome.tla
    cli_common.run(rep, vlib.workdir("C09-cli"), seed, "cat,ssh,stdout-blob", tier == "thorough")
    rep.rule = ("case = hand-built index of 0-9 chunks (1-6 bytes each over 4 byte values, runs of the null chunk, repeated IDs, zero chunks shorter "
                "than max) x 40-60 random operations (Seek with every whence incl. negative and past-end, Read of 0..blob+3 bytes, mount-handle "
                "read(off,size), new handle, change of the failing-ID set) plus scenarios with 3 concurrent requests on one mount handle; "
                "distinct = different op/result sequence; non-trivial = >= 2 chunks and > 4 ops")
    rep.trusted = ["SHA512/256 of chunk data as identity"]
    rep.assumptions = ["the FUSE node is driven through its handle's read function, not through a kernel mount (mounting is not possible here)",
                       "indexes are well-formed (positive chunk sizes, sizes match chunk data)"]


def replay(path):
    import json as _json
    _d = _json.load(open(path))
    _r = cli_common.replay_if_cli(_d, vlib.workdir("C09-cli-replay"))
    if _r is not None:
        return _r
    d = json.load(open(path))
    work = vlib.workdir("C09-replay")
    f = os.path.join(work, "trace.ndjson")
    vlib.write_ndjson(f, d["replay"]["events"])
    res, info = vlib.validate_trace("Trace_ReadSeeker", TRACE_CFG, f, work)
    print(d["what"]); print("re-validation:", info)
    return 0 if info["kind"] is None else 1
