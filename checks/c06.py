"""C06 - bulk writes are complete when they report success; store failures are reported.
design level : PipelineMC.tla (ChunkStorage and Copy disciplines), all interleavings x all fault plans (<= 2 faults)
code -> spec : ChopFile / Copy / ChunkStream over a gated fault-injecting store (every single-fault plan of small
               instances, sampled double faults, duplicate chunks racing through ChunkStorage), validated by
               Trace_Pipeline.tla; the real store is read back at the end of every run.
"""
import os, json
import vlib
from checks import cli_common
from checks import pipeline_common as pc


def run(rep, tier, seed):
    work = vlib.workdir("C06")
    binp = vlib.go_build("pipe")
    thorough = tier == "thorough"
    runs = [("chop: 2 ids, <=3 jobs, 2 workers, <=2 faults", ("1, 2", 3, 2, 2, "chop", "FALSE", "")),
            ("copy: 2 ids, <=3 jobs, 2 workers, <=2 faults", ("1, 2", 3, 2, 2, "copy", "FALSE", ""))]
    if thorough:
        runs += [("chop: 2 ids, <=4 jobs, 3 workers, <=2 faults", ("1, 2", 4, 3, 2, "chop", "FALSE", "")),
                 ("chop: 3 ids, <=4 jobs, 2 workers, <=3 faults", ("1, 2, 3", 4, 2, 3, "chop", "FALSE", "")),
                 ("copy: 2 ids, <=4 jobs, 3 workers, <=2 faults", ("1, 2", 4, 3, 2, "copy", "FALSE", ""))]
    pc.design(rep, work, runs)
    pc.drive(rep, work, binp, seed, 80 if thorough else 25, "clean,fault1,fault2", "chop,copy,stream", 60 if thorough else 24)
    if thorough:
        pc.drive(rep, work, binp, seed + 500, 15, "clean,fault1,fault2", "chop,copy,stream", 40, big=True, tag="big")
    # the command glue: the real binary end to end, judged by CliOutcome.tla
    cli_common.run(rep, vlib.workdir("C06-cli"), seed, "fault,make", tier == "thorough")
    rep.rule = ("case = generated input (blocks from a 1-3 element alphabet: many duplicate chunks; repeating data through the real "
                "chunker for ChunkStream; some chop inputs that do not belong to the index; some IDs pre-stored) x 1-3 workers x "
                "fault plan (none, every single k-th store call, sampled pairs) x random/PCT schedule; distinct = different event "
                "sequence; non-trivial = >= 2 jobs and (a fault or >= 2 workers)")
    rep.trusted = ["gate scheduler; the gated store wraps a real LocalStore which is read back after every run", "SHA512/256"]
    rep.assumptions = ["pre-existing content of the target store is valid", "make/chop/cache/tar -i are covered through their library "
                       "entry points ChopFile, Copy, ChunkStream (the commands add argument handling only)"]


def replay(path):
    import json as _json
    _d = _json.load(open(path))
    _r = cli_common.replay_if_cli(_d, vlib.workdir("C06-cli-replay"))
    if _r is not None:
        return _r
    d = json.load(open(path))
    work = vlib.workdir("C06-replay")
    f = os.path.join(work, "trace.ndjson")
    vlib.write_ndjson(f, d["replay"]["events"])
    res, info = vlib.validate_trace("Trace_Pipeline", pc.TRACE_CFG, f, work)
    print(d["what"]); print("re-validation:", info)
    return 0 if info["kind"] is None else 1
