"""C18 - unpacking an archive never writes outside the destination directory.
design level : Unpack.tla: path algebra (cleaning joins, symlink resolution), the decoder + disk writer as coded with entry-name validation; TLC checks Confined
               for every archive of <= 3 entries over a hostile name alphabet (.., ../x, a/b, /abs, empty, a/../../x), kinds dir/file/symlink (to inside and
               outside) and goodbye markers; with validation switched off (the behaviour before the repair of F9) the same check fails (non-vacuity)
code -> spec : hostile archives built by an independent catar encoder - all with <= 2 entries over the alphabet, random ones with names beyond it, and
               well-formed names in hostile orders - are unpacked by the real UnTar and UnTarIndex into a sandboxed destination (as root); everything in the
               sandbox outside the destination is snapshotted (type, mode, owner, mtime, content, link target) before and after; Trace_Unpack.tla.
"""
import json, os, re
import vlib

TRACE_CFG = """SPECIFICATION TSpec
CONSTANT TraceFile = "@TRACE@"
INVARIANTS NoBad
CONSTRAINT Constr
POSTCONDITION Accepted
CHECK_DEADLOCK FALSE
"""


def run(rep, tier, seed):
    work = vlib.workdir("C18")
    binp = vlib.go_build("c18")
    thorough = tier == "thorough"
    r = vlib.tlc_design("Unpack", "Unpack.cfg", work, workers=4, timeout=3000)
    rep.add_tlc("Unpack: Confined for all archives of <= 3 entries (ASSUME)", r)
    for wcfg in ("Unpack.dev.cfg", "Unpack.names.cfg"):     # the code as found (F9) and between the repairs (F22) must escape in the model
        r2 = vlib.tlc("Unpack", wcfg, work, workers=4, timeout=3000)
        if r2.ok or "Assumption" not in r2.out:
            raise vlib.Infra("Unpack.tla with %s is expected to violate Confined (non-vacuity check)" % wcfg)
    trace = os.path.join(work, "trace.ndjson")
    p = vlib.sh("%s -seed %d -n %d -enum %d -out %s -dir %s" % (binp, seed, 20000 if thorough else 2500, 2, trace, os.path.join(work, "data")), timeout=3000, check=False)
    if p.returncode != 0:
        raise vlib.Infra("driver c18 failed:\n" + p.stdout[-3000:])
    vlib.log(p.stdout.strip().splitlines()[-1])
    events = vlib.read_ndjson(trace)
    res, info = vlib.validate_trace("Trace_Unpack", TRACE_CFG, trace, work, timeout=3400)
    rep.add_tlc("Trace_Unpack validation", res)
    if info["kind"] is None:
        rep.traces += len(events)
    else:
        m = re.search(r"<<\s*(\d+),", info.get("bad", "") or "")
        evt = events[int(m.group(1)) - 1] if m and int(m.group(1)) <= len(events) else None
        rep.violation("unpacking escaped the destination: root %s%s, entries %s via %s changed %s" % (
            (evt or {}).get("root"), " (destination absent)" if (evt or {}).get("dstabsent") else "",
            [(x["raw"], x["kind"], x["target"]) for x in (evt or {}).get("entries", [])], (evt or {}).get("via"), (evt or {}).get("outside")), {"events": [evt] if evt else [], "info": info})
    succ = 0
    for e in events:
        rep.case([[x["raw"], x["kind"], x["target"]] for x in e["entries"]] + [e["via"], e["root"]["kind"], e["root"]["target"], e["dstabsent"]], len(e["entries"]) >= 2)
        succ += 1 if e["ok"] else 0
    rep.extra["unpacks_that_succeeded"] = succ
    rep.sample(events[40:43])
    rep.rule = ("case = archive = root + sequence of entries (name, kind in {dir, file, symlink to outside / to the destination / relative}, or a goodbye marker): all "
                "sequences of <= 2 entries over 8 names x 4 kinds (+goodbye), random sequences of 1-5 entries with 14 further hostile names and targets, random "
                "sequences of 2-6 entries with well-formed names in hostile orders; each unpacked by UnTar and every third also by UnTarIndex (48-96 byte chunks); "
                "distinct = different entry sequence/path; non-trivial = >= 2 entries")
    rep.trusted = ["independent catar encoder in harness/oracle", "runs as root in a throw-away sandbox three directory levels below the work directory"]


def replay(path):
    d = json.load(open(path))
    work = vlib.workdir("C18-replay")
    f = os.path.join(work, "trace.ndjson")
    vlib.write_ndjson(f, d["replay"]["events"])
    res, info = vlib.validate_trace("Trace_Unpack", TRACE_CFG, f, work)
    print(d["what"]); print("re-validation:", info)
    return 0 if info["kind"] is None else 1
