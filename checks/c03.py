"""C03 - no chunk is delivered that does not hash to the requested ID.
design level : StoreChain.tla's NoBadDelivery over all small chains (StoreChainMC), Stores.tla (the delivery rule per corruption class)
code -> spec : every corruption class of the stored object x real backends (LocalStore compressed/uncompressed, RemoteHTTP against the real
               chunk handler, the casync protocol against the real ProtocolServer and against a raw peer) x verification on/off x
               every wrapper (cache, repairable cache, router, failover group, dedup queue, swap), read twice (cache poisoning), with
               and without an intact read before the damage; consumers (AssembleFile, IndexPos, SparseFile) over the poisoned store;
               plus the random store-chain histories of C11 (members with really corrupted LocalStore files). Trace_StoreChain.tla.
"""
import json, os
import vlib
from checks import c11


def run(rep, tier, seed):
    # the de-duplication queue's clause (a merged request must get the chunk it asked for, not another valid one) is a
    # statement about interleavings: it is decided by the C12 machinery (Dedup.tla's ResultFresh, the gate scheduler)
    from checks import c12
    c12.run(rep, tier, seed)
    # the consumer clause for the copy-on-read sparse file (overlapping readers while a load fails: error, never zeros) is
    # likewise a statement about interleavings, decided by the C10 machinery (SparseFile.tla, gated store and loader)
    from checks import c10
    c10.run(rep, tier, seed)
    c11.drive(rep, "C03", tier, seed)      # chains over corrupt members: NoBadDelivery is checked at every Get
    work = os.path.join(vlib.BUILD, "work", "C03")
    binp = vlib.go_build("c03")
    thorough = tier == "thorough"
    trace = os.path.join(work, "leaf.ndjson")
    p = vlib.sh("%s -seed %d -rounds %d -out %s -dir %s 2>/dev/null" % (binp, seed, 40 if thorough else 6, trace, os.path.join(work, "leafdata")),
                timeout=3400, check=False)
    if p.returncode != 0:
        raise vlib.Infra("driver c03 failed:\n" + p.stdout[-3000:])
    vlib.log(p.stdout.strip())
    events = vlib.read_ndjson(trace)
    res, info = vlib.validate_trace("Trace_StoreChain", c11.TRACE_CFG, trace, work, timeout=3400)
    rep.add_tlc("Trace_StoreChain validation (corruption probes)", res)
    if info["kind"] is None:
        rep.traces += len(events)
    else:
        line = info.get("line") or 0
        # the flagged record is named in bad as <<scen, l, text>>
        import re
        m = re.search(r"<<\s*(\d+),\s*(\d+),", info.get("bad", "") or "")
        evt = events[int(m.group(2)) - 1] if m and int(m.group(2)) <= len(events) else None
        rep.violation("damaged stored bytes reached a caller as good data: %s" % json.dumps(evt), {"events": [evt] if evt else [], "info": info})
    for e in events:
        rep.case(e, e.get("class") != "none")
    rep.sample(events[:3] + events[-2:])
    rep.rule += ("; corruption probes: 9 classes x {local, http, S3 (in-memory endpoint), casync protocol (real server), raw casync peer} x compressed/uncompressed x verify on/off x "
                 "7 wrappers x {damage before first read, damage after an intact read}, plus per backend: intact chunks held by the caller while the store delivers others (twice) must stay what was delivered; random bit / truncation length / garbage per instance; consumers "
                 "AssembleFile, IndexPos, SparseFile over each poisoned verifying store")
    rep.trusted += ["zstd decoding and SHA512/256 are executed, not modelled"]
    rep.assumptions += ["SFTP and GCS backends are not exercised (no server available offline); they construct chunks with the same "
                        "NewChunkFromStorage call as the HTTP backend; S3 runs against the harness's in-memory endpoint"]


def replay(path):
    d = json.load(open(path))
    work = vlib.workdir("C03-replay")
    f = os.path.join(work, "trace.ndjson")
    vlib.write_ndjson(f, d["replay"]["events"])
    res, info = vlib.validate_trace("Trace_StoreChain", c11.TRACE_CFG, f, work)
    print(d["what"]); print("re-validation:", info)
    return 0 if info["kind"] is None else 1
