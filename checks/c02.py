"""C02 - chunking is deterministic: parallel = sequential = the rolling-hash rule.
design level : ParChunker.tla, all data of a small file x all interleavings x cancellation (TLC), two families
               (all boundary sets / zero-heavy so that the null fast-forward is exercised), reachability witnesses
code -> spec : IndexFromFile under the gate scheduler on generated files; the instance (boundary positions, null
               positions) is computed by an independent implementation of the rule; Trace_ParChunker.tla validates
               every event and the returned index against Chain(0); single-stream Chunker with fragmenting readers
               is validated against the same rule (Trace_Chunker.tla)
"""
import json, os
import vlib
from checks import cli_common

TRACE_CFG = """SPECIFICATION TSpec
CONSTANT TraceFile = "@TRACE@"
INVARIANTS Correct PrefixOK PosOK ResultOK NoBad
CONSTRAINT Constr
POSTCONDITION Accepted
CHECK_DEADLOCK FALSE
"""

MC = """SPECIFICATION MCSpec
CONSTANTS CL = %d  CMn = %d  CMx = %d  NReq = %d  BndMax = %d  ZaMax = %d  ZbMin = %d  EagerMain = %s  MayCancel = %s
INVARIANTS %s
CHECK_DEADLOCK FALSE
"""
SAFE = "Correct PrefixOK PosOK Terminates UncancelledOk"


def design(rep, work, tier):
    runs = [("all data L=6 max=3 n=3 +cancel", (6, 1, 3, 3, 5, 6, 0, "TRUE", "TRUE"), ["NeverInSync", "NeverSkipped", "NeverInterrupted", "NeverOkAfterCancel"]),
            ("zero-heavy L=14 max=3 n=3", (14, 1, 3, 3, 3, 3, 13, "TRUE", "FALSE"), ["NeverNullSend", "NeverNPop"])]
    if tier == "thorough":
        # measured: four workers do not finish (L=6 max=2 n=4: > 46 M distinct states after 15 min, L=7: > 98 M after 40 min)
        runs += [("all data L=7 max=3 n=3 +cancel, aggregator interleaved", (7, 1, 3, 3, 6, 7, 0, "FALSE", "TRUE"), [])]
    for name, c, witnesses in runs:
        cfg = vlib.write_cfg(os.path.join(work, "mc.cfg"), MC % (c + (SAFE,)))
        r = vlib.tlc_design("ParChunkerMC", cfg, work, workers=14, timeout=3400, heap="24g")
        rep.add_tlc("ParChunker design: " + name, r)
        vlib.log("design %s: %d distinct states, %.0fs" % (name, r.distinct, r.wall))
        for wname in witnesses:
            cfg = vlib.write_cfg(os.path.join(work, "w.cfg"), MC % (c + (wname,)))
            r = vlib.tlc("ParChunkerMC", cfg, work, workers=8, timeout=1200)
            if r.violated != wname:
                raise vlib.Infra("vacuous design run %s: witness %s not reachable (%s)" % (name, wname, r.error))
        rep.extra.setdefault("reachability_witnesses", []).extend(witnesses)


def run(rep, tier, seed):
    work = vlib.workdir("C02")
    binp = vlib.go_build("c02")
    thorough = tier == "thorough"
    design(rep, work, tier)
    trace = os.path.join(work, "trace.ndjson")
    meta = os.path.join(work, "meta.json")
    scratch = os.path.join(work, "data")
    os.makedirs(scratch)
    n = 1500 if thorough else 150
    args = [binp, "-seed", str(seed), "-n", str(n), "-per", "4" if thorough else "3", "-out", trace, "-meta", meta, "-dir", scratch,
            "-chunker", "1500" if thorough else "200"]
    p = vlib.sh(args, timeout=3400, check=False)
    if p.returncode != 0:
        raise vlib.Infra("driver c02 failed:\n" + p.stdout[-3000:])
    vlib.log(p.stdout.strip())
    m = json.load(open(meta))
    events = vlib.read_ndjson(trace)
    scens = vlib.split_scenarios(events)
    if thorough:
        trace2 = os.path.join(work, "trace2.ndjson")
        p = vlib.sh([binp, "-seed", str(seed + 1000), "-n", "300", "-per", "3", "-big", "-out", trace2, "-meta", meta + "2", "-dir", scratch], timeout=3400, check=False)
        if p.returncode != 0:
            raise vlib.Infra("driver c02 -big failed:\n" + p.stdout[-3000:])
        vlib.log(p.stdout.strip())
    rep.extra["scheduler_steps"] = m["steps"]
    rep.extra["unannounced_blocks"] = m["unannounced"]
    rep.extra["data_shapes"] = m["shapes"]
    for h in m["hangs"]:
        rep.violation("IndexFromFile did not return (goroutines: %s)" % h["parked"], {"events": scens[h["scen"] - 1], "stacks": h["stacks"][:20000]})
    files = [trace] + ([os.path.join(work, "trace2.ndjson")] if thorough else [])
    for tf in files:
        evs = events if tf == trace else vlib.read_ndjson(tf)
        scs = scens if tf == trace else vlib.split_scenarios(evs)
        res, info = vlib.validate_trace("Trace_ParChunker", TRACE_CFG, tf, work, timeout=3400)
        rep.add_tlc("Trace_ParChunker validation", res)
        if info["kind"] is None:
            rep.traces += len(scs)
        else:
            scn = info.get("scen")
            sc = scs[scn - 1] if scn and scn <= len(scs) else []
            if info["kind"] == "invariant":
                rep.violation("trace of the real IndexFromFile violates %s in scenario %s (%s); instance: %s" % (
                    info["invariant"], scn, info.get("bad", ""), {k: v for k, v in (sc[0] if sc else {}).items() if k not in ("bnd", "nulls")}),
                    {"events": sc, "info": info})
            else:
                line = info.get("line", 0)
                evt = evs[line - 1] if 0 < line <= len(evs) else None
                rep.violation("trace of the real IndexFromFile is not a behaviour of ParChunker.tla: event %s of scenario %s has no "
                              "matching enabled action" % (evt, scn), {"events": sc, "info": info})
            rep.traces += max(0, (scn or 1) - 1)
        for sc in scs:
            head = sc[0]
            nontriv = head.get("NW", 1) >= 2 and any(e.get("ev") == "pc.pop" and e.get("ok") for e in sc)
            rep.case([[e.get("g"), e.get("ev"), e.get("start"), e.get("size")] for e in sc] + [head.get("L"), head.get("Mx")], nontriv)
        for sc in scs[:2]:
            rep.sample({"instance": {k: v for k, v in sc[0].items() if k not in ("bnd", "nulls")}, "bnd": sc[0]["bnd"][:20], "events": sc[1:30]})
    # the command glue: the real binary end to end, judged by CliOutcome.tla
    cli_common.run(rep, vlib.workdir("C02-cli"), seed, "make", tier == "thorough")
    rep.rule = ("case = generated file (random / zero / low-entropy / repetitive / zero runs at any alignment; sizes 0.., around multiples "
                "of min, max and size/n) x (min,avg,max) with 48<=min<=avg<=max x n in 1..6 (1..16 thorough) x random or PCT schedule, "
                "one schedule per instance with cancellation at a random event; distinct = different event sequence; non-trivial = "
                ">= 2 workers and at least one successful receive from a neighbour's bucket")
    rep.trusted = ["independent implementation of the buzhash rule (harness/oracle), cross-checked against testdata/chunker.index",
                   "SHA512/256 (crypto/sha512) for chunk IDs", "gate scheduler serialisation"]
    rep.assumptions = ["file reads do not fail", "the 48-byte window hash is collision-free w.r.t. nothing: boundaries are taken as data"]


def replay(path):
    import json as _json
    _d = _json.load(open(path))
    _r = cli_common.replay_if_cli(_d, vlib.workdir("C02-cli-replay"))
    if _r is not None:
        return _r
    d = json.load(open(path))
    work = vlib.workdir("C02-replay")
    f = os.path.join(work, "trace.ndjson")
    vlib.write_ndjson(f, d["replay"]["events"])
    res, info = vlib.validate_trace("Trace_ParChunker", TRACE_CFG, f, work)
    print(d["what"])
    print("re-validation:", info)
    return 0 if info["kind"] is None else 1
