"""C17 - verify-index accepts a file iff it matches the index.
design level : VerifyIndex.tla: the batch arithmetic partitions 0..K-1 for every K <= KMax, n <= 64 (TLC evaluates the ASSUMEs);
               PipelineMC.tla for the pipeline skeleton
code -> spec : the real VerifyIndex on generated blobs with one altered byte in a random chunk, swapped equal-size chunks,
               truncation, extension, for n in {1,2,3,4,10,64} (1..64 thorough); the verdict is compared with the
               specification's (VerdictOK) and the fed batches must cover every index entry (OkImpliesAllDone).
"""
import os, json
import vlib
from checks import cli_common
from checks import pipeline_common as pc


def run(rep, tier, seed):
    work = vlib.workdir("C17")
    binp = vlib.go_build("pipe")
    thorough = tier == "thorough"
    cfg = vlib.write_cfg(os.path.join(work, "vi.cfg"), "SPECIFICATION Spec\nCONSTANTS KMax = %d  NMax = 64\n" % (700 if thorough else 120))
    r = vlib.tlc_design("VerifyIndex", cfg, work, workers=2, timeout=3400)
    rep.add_tlc("VerifyIndex batch arithmetic (ASSUME BatchesPartition for all K, n)", r)
    rep.extra["batch_pairs_checked"] = (701 if thorough else 121) * 64
    pc.design(rep, work, [("verify skeleton: 2 ids, <=3 jobs, 2 workers, cancel", ("1, 2", 3, 2, 0, "chop", "TRUE", ""))], witnesses=False)
    pc.drive(rep, work, binp, seed, 2500 if thorough else 400, "clean", "verify", 2)
    # the verdict must also hold when the run is cancelled: success only if every chunk was verified
    pc.drive(rep, work, binp, seed + 5, 200 if thorough else 40, "clean,cancel", "verify", 30, tag="cancel")
    if thorough:
        pc.drive(rep, work, binp, seed + 77, 300, "clean", "verify", 2, big=True, tag="big")
    # the command glue: the real binary end to end, judged by CliOutcome.tla
    cli_common.run(rep, vlib.workdir("C17-cli"), seed, "verify", tier == "thorough")
    # the verify-index command under SIGINT / SIGTERM on a file that differs in its last byte: never exit 0 (CancelOutcome.tla)
    b7 = vlib.go_build("c07")
    tr7 = os.path.join(work, "verifysig.ndjson")
    p7 = vlib.sh([b7, "-mode", "verifysig", "-seed", str(seed)] + (["-thorough"] if tier == "thorough" else []) + ["-out", tr7, "-dir", os.path.join(work, "c07data"), "-desync", vlib.build_desync(tags="")],
                 timeout=3000, check=False)
    if p7.returncode != 0:
        raise vlib.Infra("driver c07 (verifysig) failed:\n" + p7.stdout[-2000:])
    ev7 = vlib.read_ndjson(tr7)
    res7, info7 = vlib.validate_trace("Trace_CancelOutcome", open(os.path.join(vlib.SPEC, "cfg", "Trace_CancelOutcome.cfg")).read(), tr7, work, timeout=1800)
    rep.add_tlc("Trace_CancelOutcome validation (verify-index under signals)", res7)
    if info7["kind"] is None:
        rep.traces += len(ev7)
    else:
        ln = info7.get("line")
        evt = ev7[ln - 1] if ln and ln <= len(ev7) else None
        rep.violation("desync verify-index: %s | %s" % ((info7.get("bad") or "")[:300], json.dumps(evt)[:400]), {"events": [evt] if evt else [], "info": info7, "trace_spec": "Trace_CancelOutcome"})
    rep.rule = ("case = blob of K chunks (K in 0..44, 0..699 thorough; equal or varied sizes) x n in {1,2,3,4,10,64} (1..64 thorough) x damage in "
                "{none, one altered byte in a random chunk, two equal-size chunks swapped, truncated, extended} x 2 schedules; "
                "distinct = different event sequence/instance; non-trivial = K >= 2")
    rep.trusted = ["SHA512/256 (crypto/sha512) decides which ranges of the file on disk match the index"]


def replay(path):
    import json as _json
    _d = _json.load(open(path))
    _r = cli_common.replay_if_cli(_d, vlib.workdir("C17-cli-replay"))
    if _r is not None:
        return _r
    d = json.load(open(path))
    work = vlib.workdir("C17-replay")
    f = os.path.join(work, "trace.ndjson")
    vlib.write_ndjson(f, d["replay"]["events"])
    res, info = vlib.validate_trace("Trace_Pipeline", pc.TRACE_CFG, f, work)
    print(d["what"]); print("re-validation:", info)
    return 0 if info["kind"] is None else 1
