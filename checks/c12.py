"""C12 - request de-duplication is safe under every interleaving.
design level : Dedup.tla exhaustively (TLC)
spec -> code : TLC -simulate behaviours of DedupSim.tla replayed on the real WriteDedupQueue through the gate scheduler
code -> spec : traces of the real code under random / PCT schedules validated by Trace_Dedup.tla
"""
import json, os, re
import vlib
from checks import cli_common

TRACE_CFG = """SPECIFICATION TSpec
CONSTANT TraceFile = "@TRACE@"
INVARIANTS AtMostOneUp ResultFresh ReadSeesWrite NoBad
CONSTRAINT Constr
POSTCONDITION Accepted
CHECK_DEADLOCK FALSE
"""

DESIGN_CFG = """SPECIFICATION Spec
CONSTANTS
  Callers = {%s}
  Ids = {%s}
  Kinds = {%s}
  MaxCalls = %d
  WriteQueue = TRUE
INVARIANTS TypeOK AtMostOneUp ResultFresh ReadSeesWrite NoOrphanWait NoStuck
%s
CHECK_DEADLOCK FALSE
"""


def behaviours(work, num, seed, depth=200):
    """TLC -simulate behaviours of DedupSim -> list of scenarios for the driver."""
    r = vlib.tlc("DedupSim", "DedupSim.cfg", work, workers=1, timeout=600,
                 simulate="num=%d" % num, extra=["-depth", str(depth), "-seed", str(seed)])
    if r.violated or r.error:
        raise vlib.Infra("DedupSim simulation failed: %s %s\n%s" % (r.violated, r.error, r.out[-2000:]))
    scs = []
    for part in r.out.split('"BEHAVIOUR"')[1:]:
        end = part.find(">> >>")
        steps = re.findall(r'<<"(c\d+)", "([BSU])"(?:, "(\w+)")?(?:, (\d+))?>>', part[:end + 5] if end >= 0 else part)
        calls, order, outs, first = {}, [], [], set()
        for c, t, a, i in steps:
            if t == "B":
                calls.setdefault(c, []).append({"kind": a, "id": int(i), "via": "write"})
                if c in first:
                    order.append(c)
                first.add(c)
            else:
                order.append(c)
                if t == "U":
                    outs.append(a)
        scs.append({"calls": calls, "order": order, "outs": outs})
    return scs, r


def nontrivial(sc):
    return any(e.get("inflight") is True for e in sc)


def canon(sc):
    return [[e.get("g"), e.get("ev"), e.get("kind"), e.get("id"), e.get("out"), e.get("res"), e.get("inflight")] for e in sc]


def run(rep, tier, seed):
    work = vlib.workdir("C12")
    binp = vlib.go_build("c12")
    thorough = tier == "thorough"
    # ---- design level
    quick_runs = [("3 callers x 1 call, get+store, 1 id", '"c1","c2","c3"', "1", '"get","store"', 1, "PROPERTY AllReturn"),
                  ("2 callers x 1 call, get+has+store, 2 ids", '"c1","c2"', "1,2", '"get","has","store"', 1, "PROPERTY AllReturn")]
    runs = quick_runs
    if thorough:
        runs = quick_runs + [
            ("2 callers x 2 calls, get+store, 1 id", '"c1","c2"', "1", '"get","store"', 2, "PROPERTY AllReturn"),
            ("3 callers x 1 call, get+has+store, 1 id", '"c1","c2","c3"', "1", '"get","has","store"', 1, "PROPERTY AllReturn"),
            ("3 callers x 1 call, get+store, 2 ids", '"c1","c2","c3"', "1,2", '"get","store"', 1, "PROPERTY AllReturn")]
    for name, cs, ids, kinds, mc, live in runs:
        cfg = vlib.write_cfg(os.path.join(work, "design.cfg"), DESIGN_CFG % (cs, ids, kinds, mc, live))
        r = vlib.tlc_design("Dedup", cfg, work, workers=12, coverage=(mc == 1 and cs.count("c") == 2), timeout=3000,
                            required_actions=None)
        rep.add_tlc("Dedup design: " + name, r)
        vlib.log("design %s: %d distinct states, %.0fs" % (name, r.distinct, r.wall))
    # ---- spec -> code: behaviours to replay
    nb = 1500 if thorough else 150
    scs, r = behaviours(work, nb, seed)
    sfile = os.path.join(work, "behaviours.ndjson")
    vlib.write_ndjson(sfile, scs)
    # ---- run the real code
    trace = os.path.join(work, "trace.ndjson")
    meta = os.path.join(work, "meta.json")
    n = 3000 if thorough else 300
    p = vlib.sh([binp, "-seed", str(seed), "-n", str(n), "-callers", "6" if thorough else "4", "-calls", "3" if thorough else "2",
                 "-ids", "2", "-out", trace, "-meta", meta, "-scenarios", sfile], timeout=3000, check=False)
    if p.returncode != 0:
        raise vlib.Infra("driver c12 failed:\n" + p.stdout[-3000:])
    vlib.log(p.stdout.strip())
    m = json.load(open(meta))
    events = vlib.read_ndjson(trace)
    scens = vlib.split_scenarios(events)
    rep.extra["replayed_tlc_behaviours"] = m["replayed"]
    rep.extra["replay_divergences"] = m["diverged"]
    rep.extra["scheduler_steps"] = m["steps"]
    rep.extra["unannounced_blocks"] = m["unannounced"]
    # hangs: clause (1) of the property, observed on the real code
    for h in m["hangs"]:
        # confirm by running the same scenario again with its recorded order
        sc = scens[h["scen"] - 1]
        rep.violation("caller never returned (lost wake-up / deadlock); goroutines: %s" % h["parked"],
                      {"scenario": h["scenario"], "events": sc, "stacks": h["stacks"][:20000]})
    # ---- code -> spec: validate the whole file
    res, info = vlib.validate_trace("Trace_Dedup", TRACE_CFG, trace, work, timeout=3000)
    rep.add_tlc("Trace_Dedup validation", res)
    if info["kind"] is None:
        rep.traces += len(scens) - len(m["hangs"])
    else:
        scn = info.get("scen")
        sc = scens[scn - 1] if scn and scn <= len(scens) else []
        if info["kind"] == "invariant":
            rep.violation("trace of the real code violates %s of Dedup.tla in scenario %s (%s)" % (
                info["invariant"], scn, info.get("bad", "")), {"events": sc, "info": info})
        else:
            line = info.get("line", 0)
            evt = events[line - 1] if 0 < line <= len(events) else None
            rep.violation("trace of the real code is not a behaviour of Dedup.tla: event %s of scenario %s has no "
                          "matching enabled action (%s)" % (evt, scn, info.get("detail", "")[:300]), {"events": sc, "info": info})
        # count the scenarios before the rejected one as validated
        rep.traces += max(0, (scn or 1) - 1)
    for sc in scens:
        rep.case(canon(sc), nontrivial(sc))
    for sc in scens[:2] + scens[m["replayed"]:m["replayed"] + 2]:
        rep.sample([{k: v for k, v in e.items()} for e in sc[:40]])
    # the chunk server (the command that puts a de-duplication queue in front of its stores): overlapping requests for one chunk
    # reach the upstream once, also after SIGHUP reloads of --store-file
    cli_common.run(rep, vlib.workdir("C12-cli"), seed, "server", tier == "thorough", min_records=3)
    rep.rule = ("scenario = 2..k callers x 1..m calls (get/has/store over 2 ids, mostly the same id) run on the real "
                "WriteDedupQueue over a gated fake upstream, schedule from a TLC -simulate behaviour (replay), uniformly "
                "random or PCT; distinct = different event sequence; non-trivial = at least one call found a request in flight")
    rep.trusted = ["gate scheduler serialises goroutines between hook points; events are logged at arrival",
                   "chunk identity = SHA512/256 of the chunk data (executed, not modelled)"]
    rep.assumptions = ["upstream calls eventually return (the fake store always does)"]


def replay(path):
    import json as _json
    _r = cli_common.replay_if_cli(_json.load(open(path)), vlib.workdir("C12-cli-replay"))
    if _r is not None:
        return _r
    d = json.load(open(path))
    ev = d["replay"].get("events")
    work = vlib.workdir("C12-replay")
    f = os.path.join(work, "trace.ndjson")
    vlib.write_ndjson(f, ev)
    res, info = vlib.validate_trace("Trace_Dedup", TRACE_CFG, f, work)
    print(d["what"])
    print("re-validation:", info)
    return 0 if info["kind"] is None else 1
