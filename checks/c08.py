"""C08 - process death never exposes a partial chunk or a partial extract target.
design level : ChunkWrite.tla (writers x CreateTmp/Write(any byte count)/Close/Rename/Fail, Crash in any state, Prune of live temporary files): TLC checks
               NoPartial, OnlyByRename, DoneMeansStored for 3 writers (two of the same chunk); the variants "shared temporary name", "write under the final
               name", "rename before writing" must violate NoPartial. ExtractCrash.tla (temp-file and in-place extract, death anywhere, re-run): DestIntact,
               RefetchBound, RerunCompletes; the variants "remove destination first", "assemble into the destination", "no comparison on re-run" must fail.
code -> spec : (1) concurrent real StoreChunk calls under the gate scheduler, directory snapshot at every step = what a death there leaves; (2) a child that
               stores a chunk and SIGKILLs itself at step k or hits RLIMIT_FSIZE = k (write really cut short at byte k); (3) the real `desync chop` and
               `desync extract` under strace -f: the file-system calls on the store / destination are replayed on a model directory, every prefix is a death
               point; (4) the real binary killed on entry to the k-th call of each syscall group (strace fault injection), every k; (5) `desync extract -k`
               killed at the k-th chunk request of a counting HTTP store and re-run. Trace_ChunkWrite.tla judges all records.
"""
import json, os, re
import vlib

TRACE_CFG = open(os.path.join(vlib.SPEC, "cfg", "Trace_ChunkWrite.cfg")).read()

DESIGN = [("ChunkWriteMC", "ChunkWrite.tmp.cfg", True), ("ChunkWriteMC", "ChunkWrite.shared.cfg", False), ("ChunkWriteMC", "ChunkWrite.direct.cfg", False),
          ("ChunkWriteMC", "ChunkWrite.renamefirst.cfg", False), ("ChunkWriteMC", "ChunkWrite.reach.cfg", False),
          ("ExtractCrashMC", "ExtractCrash.tmpfile.cfg", True), ("ExtractCrashMC", "ExtractCrash.inplace.cfg", True), ("ExtractCrashMC", "ExtractCrash.removefirst.cfg", False),
          ("ExtractCrashMC", "ExtractCrash.direct.cfg", False), ("ExtractCrashMC", "ExtractCrash.nocompare.cfg", False), ("ExtractCrashMC", "ExtractCrash.reach.cfg", False)]


def run(rep, tier, seed):
    work = vlib.workdir("C08")
    binp = vlib.go_build("c08")
    desync = vlib.build_desync(tags="")
    thorough = tier == "thorough"
    for mod, cfg, must_pass in DESIGN:
        if must_pass:
            r = vlib.tlc_design(mod, cfg, work, workers=8, timeout=1500)
            rep.add_tlc("%s/%s: invariants hold" % (mod, cfg), r)
        else:
            r = vlib.tlc(mod, cfg, work, workers=4, timeout=1500)
            if r.ok or not r.violated:
                raise vlib.Infra("%s/%s is a variant/witness that must violate its invariant, but TLC said: ok=%s error=%s" % (mod, cfg, r.ok, r.error))
    trace = os.path.join(work, "trace.ndjson")
    p = vlib.sh("%s -mode all -seed %d -n %d %s -out %s -dir %s -desync %s" % (binp, seed, 1500 if thorough else 200, "-thorough" if thorough else "", trace,
                                                                               os.path.join(work, "data"), desync), timeout=3300, check=False)
    if p.returncode != 0:
        raise vlib.Infra("driver c08 failed:\n" + p.stdout[-3000:])
    vlib.log(p.stdout.strip().splitlines()[-1])
    events = vlib.read_ndjson(trace)
    kinds = {}
    for e in events:
        kinds[e["ev"]] = kinds.get(e["ev"], 0) + 1
    # the observation machinery must have been alive: deaths must have happened
    died = sum(1 for e in events if e["ev"] == "kill" and e["died"]) + sum(1 for e in events if e["ev"] == "xkill" and not e["survived"]) \
        + sum(1 for e in events if e["ev"] == "inplace" and e["killed"])
    if died < 40 or kinds.get("sys", 0) < 100 or kinds.get("xsys", 0) < 50 or kinds.get("ls.tmp", 0) < 100:
        raise vlib.Infra("the death/observation machinery is not working (ptrace/strace available?): %s, deaths=%d" % (kinds, died))
    res, info = vlib.validate_trace("Trace_ChunkWrite", TRACE_CFG, trace, work, timeout=3400)
    rep.add_tlc("Trace_ChunkWrite validation", res)
    if info["kind"] is None:
        rep.traces += kinds.get("reset", 0) + kinds.get("kill", 0) + kinds.get("xkill", 0) + kinds.get("inplace", 0)
    else:
        ln = info.get("line")
        evt = events[ln - 1] if ln and ln <= len(events) else None
        # context: the scenario's records up to the failing one
        ctx = []
        if evt is not None and evt["ev"] not in ("kill", "xkill", "inplace"):
            i = ln - 1
            while i > 0 and events[i]["ev"] != "reset":
                i -= 1
            ctx = events[i:ln]
        else:
            ctx = [evt] if evt else []
        rep.violation("%s | at record %s" % ((info.get("bad") or info.get("detail") or "trace rejected")[:400], json.dumps(evt)[:500] if evt else "?"),
                      {"events": ctx, "info": info})
    for e in events:
        if e["ev"] == "reset":
            rep.case(["scenario", e["kind"], e.get("cmd"), e.get("uncompressed"), e["scen"]], True)
        elif e["ev"] == "kill":
            rep.case(["kill", e["how"], e["k"], e["uncompressed"], e["pre"]], e["died"])
        elif e["ev"] == "xkill":
            rep.case(["xkill", e["sys"], e["n"], e["k"], e.get("absent"), e.get("longname")], not e["survived"])
        elif e["ev"] == "inplace":
            rep.case(["inplace", e["n"], e["start"], e["k"]], e["killed"])
    rep.extra["records"] = kinds
    rep.extra["process_deaths_observed"] = died
    rep.sample([e for e in events if e["ev"] in ("kill", "xkill", "inplace")][:3])
    rep.rule = ("case = one death experiment: a scheduler scenario (2-3 concurrent writers, two of the same chunk, optional pruner; every step's directory), a child "
                "killed at step k / limited to k bytes (every k in the thorough tier, stride 37 quick; compressed and uncompressed; with and without the chunk present "
                "before), a straced CLI run (every prefix), a CLI run killed at the k-th call of a syscall group per thread (all k until the run survives; extract -n 1/4, "
                "chop -n 1/4), an in-place extract killed at the k-th chunk request (k in 1,2,3,5,8,12,n/2,n-1 quick; all thorough) x workers 1/3 x destination absent/old. "
                "non-trivial = the process really died")
    rep.trusted = ["strace (syscall order as printed; -y path annotation)", "chunk validity is decided by an independent decoder (klauspost zstd + SHA512/256) in the harness"]


def replay(path):
    d = json.load(open(path))
    work = vlib.workdir("C08-replay")
    f = os.path.join(work, "trace.ndjson")
    vlib.write_ndjson(f, d["replay"]["events"])
    res, info = vlib.validate_trace("Trace_ChunkWrite", TRACE_CFG, f, work)
    print(d["what"]); print("re-validation:", info)
    return 0 if info["kind"] is None else 1
