// Package sched is the gate scheduler of the conformance harness.
//
// The code under test calls verifYield(point, kv...) (build tag verif) which the harness routes to
// (*Sched).Hook. Every call is an *arrival*: the event is appended to the log under the scheduler's
// mutex at arrival time and describes the code segment the goroutine has just executed. Depending on
// the kind of the point the goroutine then
//
//	Gate   parks until the scheduler grants it the token (exactly one granted goroutine runs at a time),
//	Block  announces that it is about to execute a blocking operation (channel receive, wait) and goes
//	       on without the token; its next arrival parks it again,
//	Log    just continues (points inside critical sections, ungated feeder goroutines),
//	Exit   announces that the goroutine ends.
//
// Because a granted goroutine is the only one running between its grant and its next arrival, the
// order of the log is the real order of the segments. A goroutine that blocks without announcing it is
// detected by a watchdog and demoted to "blocked" (counted in Stats.Unannounced) so that the run goes
// on; a state in which nothing is parked, nothing is running and the scenario has not finished for
// longer than HangAfter is reported as a hang together with all goroutine stacks.
package sched

import (
	"bytes"
	"fmt"
	"math/rand"
	"runtime"
	"strconv"
	"strings"
	"sync"
	"time"
)

type Kind int

const (
	Gate Kind = iota
	Block
	Log
	Exit
)

type Event struct {
	Seq   int
	G     string
	Point string
	KV    []interface{}
	// Holder: the arriving goroutine held the token (it was granted and nobody else of the gated goroutines
	// ran since), so everything that changed since the previous holder arrival is its doing.
	Holder bool
}

// Get returns the value logged under key k (nil if absent).
func (e Event) Get(k string) interface{} {
	for i := 0; i+1 < len(e.KV); i += 2 {
		if s, ok := e.KV[i].(string); ok && s == k {
			return e.KV[i+1]
		}
	}
	return nil
}

type gstate int

const (
	gFree gstate = iota
	gRunning
	gParked
	gBlocked
	gGone
)

type G struct {
	id    int64
	Name  string
	state gstate
	At    string // point the goroutine is parked at
	ch    chan struct{}
	prio  int
}

type Policy interface {
	// Pick chooses the index of the goroutine to run next among parked (never empty).
	// It may return -1 to ask the scheduler to wait for more arrivals (replay of a prescribed order);
	// after WaitFor has elapsed the scheduler calls Pick again with timedOut = true and the policy must choose.
	Pick(parked []*G, step int, timedOut bool) int
}

type Stats struct {
	Steps       int
	Unannounced int
	Diverged    int // replay: prescribed goroutine was not available
}

type Sched struct {
	mu      sync.Mutex
	cond    *sync.Cond
	gs      map[int64]*G
	pending map[int64]string // names registered before first arrival
	parked  []*G
	running int
	lastArr time.Time
	log     []Event
	kinds   map[string]Kind
	NameFn  func(point string, kv []interface{}) string
	policy  Policy
	stopped bool
	free    bool // record-only mode: nobody parks
	Stats   Stats
	// OnEvent is called under the mutex at every arrival (cancellation at the k-th event etc.); the events it
	// returns are appended to the log right after e (attributed to the harness).
	OnEvent func(e Event) []Event
	// StoreSteps: also gate and log the "ls.*" points (steps of LocalStore.StoreChunk); off for all drivers but c08
	StoreSteps bool
	// FailoverSteps: also gate the "fo.*" points (a failover group switched its active store); off for all drivers but c11
	FailoverSteps bool

	Settle    time.Duration
	Watchdog  time.Duration
	HangAfter time.Duration
	WaitFor   time.Duration
}

func New(policy Policy, kinds map[string]Kind) *Sched {
	s := &Sched{gs: map[int64]*G{}, pending: map[int64]string{}, kinds: kinds, policy: policy,
		Settle: 30 * time.Microsecond, Watchdog: 100 * time.Millisecond, HangAfter: 3 * time.Second,
		WaitFor: 20 * time.Millisecond}
	s.cond = sync.NewCond(&s.mu)
	if policy == nil {
		s.free = true
	}
	return s
}

func goid() int64 {
	var buf [64]byte
	n := runtime.Stack(buf[:], false)
	// "goroutine 123 [running]:..."
	b := buf[10:n]
	i := bytes.IndexByte(b, ' ')
	id, _ := strconv.ParseInt(string(b[:i]), 10, 64)
	return id
}

// Name registers a name for the calling goroutine (used for all its events).
func (s *Sched) Name(name string) {
	id := goid()
	s.mu.Lock()
	if g, ok := s.gs[id]; ok {
		g.Name = name
	} else {
		s.pending[id] = name
	}
	s.mu.Unlock()
}

func (s *Sched) kindOf(point string) Kind {
	if k, ok := s.kinds[point]; ok {
		return k
	}
	return Gate
}

// Hook is the function installed as desync.VerifHook; harness fakes call it directly as well.
func (s *Sched) Hook(point string, kv ...interface{}) {
	// hook families a driver did not ask for (the steps inside LocalStore.StoreChunk) are not events of its scenario
	if !s.StoreSteps && strings.HasPrefix(point, "ls.") {
		return
	}
	if !s.FailoverSteps && strings.HasPrefix(point, "fo.") {
		return
	}
	id := goid()
	kind := s.kindOf(point)
	s.mu.Lock()
	g, ok := s.gs[id]
	if !ok {
		g = &G{id: id, ch: make(chan struct{}, 1), state: gFree}
		if n, ok := s.pending[id]; ok {
			g.Name = n
			delete(s.pending, id)
		} else if s.NameFn != nil {
			g.Name = s.NameFn(point, kv)
		}
		if g.Name == "" {
			g.Name = "g" + strconv.FormatInt(id, 10)
		}
		s.gs[id] = g
	}
	ev := Event{Seq: len(s.log), G: g.Name, Point: point, KV: kv, Holder: g.state == gRunning}
	s.log = append(s.log, ev)
	s.lastArr = time.Now()
	if s.OnEvent != nil {
		for _, x := range s.OnEvent(ev) {
			x.Seq = len(s.log)
			s.log = append(s.log, x)
		}
	}
	if s.free || s.stopped {
		if kind == Exit {
			g.state = gGone
		}
		s.mu.Unlock()
		return
	}
	was := g.state
	switch kind {
	case Log:
		s.mu.Unlock()
		return
	case Block:
		if was == gRunning {
			s.running--
		}
		g.state = gBlocked
		s.cond.Broadcast()
		s.mu.Unlock()
		return
	case Exit:
		if was == gRunning {
			s.running--
		}
		g.state = gGone
		s.cond.Broadcast()
		s.mu.Unlock()
		return
	}
	// Gate
	if was == gRunning {
		s.running--
	}
	g.state = gParked
	g.At = point
	s.parked = append(s.parked, g)
	s.cond.Broadcast()
	s.mu.Unlock()
	<-g.ch
}

// Leave tells the scheduler that the calling goroutine ends or leaves the code under test without a hook
// (used by harness-owned caller goroutines after the call returned).
func (s *Sched) Leave() {
	id := goid()
	s.mu.Lock()
	if g, ok := s.gs[id]; ok {
		if g.state == gRunning {
			s.running--
		}
		g.state = gGone
		s.cond.Broadcast()
	}
	s.mu.Unlock()
}

// WaitGone waits until every goroutine the scheduler has seen has announced its end (Exit point or Leave),
// so that stragglers of one scenario cannot call into the next scenario's scheduler.
func (s *Sched) WaitGone(timeout time.Duration) bool {
	deadline := time.Now().Add(timeout)
	for {
		s.mu.Lock()
		n := 0
		for _, g := range s.gs {
			// a goroutine that announced a blocking operation and was never seen again after the scenario's
			// body returned is parked for good (e.g. workers left on a channel nobody closes)
			if g.state != gGone && g.state != gBlocked {
				n++
			}
		}
		s.mu.Unlock()
		if n == 0 {
			return true
		}
		if time.Now().After(deadline) {
			return false
		}
		time.Sleep(100 * time.Microsecond)
	}
}

type HangError struct {
	Stacks string
	Parked []string
}

func (h *HangError) Error() string { return "hang: no goroutine of the scenario can make progress" }

// Run executes body (which starts the scenario and returns when it is complete) under the scheduler and
// returns the recorded log. A *HangError is returned if the scenario stops making progress.
func (s *Sched) Run(body func()) ([]Event, error) {
	done := make(chan struct{})
	go func() {
		defer close(done)
		body()
	}()
	var hang error
	if s.free {
		select {
		case <-done:
		case <-time.After(s.HangAfter * 4):
			hang = s.hangError()
		}
	} else {
		hang = s.loop(done)
	}
	s.mu.Lock()
	s.stopped = true
	for _, g := range s.parked {
		g.state = gFree
		g.ch <- struct{}{}
	}
	s.parked = nil
	log := append([]Event(nil), s.log...)
	s.mu.Unlock()
	if hang == nil {
		<-done
	}
	return log, hang
}

func (s *Sched) hangError() error {
	buf := make([]byte, 1<<20)
	n := runtime.Stack(buf, true)
	h := &HangError{Stacks: string(buf[:n])}
	s.mu.Lock()
	for _, g := range s.gs {
		h.Parked = append(h.Parked, fmt.Sprintf("%s:%d@%s", g.Name, g.state, g.At))
	}
	s.mu.Unlock()
	return h
}

func (s *Sched) loop(done chan struct{}) error {
	tick := time.NewTicker(200 * time.Microsecond)
	defer tick.Stop()
	wake := make(chan struct{}, 1)
	go func() { // turn cond broadcasts into channel wake-ups
		s.mu.Lock()
		for !s.stopped {
			s.cond.Wait()
			select {
			case wake <- struct{}{}:
			default:
			}
		}
		s.mu.Unlock()
	}()
	defer func() { s.mu.Lock(); s.stopped = true; s.cond.Broadcast(); s.mu.Unlock() }()
	idleSince := time.Now()
	var waitingSince time.Time
	for {
		select {
		case <-done:
			return nil
		case <-wake:
		case <-tick.C:
		}
		s.mu.Lock()
		now := time.Now()
		if s.running > 0 {
			if now.Sub(s.lastArr) > s.Watchdog {
				// the granted goroutine blocked (or ended) without telling us
				for _, g := range s.gs {
					if g.state == gRunning {
						g.state = gBlocked
						s.running--
						s.Stats.Unannounced++
					}
				}
			} else {
				idleSince = now
				s.mu.Unlock()
				continue
			}
		}
		if len(s.parked) == 0 {
			if now.Sub(idleSince) > s.HangAfter && now.Sub(s.lastArr) > s.HangAfter {
				s.mu.Unlock()
				select {
				case <-done:
					return nil
				default:
				}
				return s.hangError()
			}
			s.mu.Unlock()
			continue
		}
		idleSince = now
		if now.Sub(s.lastArr) < s.Settle { // let goroutines that were just woken arrive
			s.mu.Unlock()
			continue
		}
		timedOut := !waitingSince.IsZero() && now.Sub(waitingSince) > s.WaitFor
		i := s.policy.Pick(s.parked, s.Stats.Steps, timedOut)
		if i < 0 {
			if waitingSince.IsZero() {
				waitingSince = now
			}
			s.mu.Unlock()
			continue
		}
		if timedOut {
			s.Stats.Diverged++
		}
		waitingSince = time.Time{}
		g := s.parked[i]
		s.parked = append(s.parked[:i], s.parked[i+1:]...)
		g.state = gRunning
		s.running++
		s.lastArr = now
		s.Stats.Steps++
		g.ch <- struct{}{}
		s.mu.Unlock()
	}
}

// ---- policies ----

// Random picks uniformly.
type Random struct{ R *rand.Rand }

func (p *Random) Pick(parked []*G, step int, _ bool) int { return p.R.Intn(len(parked)) }

// PCT is a priority schedule with change points: every goroutine gets a random priority when first
// seen; the highest runs; at each change point the goroutine that would run is demoted below all others.
type PCT struct {
	R      *rand.Rand
	Change map[int]bool
	low    int
	seen   map[*G]bool
}

func NewPCT(r *rand.Rand, depth, horizon int) *PCT {
	p := &PCT{R: r, Change: map[int]bool{}, seen: map[*G]bool{}}
	for i := 0; i < depth; i++ {
		p.Change[r.Intn(horizon)] = true
	}
	return p
}

func (p *PCT) Pick(parked []*G, step int, _ bool) int {
	best := -1
	for i, g := range parked {
		if !p.seen[g] {
			p.seen[g] = true
			g.prio = 1000 + p.R.Intn(1000000)
		}
		if best < 0 || g.prio > parked[best].prio {
			best = i
		}
	}
	if p.Change[step] {
		p.low--
		parked[best].prio = p.low
		best = -1
		for i, g := range parked {
			if best < 0 || g.prio > parked[best].prio {
				best = i
			}
		}
	}
	return best
}

// Replay follows a prescribed sequence of goroutine names; when it is exhausted (or the prescribed
// goroutine does not show up in time) it falls back to Then.
type Replay struct {
	Order []string
	pos   int
	Then  Policy
}

func (p *Replay) Pick(parked []*G, step int, timedOut bool) int {
	for p.pos < len(p.Order) {
		want := p.Order[p.pos]
		for i, g := range parked {
			if g.Name == want {
				p.pos++
				return i
			}
		}
		if !timedOut {
			return -1
		}
		p.pos++ // skip the unavailable one
		timedOut = false
	}
	return p.Then.Pick(parked, step, false)
}
