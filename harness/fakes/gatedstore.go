// Package fakes holds the harness's stand-ins for the environment of the code under test.
package fakes

import (
	"errors"
	"sync"

	"github.com/folbricht/desync"
)

// GatedStore wraps a real WriteStore. Every call arrives twice at the scheduler (enter / exit) and fails
// without touching the wrapped store when the fault plan names its ordinal (1-based, counted over all calls).
type GatedStore struct {
	Inner desync.WriteStore
	Hook  func(point string, kv ...interface{})
	mu    sync.Mutex
	n     int
	Fail  map[int]bool
	Calls int
	Fails int
}

var ErrInjected = errors.New("injected store failure")

func (g *GatedStore) next() bool {
	g.mu.Lock()
	defer g.mu.Unlock()
	g.n++
	g.Calls++
	if g.Fail[g.n] {
		g.Fails++
		return true
	}
	return false
}

func (g *GatedStore) HasChunk(id desync.ChunkID) (bool, error) {
	g.Hook("st.has.enter", "id", id)
	if g.next() {
		g.Hook("st.has.exit", "id", id, "res", "error")
		return false, ErrInjected
	}
	ok, err := g.Inner.HasChunk(id)
	res := "false"
	if err != nil {
		res = "error"
	} else if ok {
		res = "true"
	}
	g.Hook("st.has.exit", "id", id, "res", res)
	return ok, err
}

func (g *GatedStore) StoreChunk(c *desync.Chunk) error {
	id := c.ID()
	g.Hook("st.store.enter", "id", id)
	if g.next() {
		g.Hook("st.store.exit", "id", id, "res", "error")
		return ErrInjected
	}
	err := g.Inner.StoreChunk(c)
	res := "ok"
	if err != nil {
		res = "error"
	}
	g.Hook("st.store.exit", "id", id, "res", res)
	return err
}

func (g *GatedStore) GetChunk(id desync.ChunkID) (*desync.Chunk, error) {
	g.Hook("st.get.enter", "id", id)
	if g.next() {
		g.Hook("st.get.exit", "id", id, "res", "error")
		return nil, ErrInjected
	}
	c, err := g.Inner.GetChunk(id)
	res := "ok"
	if err != nil {
		res = "error"
		if _, ok := err.(desync.ChunkMissing); ok {
			res = "missing"
		}
	}
	g.Hook("st.get.exit", "id", id, "res", res)
	return c, err
}

func (g *GatedStore) Close() error   { return nil }
func (g *GatedStore) String() string { return "gated:" + g.Inner.String() }
