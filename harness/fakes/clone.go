package fakes

import (
	"fmt"
	"io"
	"os"
)

// CloneEmu is a strict in-process emulation of the FICLONERANGE ioctl following the generic VFS rules
// (generic_remap_file_range_prep / generic_remap_checks as shared by XFS and btrfs):
//   - source and destination offsets must be multiples of the block size;
//   - length 0 means "to the end of the source file" (success without change if that is empty);
//   - the source range must lie within the source file;
//   - the length must be a multiple of the block size unless the range ends exactly at the source's EOF,
//     and in that case the destination range must end at or beyond the destination's EOF;
//   - source and destination ranges within the same file must not overlap;
//   - otherwise the bytes are copied and the destination is extended if needed.
type CloneEmu struct {
	BlockSize uint64
	Calls     int
	Rejected  int
}

type einval struct{ why string }

func (e einval) Error() string { return "invalid argument (FICLONERANGE emulation): " + e.why }

func (c *CloneEmu) CanClone(dstFile, srcFile string) bool { return true }

func (c *CloneEmu) CloneRange(dst, src *os.File, srcOffset, srcLength, dstOffset uint64) error {
	c.Calls++
	err := c.clone(dst, src, srcOffset, srcLength, dstOffset)
	if err != nil {
		c.Rejected++
	}
	return err
}

func (c *CloneEmu) clone(dst, src *os.File, srcOffset, srcLength, dstOffset uint64) error {
	bs := c.BlockSize
	si, err := src.Stat()
	if err != nil {
		return err
	}
	di, err := dst.Stat()
	if err != nil {
		return err
	}
	ssize, dsize := uint64(si.Size()), uint64(di.Size())
	if srcOffset%bs != 0 || dstOffset%bs != 0 {
		return einval{"unaligned offset"}
	}
	if srcOffset+srcLength < srcOffset || dstOffset+srcLength < dstOffset {
		return einval{"offset wraps"}
	}
	length := srcLength
	if length == 0 {
		if srcOffset >= ssize {
			if srcOffset > ssize {
				return einval{"source offset beyond EOF"}
			}
			return nil
		}
		length = ssize - srcOffset
	}
	if srcOffset+length > ssize {
		return einval{"source range beyond EOF"}
	}
	if length%bs != 0 {
		if srcOffset+length != ssize {
			return einval{"unaligned length not ending at source EOF"}
		}
		if dstOffset+length < dsize {
			return einval{"unaligned tail would end inside the destination"}
		}
	}
	if os.SameFile(si, di) {
		if srcOffset < dstOffset+length && dstOffset < srcOffset+length {
			return einval{"overlapping ranges in one file"}
		}
	}
	buf := make([]byte, length)
	if _, err := src.ReadAt(buf, int64(srcOffset)); err != nil && err != io.EOF {
		return fmt.Errorf("clone emulation read: %w", err)
	}
	if _, err := dst.WriteAt(buf, int64(dstOffset)); err != nil {
		return fmt.Errorf("clone emulation write: %w", err)
	}
	return nil
}
