package fakes

import (
	"bufio"
	"crypto/md5"
	"encoding/hex"
	"encoding/xml"
	"fmt"
	"io"
	"net"
	"net/http"
	"sort"
	"strconv"
	"strings"
	"sync"
	"time"
)

// FakeS3 is a minimal in-memory S3 endpoint (path-style addressing) for the minio client desync uses: GET / HEAD / PUT /
// DELETE of objects, ListObjectsV2 (with pagination), bucket location. It speaks enough of the protocol for the real
// S3Store; it does not verify signatures. Faults are injected per (method, key).
type FakeS3 struct {
	mu      sync.Mutex
	Objects map[string][]byte // "bucket/key" -> content
	faults  map[string]*fault // "METHOD bucket/key" or "METHOD *" -> fault
	Log     []S3Req
	PageMax int // max keys per listing page (0: 1000)
	// OnRequest, if set, is called under the mutex for every request before faults are looked up; it may change objects
	// (PutLocked / DeleteLocked) and return a fault kind ("500", "403", "503", "reset", "404") or "".
	OnRequest func(method, key string) string
	srv       *http.Server
	Addr      string
}

type fault struct {
	kind  string // "500", "403", "503", "reset", "404"
	count int    // remaining applications, < 0: forever
}

type S3Req struct {
	Method, Key string
	Status      int
	Faulted     bool
}

func NewFakeS3() *FakeS3 {
	f := &FakeS3{Objects: map[string][]byte{}, faults: map[string]*fault{}}
	l, err := net.Listen("tcp", "127.0.0.1:0")
	if err != nil {
		panic(err)
	}
	f.Addr = l.Addr().String()
	f.srv = &http.Server{Handler: f}
	go f.srv.Serve(l)
	return f
}

func (f *FakeS3) Close() { f.srv.Close() }

// Fault makes the next `count` requests (forever if count < 0) with the method on the key ("*": any key) fail with kind.
func (f *FakeS3) Fault(method, key, kind string, count int) {
	f.mu.Lock()
	f.faults[method+" "+key] = &fault{kind, count}
	f.mu.Unlock()
}

func (f *FakeS3) ClearFaults() {
	f.mu.Lock()
	f.faults = map[string]*fault{}
	f.Log = nil
	f.mu.Unlock()
}

func (f *FakeS3) Put(key string, b []byte) {
	f.mu.Lock()
	f.Objects[key] = append([]byte{}, b...)
	f.mu.Unlock()
}

// PutLocked / DeleteLocked: for use inside OnRequest (the mutex is held)
func (f *FakeS3) PutLocked(key string, b []byte) { f.Objects[key] = append([]byte{}, b...) }
func (f *FakeS3) DeleteLocked(key string)        { delete(f.Objects, key) }

func (f *FakeS3) Keys() []string {
	f.mu.Lock()
	defer f.mu.Unlock()
	var ks []string
	for k := range f.Objects {
		ks = append(ks, k)
	}
	sort.Strings(ks)
	return ks
}

func (f *FakeS3) Get(key string) ([]byte, bool) {
	f.mu.Lock()
	defer f.mu.Unlock()
	b, ok := f.Objects[key]
	return b, ok
}

type s3Error struct {
	XMLName    xml.Name `xml:"Error"`
	Code       string
	Message    string
	Key        string
	BucketName string
	Resource   string
	RequestId  string
	HostId     string
}

func writeErr(w http.ResponseWriter, r *http.Request, status int, code, key string) {
	w.Header().Set("Content-Type", "application/xml")
	w.WriteHeader(status)
	if r.Method == "HEAD" {
		return
	}
	b, _ := xml.Marshal(s3Error{Code: code, Message: code, Key: key, Resource: r.URL.Path, RequestId: "verif", HostId: "verif"})
	w.Write([]byte(xml.Header))
	w.Write(b)
}

func (f *FakeS3) takeFault(method, key string) string {
	for _, k := range []string{method + " " + key, method + " *"} {
		if ft, ok := f.faults[k]; ok && ft.count != 0 {
			if ft.count > 0 {
				ft.count--
			}
			return ft.kind
		}
	}
	return ""
}

func (f *FakeS3) ServeHTTP(w http.ResponseWriter, r *http.Request) {
	path := strings.TrimPrefix(r.URL.Path, "/")
	parts := strings.SplitN(path, "/", 2)
	bucket := parts[0]
	key := ""
	if len(parts) == 2 {
		key = parts[1]
	}
	full := bucket + "/" + key
	q := r.URL.Query()
	f.mu.Lock()
	method := r.Method
	if key == "" && method == "GET" {
		method = "LIST"
	}
	kind := ""
	if f.OnRequest != nil {
		kind = f.OnRequest(method, full)
	}
	if kind == "" {
		kind = f.takeFault(method, full)
	}
	rec := S3Req{Method: method, Key: full, Faulted: kind != ""}
	defer func() {
		f.mu.Lock()
		f.Log = append(f.Log, rec)
		f.mu.Unlock()
	}()
	f.mu.Unlock()
	switch kind {
	case "500":
		rec.Status = 500
		writeErr(w, r, 500, "InternalError", key)
		return
	case "503":
		rec.Status = 503
		writeErr(w, r, 503, "SlowDown", key)
		return
	case "507": // a server-side failure that the minio client does not retry by itself (it retries 429/500/502/503/504 ten times with back-off)
		rec.Status = 507
		writeErr(w, r, 507, "ServiceFailure", key)
		return
	case "403":
		rec.Status = 403
		writeErr(w, r, 403, "AccessDenied", key)
		return
	case "404":
		rec.Status = 404
		writeErr(w, r, 404, "NoSuchKey", key)
		return
	case "reset":
		rec.Status = -1
		if hj, ok := w.(http.Hijacker); ok {
			c, _, _ := hj.Hijack()
			if tc, ok := c.(*net.TCPConn); ok {
				tc.SetLinger(0)
			}
			c.Close()
		}
		return
	}
	switch {
	case key == "" && r.Method == "GET" && q.Has("location"):
		rec.Status = 200
		w.Header().Set("Content-Type", "application/xml")
		io.WriteString(w, xml.Header+`<LocationConstraint xmlns="http://s3.amazonaws.com/doc/2006-03-01/"></LocationConstraint>`)
	case key == "" && r.Method == "GET":
		f.list(w, r, bucket, &rec)
	case key == "" && r.Method == "HEAD": // bucket exists
		rec.Status = 200
		w.WriteHeader(200)
	case r.Method == "GET" || r.Method == "HEAD":
		f.mu.Lock()
		b, ok := f.Objects[full]
		f.mu.Unlock()
		if !ok {
			rec.Status = 404
			writeErr(w, r, 404, "NoSuchKey", key)
			return
		}
		sum := md5.Sum(b)
		w.Header().Set("ETag", `"`+hex.EncodeToString(sum[:])+`"`)
		w.Header().Set("Last-Modified", time.Unix(1700000000, 0).UTC().Format(http.TimeFormat))
		w.Header().Set("Content-Type", "application/octet-stream")
		w.Header().Set("Content-Length", strconv.Itoa(len(b)))
		w.Header().Set("Accept-Ranges", "bytes")
		rec.Status = 200
		if r.Method == "GET" {
			if rg := r.Header.Get("Range"); rg != "" {
				var a, z int
				if n, _ := fmt.Sscanf(rg, "bytes=%d-%d", &a, &z); n >= 1 {
					if n == 1 || z >= len(b) {
						z = len(b) - 1
					}
					if a <= z && a < len(b) {
						w.Header().Set("Content-Range", fmt.Sprintf("bytes %d-%d/%d", a, z, len(b)))
						w.Header().Set("Content-Length", strconv.Itoa(z-a+1))
						w.WriteHeader(206)
						w.Write(b[a : z+1])
						return
					}
				}
			}
			w.WriteHeader(200)
			w.Write(b)
		} else {
			w.WriteHeader(200)
		}
	case r.Method == "PUT":
		var body []byte
		var err error
		if strings.HasPrefix(r.Header.Get("X-Amz-Content-Sha256"), "STREAMING-") {
			body, err = decodeAwsChunked(r.Body)
		} else {
			body, err = io.ReadAll(r.Body)
		}
		if err != nil {
			rec.Status = 400
			writeErr(w, r, 400, "IncompleteBody", key)
			return
		}
		f.mu.Lock()
		f.Objects[full] = body
		f.mu.Unlock()
		sum := md5.Sum(body)
		w.Header().Set("ETag", `"`+hex.EncodeToString(sum[:])+`"`)
		rec.Status = 200
		w.WriteHeader(200)
	case r.Method == "DELETE":
		f.mu.Lock()
		delete(f.Objects, full)
		f.mu.Unlock()
		rec.Status = 204
		w.WriteHeader(204)
	default:
		rec.Status = 405
		writeErr(w, r, 405, "MethodNotAllowed", key)
	}
}

type listResult struct {
	XMLName               xml.Name `xml:"ListBucketResult"`
	Name                  string
	Prefix                string
	KeyCount              int
	MaxKeys               int
	IsTruncated           bool
	NextContinuationToken string `xml:",omitempty"`
	Contents              []listEntry
}
type listEntry struct {
	Key          string
	LastModified string
	ETag         string
	Size         int
	StorageClass string
}

func (f *FakeS3) list(w http.ResponseWriter, r *http.Request, bucket string, rec *S3Req) {
	q := r.URL.Query()
	prefix := q.Get("prefix")
	start := q.Get("continuation-token")
	if start == "" {
		start = q.Get("start-after")
	}
	max := f.PageMax
	if max == 0 {
		max = 1000
	}
	var keys []string
	f.mu.Lock()
	for k := range f.Objects {
		if strings.HasPrefix(k, bucket+"/") {
			kk := strings.TrimPrefix(k, bucket+"/")
			if strings.HasPrefix(kk, prefix) && kk > start {
				keys = append(keys, kk)
			}
		}
	}
	sizes := map[string]int{}
	for _, k := range keys {
		sizes[k] = len(f.Objects[bucket+"/"+k])
	}
	f.mu.Unlock()
	sort.Strings(keys)
	res := listResult{Name: bucket, Prefix: prefix, MaxKeys: max}
	if len(keys) > max {
		keys = keys[:max]
		res.IsTruncated = true
		res.NextContinuationToken = keys[len(keys)-1]
	}
	for _, k := range keys {
		res.Contents = append(res.Contents, listEntry{Key: k, LastModified: time.Unix(1700000000, 0).UTC().Format("2006-01-02T15:04:05.000Z"), ETag: `"x"`, Size: sizes[k], StorageClass: "STANDARD"})
	}
	res.KeyCount = len(keys)
	b, _ := xml.Marshal(res)
	rec.Status = 200
	w.Header().Set("Content-Type", "application/xml")
	w.Write([]byte(xml.Header))
	w.Write(b)
}

// decodeAwsChunked decodes the aws-chunked payload of a streaming-signature PUT: "<hex size>;chunk-signature=...\r\n<data>\r\n" ... "0;...\r\n\r\n"
func decodeAwsChunked(r io.Reader) ([]byte, error) {
	br := bufio.NewReader(r)
	var out []byte
	for {
		line, err := br.ReadString('\n')
		if err != nil {
			return nil, err
		}
		line = strings.TrimRight(line, "\r\n")
		szs := line
		if i := strings.IndexByte(line, ';'); i >= 0 {
			szs = line[:i]
		}
		n, err := strconv.ParseInt(szs, 16, 64)
		if err != nil {
			return nil, err
		}
		if n == 0 {
			return out, nil
		}
		buf := make([]byte, n)
		if _, err := io.ReadFull(br, buf); err != nil {
			return nil, err
		}
		out = append(out, buf...)
		br.ReadString('\n')
	}
}
