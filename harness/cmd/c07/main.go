// c07 cancels real operations at the k-th interaction and records what they report, for Trace_CancelOutcome.tla:
//
//	lib  Tar / UnTar / UnTarIndex with the context cancelled at the k-th write / read / chunk request (before or after it)
//	cli  the real desync binary (extract, extract -k, untar -i, cache, chop, make, tar -i) against a counting HTTP chunk server
//	     that sends SIGINT or SIGTERM to the process at its k-th request
package main

import (
	"archive/tar"
	"bytes"
	"context"
	"crypto/sha256"
	"encoding/hex"
	"flag"
	"fmt"
	"io"
	"math/rand"
	"net"
	"net/http"
	"os"
	"os/exec"
	"path/filepath"
	"sort"
	"strings"
	"sync"
	"syscall"
	"time"

	"github.com/folbricht/desync"

	"verif/harness/trace"
)

type J = map[string]interface{}

var (
	w      *trace.Writer
	binary string
)

func must(err error) {
	if err != nil {
		fmt.Fprintln(os.Stderr, "c07:", err)
		os.Exit(2)
	}
}

// digest of a tree: paths, types, sizes, contents, link targets (no times, no owners)
func treeDigest(root string) string {
	var lines []string
	filepath.Walk(root, func(p string, info os.FileInfo, err error) error {
		if err != nil {
			return nil
		}
		rel, _ := filepath.Rel(root, p)
		switch {
		case info.Mode()&os.ModeSymlink != 0:
			t, _ := os.Readlink(p)
			lines = append(lines, "l "+rel+" "+t)
		case info.IsDir():
			lines = append(lines, "d "+rel)
		default:
			b, _ := os.ReadFile(p)
			h := sha256.Sum256(b)
			lines = append(lines, fmt.Sprintf("f %s %d %s", rel, len(b), hex.EncodeToString(h[:8])))
		}
		return nil
	})
	sort.Strings(lines)
	h := sha256.Sum256([]byte(strings.Join(lines, "\n")))
	return hex.EncodeToString(h[:])
}

func mkTree(r *rand.Rand, root string) {
	os.MkdirAll(filepath.Join(root, "a", "b"), 0755)
	os.MkdirAll(filepath.Join(root, "c"), 0755)
	for i, p := range []string{"a/f1", "a/b/f2", "c/f3", "f4", "a/f5"} {
		b := make([]byte, 3000+r.Intn(20000)+i)
		r.Read(b)
		must(os.WriteFile(filepath.Join(root, p), b, 0644))
	}
	os.Symlink("f4", filepath.Join(root, "link"))
}

type errClass string

func classify(err error) string {
	if err == nil {
		return "nil"
	}
	if _, ok := err.(desync.Interrupted); ok {
		return "interrupted"
	}
	return "other"
}

// ---- wrappers that cancel at the k-th interaction
type cancelWriter struct {
	w      io.Writer
	n, k   int
	cancel func()
	after  bool
}

func (c *cancelWriter) Write(b []byte) (int, error) {
	c.n++
	if c.n == c.k && !c.after {
		c.cancel()
	}
	n, err := c.w.Write(b)
	if c.n == c.k && c.after {
		c.cancel()
	}
	return n, err
}

type cancelReader struct {
	r      io.Reader
	n, k   int
	cancel func()
	after  bool
}

func (c *cancelReader) Read(b []byte) (int, error) {
	c.n++
	if c.n == c.k && !c.after {
		c.cancel()
	}
	if len(b) > 700 {
		b = b[:700] // many small reads: many cancellation points
	}
	n, err := c.r.Read(b)
	if c.n == c.k && c.after {
		c.cancel()
	}
	return n, err
}

type cancelStore struct {
	desync.Store
	mu     sync.Mutex
	n, k   int
	cancel func()
	after  bool
}

func (c *cancelStore) GetChunk(id desync.ChunkID) (*desync.Chunk, error) {
	c.mu.Lock()
	c.n++
	hit := c.n == c.k
	c.mu.Unlock()
	if hit && !c.after {
		c.cancel()
	}
	ch, err := c.Store.GetChunk(id)
	if hit && c.after {
		c.cancel()
		time.Sleep(2 * time.Millisecond)
	}
	return ch, err
}

func runLib(r *rand.Rand, dir string, thorough bool) {
	src := filepath.Join(dir, "src")
	mkTree(r, src)
	want := treeDigest(src)
	// reference archive
	var ref bytes.Buffer
	must(desync.Tar(context.Background(), &ref, desync.NewLocalFS(src, desync.LocalFSOptions{})))
	st, err := desync.NewLocalStore(mkdir(filepath.Join(dir, "store")), desync.StoreOptions{})
	must(err)
	ck, err := desync.NewChunker(bytes.NewReader(ref.Bytes()), 512, 2048, 8192)
	must(err)
	idx, err := desync.ChunkStream(context.Background(), ck, st, 2)
	must(err)
	nchunks := len(idx.Chunks)
	stride := 3
	if thorough {
		stride = 1
	}
	emit := func(op string, n, k int, after bool, err error, complete bool) {
		w.Emit(J{"ev": "cancel", "op": op, "n": n, "k": k, "after": after, "err": classify(err), "complete": complete, "units": nchunks})
	}
	// ---- Tar: cancel at the k-th write
	total := 0
	{
		cw := &cancelWriter{w: io.Discard, k: -1}
		must(desync.Tar(context.Background(), cw, desync.NewLocalFS(src, desync.LocalFSOptions{})))
		total = cw.n
	}
	for k := 0; k <= total+1; k += stride {
		for _, after := range []bool{false, true} {
			ctx, cancel := context.WithCancel(context.Background())
			if k == 0 {
				cancel()
			}
			var out bytes.Buffer
			err := desync.Tar(ctx, &cancelWriter{w: &out, k: k, cancel: cancel, after: after}, desync.NewLocalFS(src, desync.LocalFSOptions{}))
			emit("tar", 1, k, after, err, bytes.Equal(out.Bytes(), ref.Bytes()))
			cancel()
		}
	}
	// ---- UnTar: cancel at the k-th read of the archive
	{
		cr := &cancelReader{r: bytes.NewReader(ref.Bytes()), k: -1}
		d := mkdir(filepath.Join(dir, "ut0"))
		must(desync.UnTar(context.Background(), cr, desync.NewLocalFS(d, desync.LocalFSOptions{})))
		total = cr.n
		os.RemoveAll(d)
	}
	for k := 0; k <= total+1; k += stride {
		for _, after := range []bool{false, true} {
			ctx, cancel := context.WithCancel(context.Background())
			if k == 0 {
				cancel()
			}
			d := mkdir(filepath.Join(dir, "ut"))
			err := desync.UnTar(ctx, &cancelReader{r: bytes.NewReader(ref.Bytes()), k: k, cancel: cancel, after: after}, desync.NewLocalFS(d, desync.LocalFSOptions{}))
			emit("untar", 1, k, after, err, treeDigest(d) == want)
			cancel()
			os.RemoveAll(d)
		}
	}
	// ---- UnTarIndex: cancel at the k-th chunk request
	for _, n := range []int{1, 3} {
		for k := 0; k <= nchunks+1; k++ {
			for _, after := range []bool{false, true} {
				ctx, cancel := context.WithCancel(context.Background())
				if k == 0 {
					cancel()
				}
				d := mkdir(filepath.Join(dir, "uti"))
				err := desync.UnTarIndex(ctx, desync.NewLocalFS(d, desync.LocalFSOptions{}), idx, &cancelStore{Store: st, k: k, cancel: cancel, after: after}, n, desync.NewProgressBar(""))
				emit("untarindex", n, k, after, err, treeDigest(d) == want)
				cancel()
				os.RemoveAll(d)
			}
		}
	}
}

func mkdir(p string) string { os.RemoveAll(p); must(os.MkdirAll(p, 0755)); return p }

// ------------------------------------------------------------------------------------------------ cli

type sigServer struct {
	mu      sync.Mutex
	n, k    int
	sig     syscall.Signal
	pid     func() int
	handler http.Handler
	fired   bool
}

func (s *sigServer) ServeHTTP(rw http.ResponseWriter, r *http.Request) {
	s.mu.Lock()
	s.n++
	hit := s.n == s.k
	s.mu.Unlock()
	if hit {
		syscall.Kill(s.pid(), s.sig)
		s.mu.Lock()
		s.fired = true
		s.mu.Unlock()
		time.Sleep(120 * time.Millisecond) // the process handles the signal while this request is in flight
	}
	s.handler.ServeHTTP(rw, r)
}

func serve(h http.Handler) (string, func()) {
	l, err := net.Listen("tcp", "127.0.0.1:0")
	must(err)
	srv := &http.Server{Handler: h}
	go srv.Serve(l)
	return "http://" + l.Addr().String() + "/", func() { srv.Close() }
}

func storeHasAll(dir string, idx desync.Index) bool {
	st, err := desync.NewLocalStore(dir, desync.StoreOptions{})
	if err != nil {
		return false
	}
	for _, c := range idx.Chunks {
		if _, err := st.GetChunk(c.ID); err != nil {
			return false
		}
	}
	return true
}

func runCLI(r *rand.Rand, dir string, thorough bool) {
	// fixtures: a blob and a tree, chunked with the CLI's smallest parameters
	blob := make([]byte, 220*1024)
	r.Read(blob)
	copy(blob[100*1024:], blob[:30*1024]) // repeated section
	blobFile := filepath.Join(dir, "blob")
	must(os.WriteFile(blobFile, blob, 0644))
	store := mkdir(filepath.Join(dir, "store"))
	st, err := desync.NewLocalStore(store, desync.StoreOptions{})
	must(err)
	ck, err := desync.NewChunker(bytes.NewReader(blob), 1024, 4096, 16384)
	must(err)
	idx, err := desync.ChunkStream(context.Background(), ck, st, 2)
	must(err)
	idxFile := filepath.Join(dir, "blob.caibx")
	fo, _ := os.Create(idxFile)
	idx.WriteTo(fo)
	fo.Close()
	src := filepath.Join(dir, "src")
	mkTree(r, src)
	want := treeDigest(src)
	var ref bytes.Buffer
	must(desync.Tar(context.Background(), &ref, desync.NewLocalFS(src, desync.LocalFSOptions{})))
	ck2, _ := desync.NewChunker(bytes.NewReader(ref.Bytes()), 1024, 4096, 16384)
	tidx, err := desync.ChunkStream(context.Background(), ck2, st, 2)
	must(err)
	tidxFile := filepath.Join(dir, "tree.caidx")
	fo, _ = os.Create(tidxFile)
	tidx.WriteTo(fo)
	fo.Close()

	type cmdDef struct {
		name     string
		writable bool
		args     func(url, work string) []string
		prep     func(work string)
		complete func(work, srvStore string) bool
		extra    func(work string) J
	}
	prev := []byte("the previous content of the destination")
	defs := []cmdDef{
		{name: "extract", args: func(url, work string) []string {
			return []string{"extract", "-n", "3", "-s", url, idxFile, filepath.Join(work, "out")}
		},
			prep: func(work string) { must(os.WriteFile(filepath.Join(work, "out"), prev, 0644)) },
			complete: func(work, _ string) bool {
				b, _ := os.ReadFile(filepath.Join(work, "out"))
				return bytes.Equal(b, blob)
			},
			extra: func(work string) J {
				b, err := os.ReadFile(filepath.Join(work, "out"))
				return J{"untouched": err == nil && bytes.Equal(b, prev)}
			}},
		{name: "extract-stats", args: func(url, work string) []string {
			return []string{"extract", "--print-stats", "-n", "3", "-s", url, idxFile, filepath.Join(work, "out")}
		},
			prep: func(work string) { must(os.WriteFile(filepath.Join(work, "out"), prev, 0644)) },
			complete: func(work, _ string) bool {
				b, _ := os.ReadFile(filepath.Join(work, "out"))
				return bytes.Equal(b, blob)
			},
			extra: func(work string) J {
				b, err := os.ReadFile(filepath.Join(work, "out"))
				return J{"untouched": err == nil && bytes.Equal(b, prev)}
			}},
		// a destination whose name leaves no room for the name of a temporary file next to it: the command cannot work through a
		// temporary file, and it must not fall back to writing into the destination (that is what --in-place is for)
		{name: "extract-longname", args: func(url, work string) []string {
			return []string{"extract", "-n", "3", "-s", url, idxFile, filepath.Join(work, strings.Repeat("n", 250))}
		},
			prep: func(work string) { must(os.WriteFile(filepath.Join(work, strings.Repeat("n", 250)), prev, 0644)) },
			complete: func(work, _ string) bool {
				b, _ := os.ReadFile(filepath.Join(work, strings.Repeat("n", 250)))
				return bytes.Equal(b, blob)
			},
			extra: func(work string) J {
				b, err := os.ReadFile(filepath.Join(work, strings.Repeat("n", 250)))
				return J{"untouched": err == nil && bytes.Equal(b, prev)}
			}},
		{name: "extract-k-stats", args: func(url, work string) []string {
			return []string{"extract", "-k", "--print-stats", "-n", "3", "-s", url, idxFile, filepath.Join(work, "out")}
		},
			complete: func(work, _ string) bool {
				b, _ := os.ReadFile(filepath.Join(work, "out"))
				return bytes.Equal(b, blob)
			}},
		{name: "extract-k", args: func(url, work string) []string {
			return []string{"extract", "-k", "-n", "3", "-s", url, idxFile, filepath.Join(work, "out")}
		},
			complete: func(work, _ string) bool {
				b, _ := os.ReadFile(filepath.Join(work, "out"))
				return bytes.Equal(b, blob)
			}},
		{name: "untar-i", args: func(url, work string) []string {
			return []string{"untar", "-i", "-n", "3", "-s", url, "--no-same-owner", tidxFile, filepath.Join(work, "tree")}
		},
			prep:     func(work string) { os.MkdirAll(filepath.Join(work, "tree"), 0755) },
			complete: func(work, _ string) bool { return treeDigest(filepath.Join(work, "tree")) == want }},
		{name: "cache", args: func(url, work string) []string {
			return []string{"cache", "-n", "3", "-s", url, "-c", filepath.Join(work, "cache"), idxFile}
		},
			prep:     func(work string) { os.MkdirAll(filepath.Join(work, "cache"), 0755) },
			complete: func(work, _ string) bool { return storeHasAll(filepath.Join(work, "cache"), idx) }},
		{name: "chop", writable: true, args: func(url, work string) []string { return []string{"chop", "-n", "3", "-s", url, idxFile, blobFile} },
			complete: func(_, srvStore string) bool { return storeHasAll(srvStore, idx) }},
		{name: "make", writable: true, args: func(url, work string) []string {
			return []string{"make", "-n", "3", "-m", "1:4:16", "-s", url, filepath.Join(work, "made.caibx"), blobFile}
		},
			complete: func(work, srvStore string) bool {
				f, err := os.Open(filepath.Join(work, "made.caibx"))
				if err != nil {
					return false
				}
				defer f.Close()
				mi, err := desync.IndexFromReader(f)
				return err == nil && mi.Length() == int64(len(blob)) && storeHasAll(srvStore, mi)
			}},
		{name: "tar-i", writable: true, args: func(url, work string) []string {
			return []string{"tar", "-i", "-n", "3", "-m", "1:4:16", "-s", url, filepath.Join(work, "made.caidx"), src}
		},
			complete: func(work, srvStore string) bool {
				f, err := os.Open(filepath.Join(work, "made.caidx"))
				if err != nil {
					return false
				}
				defer f.Close()
				mi, err := desync.IndexFromReader(f)
				return err == nil && mi.Length() == int64(ref.Len()) && storeHasAll(srvStore, mi)
			}},
	}
	ks := []int{1, 2, 3, 5, 9, 17, 30, 45}
	if thorough {
		ks = nil
		for k := 1; k <= 70; k++ {
			ks = append(ks, k)
		}
	}
	for _, d := range defs {
		for i, k := range append([]int{0}, ks...) {
			sig := syscall.SIGINT
			if i%2 == 1 {
				sig = syscall.SIGTERM
			}
			work := mkdir(filepath.Join(dir, "work"))
			srvStore := store
			if d.writable {
				srvStore = mkdir(filepath.Join(dir, "srvstore"))
			}
			ss, err := desync.NewLocalStore(srvStore, desync.StoreOptions{})
			must(err)
			if d.prep != nil {
				d.prep(work)
			}
			var cmd *exec.Cmd
			srv := &sigServer{k: k, sig: sig, pid: func() int { return cmd.Process.Pid }, handler: desync.NewHTTPHandler(ss, d.writable, false, desync.Converters{desync.Compressor{}}, "")}
			url, stop := serve(srv)
			cmd = exec.Command(binary, d.args(url, work)...)
			cmd.Env = append(os.Environ(), "HOME=/nonexistent")
			var out bytes.Buffer
			cmd.Stdout, cmd.Stderr = &out, &out
			must(cmd.Start())
			done := make(chan error, 1)
			go func() { done <- cmd.Wait() }()
			var werr error
			hung := false
			select {
			case werr = <-done:
			case <-time.After(60 * time.Second):
				cmd.Process.Kill()
				werr = <-done
				hung = true
			}
			stop()
			exit := 0
			if werr != nil {
				exit = 1
				if ee, ok := werr.(*exec.ExitError); ok {
					exit = ee.ExitCode()
				}
			}
			rec := J{"ev": "signal", "cmd": d.name, "sig": map[syscall.Signal]string{syscall.SIGINT: "INT", syscall.SIGTERM: "TERM"}[sig], "k": k, "signalled": srv.fired, "requests": srv.n,
				"exit": exit, "hung": hung, "complete": d.complete(work, srvStore), "untouched": true, "out": firstLine(out.String())}
			if d.extra != nil {
				for kk, v := range d.extra(work) {
					rec[kk] = v
				}
			}
			w.Emit(rec)
		}
	}
}

// `tar -i --input-format tar` reading the tar stream from a FIFO: the signal arrives while the command waits for the stream (before
// the first entry), or between two entries; the stream is delivered completely afterwards. Exit 0 is only acceptable with an index of
// the whole tree.
func runFifoSignal(r *rand.Rand, dir string, thorough bool) {
	var tb bytes.Buffer
	tw := tar.NewWriter(&tb)
	var pieces []int // stream offsets after each member
	for j := 0; j < 6; j++ {
		body := make([]byte, 300+r.Intn(3000))
		r.Read(body)
		tw.WriteHeader(&tar.Header{Name: fmt.Sprintf("f%d", j), Mode: 0644, Size: int64(len(body)), Typeflag: tar.TypeReg, ModTime: time.Unix(1600000000, 0)})
		tw.Write(body)
		tw.Flush()
		pieces = append(pieces, tb.Len())
	}
	tw.Close()
	full := tb.Bytes()
	rounds := 3
	if thorough {
		rounds = 12
	}
	for round := 0; round < rounds; round++ {
		for _, after := range []int{0, 1, 3} { // members delivered before the signal
			sig := []syscall.Signal{syscall.SIGINT, syscall.SIGTERM}[(round+after)%2]
			work := mkdir(filepath.Join(dir, "fifowork"))
			store := mkdir(filepath.Join(dir, "fifostore"))
			fifo := filepath.Join(work, "in.tar")
			must(syscall.Mkfifo(fifo, 0644))
			index := filepath.Join(work, "made.caidx")
			cmd := exec.Command(binary, "tar", "-i", "-n", "2", "-m", "1:4:16", "-s", store, "--input-format", "tar", "--tar-add-root", index, fifo)
			cmd.Env = append(os.Environ(), "HOME=/nonexistent")
			var out bytes.Buffer
			cmd.Stdout, cmd.Stderr = &out, &out
			must(cmd.Start())
			done := make(chan error, 1)
			go func() { done <- cmd.Wait() }()
			time.Sleep(150 * time.Millisecond) // the command is waiting for a writer on the FIFO by now
			fed := make(chan struct{})
			go func() {
				defer close(fed)
				f, err := os.OpenFile(fifo, os.O_WRONLY, 0)
				if err != nil {
					return
				}
				defer f.Close()
				cut := 0
				if after > 0 {
					cut = pieces[after-1]
					f.Write(full[:cut])
					time.Sleep(100 * time.Millisecond)
				}
				cmd.Process.Signal(sig)
				time.Sleep(100 * time.Millisecond)
				f.Write(full[cut:])
			}()
			if after == 0 {
				// the signal goes out before the stream is even opened for writing
			}
			var werr error
			hung := false
			select {
			case werr = <-done:
			case <-time.After(60 * time.Second):
				cmd.Process.Kill()
				werr = <-done
				hung = true
			}
			// unblock the feeder if the command went away without reading
			if rf, err := os.OpenFile(fifo, os.O_RDONLY|syscall.O_NONBLOCK, 0); err == nil {
				select {
				case <-fed:
				case <-time.After(2 * time.Second):
				}
				rf.Close()
			}
			exit := 0
			if werr != nil {
				exit = 1
			}
			complete := false
			if exit == 0 {
				dst := mkdir(filepath.Join(dir, "fifodst"))
				ru := exec.Command(binary, "untar", "-i", "-s", store, "--no-same-owner", index, dst)
				ru.Env = append(os.Environ(), "HOME=/nonexistent")
				if ru.Run() == nil {
					n := 0
					filepath.Walk(dst, func(p string, info os.FileInfo, err error) error {
						if err == nil && info.Mode().IsRegular() {
							n++
						}
						return nil
					})
					complete = n == 6
				}
			}
			w.Emit(J{"ev": "signal", "cmd": "tar-i-fifo", "sig": map[syscall.Signal]string{syscall.SIGINT: "INT", syscall.SIGTERM: "TERM"}[sig], "k": after, "signalled": true, "requests": 0,
				"exit": exit, "hung": hung, "complete": complete, "untouched": true, "out": firstLine(out.String())})
		}
	}
}

// verify-index has no store requests to count: the signal is sent after a delay. The file differs from the index in its
// last byte, so whatever happens first - the mismatch or the interruption - the command must not exit 0.
func runVerifySignal(r *rand.Rand, dir string, thorough bool) {
	blob := make([]byte, 24<<20)
	r.Read(blob)
	store := mkdir(filepath.Join(dir, "vstore"))
	st, err := desync.NewLocalStore(store, desync.StoreOptions{})
	must(err)
	ck, err := desync.NewChunker(bytes.NewReader(blob), 16*1024, 64*1024, 256*1024)
	must(err)
	idx, err := desync.ChunkStream(context.Background(), ck, st, 4)
	must(err)
	idxFile := filepath.Join(dir, "v.caibx")
	fo, _ := os.Create(idxFile)
	idx.WriteTo(fo)
	fo.Close()
	blob[len(blob)-1] ^= 0x40
	file := filepath.Join(dir, "altered")
	must(os.WriteFile(file, blob, 0644))
	delays := []int{0, 2, 5, 10, 20, 40, 80}
	if thorough {
		for d := 1; d < 120; d += 3 {
			delays = append(delays, d)
		}
	}
	for i, d := range delays {
		for _, n := range []string{"1", "4"} {
			sig := syscall.SIGINT
			if i%2 == 1 {
				sig = syscall.SIGTERM
			}
			cmd := exec.Command(binary, "verify-index", "-n", n, idxFile, file)
			cmd.Env = append(os.Environ(), "HOME=/nonexistent")
			var out bytes.Buffer
			cmd.Stdout, cmd.Stderr = &out, &out
			must(cmd.Start())
			time.Sleep(time.Duration(d) * time.Millisecond)
			cmd.Process.Signal(sig)
			done := make(chan error, 1)
			go func() { done <- cmd.Wait() }()
			var werr error
			hung := false
			select {
			case werr = <-done:
			case <-time.After(60 * time.Second):
				cmd.Process.Kill()
				werr = <-done
				hung = true
			}
			exit := 0
			if werr != nil {
				exit = 1
				if ee, ok := werr.(*exec.ExitError); ok && ee.ExitCode() > 0 {
					exit = ee.ExitCode()
				}
			}
			w.Emit(J{"ev": "signal", "cmd": "verify-index", "sig": map[syscall.Signal]string{syscall.SIGINT: "INT", syscall.SIGTERM: "TERM"}[sig], "k": d, "signalled": true, "requests": 0,
				"exit": exit, "hung": hung, "complete": false, "untouched": true, "out": firstLine(out.String())})
		}
	}
}

func firstLine(s string) string {
	s = strings.TrimSpace(s)
	if i := strings.LastIndexByte(s, '\n'); i >= 0 {
		s = s[i+1:]
	}
	if len(s) > 160 {
		s = s[:160]
	}
	return s
}

func main() {
	mode := flag.String("mode", "all", "lib | cli | all")
	seed := flag.Int64("seed", 1, "seed")
	out := flag.String("out", "", "trace output")
	dir := flag.String("dir", "", "scratch dir (absolute)")
	bin := flag.String("desync", "", "desync binary built from the tree under test")
	thorough := flag.Bool("thorough", false, "all cancellation points")
	flag.Parse()
	if !filepath.IsAbs(*dir) {
		must(fmt.Errorf("-dir must be absolute"))
	}
	binary = *bin
	var err error
	w, err = trace.Create(*out)
	must(err)
	r := rand.New(rand.NewSource(*seed))
	if *mode == "all" || *mode == "lib" {
		runLib(r, mkdir(filepath.Join(*dir, "lib")), *thorough)
	}
	if *mode == "verifysig" {
		runVerifySignal(r, mkdir(filepath.Join(*dir, "verify")), *thorough)
	}
	if *mode == "all" || *mode == "cli" {
		runCLI(r, mkdir(filepath.Join(*dir, "cli")), *thorough)
		runFifoSignal(r, mkdir(filepath.Join(*dir, "fifo")), *thorough)
		runVerifySignal(r, mkdir(filepath.Join(*dir, "verify")), *thorough)
	}
	must(w.Close())
	os.RemoveAll(*dir)
	fmt.Printf("records=%d\n", w.N)
}
