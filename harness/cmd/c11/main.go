// c11 builds random chains of the real store wrappers (StoreRouter, Cache, RepairableCache, FailoverGroup,
// DedupQueue, SwapStore) over fault-injecting members - in-memory members and real LocalStores whose chunk
// files are really corrupted - runs random operation sequences and records results, members called and member
// contents for Trace_StoreChain.tla (C11, C03). A concurrent part swaps the store under load and runs concurrent
// requests on a failover group under the gate scheduler.
package main

import (
	"bytes"
	"errors"
	"flag"
	"fmt"
	"math/rand"
	"os"
	"path/filepath"
	"sync"
	"time"

	"github.com/folbricht/desync"

	"verif/harness/sched"
	"verif/harness/trace"
)

var (
	datas = [][]byte{nil, bytes.Repeat([]byte("chunk-one "), 30), bytes.Repeat([]byte("chunk two! "), 40), bytes.Repeat([]byte{7, 9}, 200)}
	ids   []desync.ChunkID
	idNum = map[desync.ChunkID]int{}
)

func init() {
	ids = append(ids, desync.ChunkID{})
	for i := 1; i <= 3; i++ {
		id := desync.NewChunk(datas[i]).ID()
		ids = append(ids, id)
		idNum[id] = i
	}
}

var errDown = errors.New("member is failing")

type member interface {
	desync.WriteStore
	name() string
	state(id int) string
	set(id int, content string)
	setHealthy(bool)
	isHealthy() bool
	takeCalls() bool
}

// in-memory member
type mem struct {
	n       string
	mu      sync.Mutex
	c       map[int]string
	healthy bool
	verify  bool
	called  bool
	closed  bool
	inUse   int
	hook    func(string, ...interface{})
	abuse   []string
}

func (m *mem) name() string { return m.n }
func (m *mem) state(id int) string {
	m.mu.Lock()
	defer m.mu.Unlock()
	if s, ok := m.c[id]; ok {
		return s
	}
	return "absent"
}
func (m *mem) set(id int, content string) { m.mu.Lock(); m.c[id] = content; m.mu.Unlock() }
func (m *mem) setHealthy(h bool)          { m.mu.Lock(); m.healthy = h; m.mu.Unlock() }
func (m *mem) isHealthy() bool            { m.mu.Lock(); defer m.mu.Unlock(); return m.healthy }
func (m *mem) takeCalls() bool {
	m.mu.Lock()
	defer m.mu.Unlock()
	c := m.called
	m.called = false
	return c
}
func (m *mem) enter() {
	m.mu.Lock()
	m.called = true
	m.inUse++
	if m.closed {
		m.abuse = append(m.abuse, "request on a closed store")
	}
	m.mu.Unlock()
	if m.hook != nil {
		m.hook("m.enter", "m", m.n)
	}
}
func (m *mem) exit() {
	if m.hook != nil {
		m.hook("m.exit", "m", m.n)
	}
	m.mu.Lock()
	m.inUse--
	if m.closed {
		m.abuse = append(m.abuse, "store closed while a request was in flight")
	}
	m.mu.Unlock()
}
func (m *mem) GetChunk(id desync.ChunkID) (*desync.Chunk, error) {
	m.enter()
	defer m.exit()
	m.mu.Lock()
	defer m.mu.Unlock()
	if !m.healthy {
		return nil, errDown
	}
	switch m.c[idNum[id]] {
	case "good":
		return desync.NewChunk(datas[idNum[id]]), nil
	case "corrupt":
		if m.verify {
			return nil, desync.ChunkInvalid{ID: id, Sum: ids[0]}
		}
		return desync.NewChunkWithID(id, []byte("not the chunk"), true)
	}
	return nil, desync.ChunkMissing{ID: id}
}
func (m *mem) HasChunk(id desync.ChunkID) (bool, error) {
	m.enter()
	defer m.exit()
	m.mu.Lock()
	defer m.mu.Unlock()
	if !m.healthy {
		return false, errDown
	}
	s := m.c[idNum[id]]
	return s == "good" || s == "corrupt", nil
}
func (m *mem) StoreChunk(c *desync.Chunk) error {
	m.enter()
	defer m.exit()
	m.mu.Lock()
	defer m.mu.Unlock()
	if !m.healthy {
		return errDown
	}
	d, err := c.Data()
	if err == nil && bytes.Equal(d, datas[idNum[c.ID()]]) {
		m.c[idNum[c.ID()]] = "good"
	} else {
		m.c[idNum[c.ID()]] = "corrupt"
	}
	return nil
}
func (m *mem) Close() error {
	m.mu.Lock()
	defer m.mu.Unlock()
	m.closed = true
	if m.inUse > 0 {
		m.abuse = append(m.abuse, "store closed while a request was in flight")
	}
	return nil
}
func (m *mem) String() string { return m.n }

// real local store member: corruption is done on the chunk files
type loc struct {
	n      string
	dir    string
	ls     desync.LocalStore
	comp   bool
	called bool
	mu     sync.Mutex
}

func newLoc(n, dir string, verify, compressed bool) *loc {
	os.MkdirAll(dir, 0755)
	ls, err := desync.NewLocalStore(dir, desync.StoreOptions{SkipVerify: !verify, Uncompressed: !compressed})
	if err != nil {
		panic(err)
	}
	return &loc{n: n, dir: dir, ls: ls, comp: compressed}
}
func (m *loc) name() string { return m.n }
func (m *loc) path(id int) string {
	s := ids[id].String()
	p := filepath.Join(m.dir, s[:4], s)
	if m.comp {
		p += ".cacnk"
	}
	return p
}
func (m *loc) state(id int) string {
	b, err := os.ReadFile(m.path(id))
	if err != nil {
		return "absent"
	}
	var c *desync.Chunk
	if m.comp {
		c, err = desync.NewChunkFromStorage(ids[id], b, desync.Converters{desync.Compressor{}}, false)
	} else {
		c, err = desync.NewChunkFromStorage(ids[id], b, nil, false)
	}
	if err != nil || c == nil {
		return "corrupt"
	}
	return "good"
}
func (m *loc) set(id int, content string) {
	os.Remove(m.path(id))
	switch content {
	case "good":
		m.ls.StoreChunk(desync.NewChunk(datas[id]))
	case "corrupt":
		// another chunk's valid object under this name
		other := id%3 + 1
		var b []byte
		if m.comp {
			b, _ = desync.Compress(datas[other])
		} else {
			b = datas[other]
		}
		os.MkdirAll(filepath.Dir(m.path(id)), 0755)
		os.WriteFile(m.path(id), b, 0644)
	}
}
func (m *loc) setHealthy(bool) {}
func (m *loc) isHealthy() bool { return true }
func (m *loc) takeCalls() bool {
	m.mu.Lock()
	defer m.mu.Unlock()
	c := m.called
	m.called = false
	return c
}
func (m *loc) mark()                                             { m.mu.Lock(); m.called = true; m.mu.Unlock() }
func (m *loc) GetChunk(id desync.ChunkID) (*desync.Chunk, error) { m.mark(); return m.ls.GetChunk(id) }
func (m *loc) HasChunk(id desync.ChunkID) (bool, error)          { m.mark(); return m.ls.HasChunk(id) }
func (m *loc) StoreChunk(c *desync.Chunk) error                  { m.mark(); return m.ls.StoreChunk(c) }
func (m *loc) Close() error                                      { return nil }
func (m *loc) String() string                                    { return m.n }

type J = map[string]interface{}

func leafJ(m member, verify bool) J { return J{"t": "leaf", "m": m.name(), "verify": verify} }

type builder struct {
	r       *rand.Rand
	members map[string]member
	verify  map[string]bool
	dir     string
	groups  int
}

func (b *builder) newMember(name string, allowLocal bool) member {
	verify := b.r.Intn(4) != 0
	var m member
	if allowLocal && b.r.Intn(2) == 0 {
		m = newLoc(name, filepath.Join(b.dir, name), verify, b.r.Intn(2) == 0)
	} else {
		m = &mem{n: name, c: map[int]string{}, healthy: true, verify: verify}
	}
	b.members[name] = m
	b.verify[name] = verify
	return m
}

// returns the real store and its description
func (b *builder) up(depth int) (desync.Store, J) {
	switch x := b.r.Intn(5); {
	case x == 0 || depth > 1:
		m := b.newMember(fmt.Sprintf("m%d", len(b.members)+1), true)
		return m, leafJ(m, b.verify[m.name()])
	case x <= 2:
		n := 2 + b.r.Intn(2)
		var subs []desync.Store
		var js []interface{}
		for i := 0; i < n; i++ {
			s, j := b.up(depth + 1)
			subs = append(subs, s)
			js = append(js, j)
		}
		return desync.NewStoreRouter(subs...), J{"t": "router", "subs": js}
	default:
		n := 2 + b.r.Intn(2)
		var subs []desync.Store
		var js []interface{}
		for i := 0; i < n; i++ {
			m := b.newMember(fmt.Sprintf("m%d", len(b.members)+1), false)
			b.verify[m.name()] = true
			if mm, ok := m.(*mem); ok {
				mm.verify = true
			}
			subs = append(subs, m)
			js = append(js, leafJ(m, true))
		}
		b.groups++
		return desync.NewFailoverGroup(subs...), J{"t": "failover", "g": b.groups, "subs": js}
	}
}

func (b *builder) chain() (desync.Store, J, bool) {
	if b.r.Intn(6) == 0 { // a writable single store behind the swap wrapper
		m := b.newMember("m1", true)
		return desync.NewSwapWriteStore(m), J{"t": "wrap", "s": leafJ(m, b.verify["m1"])}, true
	}
	s, j := b.up(0)
	if b.r.Intn(3) != 0 {
		lm := b.newMember(fmt.Sprintf("m%d", len(b.members)+1), true)
		repair := b.r.Intn(2) == 0
		var l desync.WriteStore = lm
		if repair {
			l = desync.NewRepairableCache(lm)
		}
		s, j = desync.NewCache(s, l), J{"t": "cache", "up": j, "local": leafJ(lm, b.verify[lm.name()]), "repair": repair}
	}
	switch b.r.Intn(3) {
	case 0:
		s, j = desync.NewDedupQueue(s), J{"t": "wrap", "s": j}
	case 1:
		s, j = desync.NewSwapStore(s), J{"t": "wrap", "s": j}
	}
	return s, j, false
}

func classGet(c *desync.Chunk, err error, id int) string {
	if err != nil {
		var in desync.ChunkInvalid
		switch {
		case isMissing(err):
			return "missing"
		case errors.As(err, &in):
			return "invalid"
		}
		return "error"
	}
	d, derr := c.Data()
	if derr != nil {
		return "invalid"
	}
	if !bytes.Equal(d, datas[id]) {
		return "okbad"
	}
	return "ok"
}

func snapshot(ms map[string]member) J {
	out := J{}
	for n, m := range ms {
		out[n] = J{"1": m.state(1), "2": m.state(2), "3": m.state(3)}
	}
	return out
}

func healthyList(ms []*mem) []bool {
	out := []bool{}
	for _, m := range ms {
		out = append(out, m.healthy)
	}
	return out
}

// isMissing: "missing" is recognised the way desync's own consumers do it (router, cache, failover group, HTTP handler,
// protocol server): by the error's dynamic type, not through a chain of wrapped errors
func isMissing(err error) bool {
	_, ok := err.(desync.ChunkMissing)
	return ok
}

func main() {
	seed := flag.Int64("seed", 1, "seed")
	n := flag.Int("n", 300, "scenarios")
	ops := flag.Int("ops", 25, "operations per scenario")
	conc := flag.Int("conc", 30, "concurrent scenarios")
	out := flag.String("out", "", "trace output")
	dir := flag.String("dir", "", "scratch directory")
	flag.Parse()
	w, err := trace.Create(*out)
	if err != nil {
		fmt.Fprintln(os.Stderr, err)
		os.Exit(2)
	}
	r := rand.New(rand.NewSource(*seed))
	contents := []string{"absent", "good", "good", "corrupt"}
	for sc := 1; sc <= *n; sc++ {
		os.RemoveAll(*dir)
		b := &builder{r: r, members: map[string]member{}, verify: map[string]bool{}, dir: *dir}
		s, j, writable := b.chain()
		for _, m := range b.members {
			for id := 1; id <= 3; id++ {
				m.set(id, contents[r.Intn(len(contents))])
			}
		}
		mj := J{}
		for nme, m := range b.members {
			mj[nme] = J{"c": J{"1": m.state(1), "2": m.state(2), "3": m.state(3)}, "healthy": true}
		}
		w.Emit(trace.M("ev", "reset", "scen", sc, "chain", j, "members", mj))
		names := []string{}
		for nme := range b.members {
			names = append(names, nme)
		}
		for o := 0; o < *ops; o++ {
			id := 1 + r.Intn(3)
			switch x := r.Intn(10); {
			case x == 0:
				m := b.members[names[r.Intn(len(names))]]
				if _, ok := m.(*mem); ok {
					h := !m.isHealthy()
					m.setHealthy(h)
					w.Emit(trace.M("ev", "set", "what", "health", "m", m.name(), "healthy", h))
				}
			case x == 1:
				m := b.members[names[r.Intn(len(names))]]
				c := contents[r.Intn(len(contents))]
				m.set(id, c)
				w.Emit(trace.M("ev", "set", "what", "content", "m", m.name(), "id", id, "content", m.state(id)))
			default:
				for _, m := range b.members {
					m.takeCalls()
				}
				kind, res := "get", ""
				switch {
				case writable && x == 2:
					kind = "put"
					err := s.(desync.WriteStore).StoreChunk(desync.NewChunk(datas[id]))
					res = "ok"
					if err != nil {
						res = "error"
					}
				case x <= 4:
					kind = "has"
					ok, err := s.HasChunk(ids[id])
					res = fmt.Sprint(ok)
					if err != nil {
						res = "error"
					}
				default:
					c, err := s.GetChunk(ids[id])
					res = classGet(c, err, id)
				}
				called := []string{}
				for nme, m := range b.members {
					if m.takeCalls() {
						called = append(called, nme)
					}
				}
				w.Emit(trace.M("ev", "op", "kind", kind, "id", id, "res", res, "called", called, "after", snapshot(b.members)))
			}
		}
	}
	// ---- concurrent part 1: Swap under load
	for cs := 1; cs <= *conc; cs++ {
		s := sched.New(&sched.Random{R: rand.New(rand.NewSource(*seed*131 + int64(cs)))}, map[string]sched.Kind{})
		s.Watchdog = 15 * time.Millisecond
		old := &mem{n: "old", c: map[int]string{1: "good", 2: "good", 3: "good"}, healthy: true, verify: true, hook: s.Hook}
		nw := &mem{n: "new", c: map[int]string{1: "good", 2: "good", 3: "good"}, healthy: true, verify: true, hook: s.Hook}
		sw := desync.NewSwapWriteStore(old)
		var mu sync.Mutex
		results := []string{}
		_, herr := s.Run(func() {
			var wg sync.WaitGroup
			for i := 0; i < 4; i++ {
				wg.Add(1)
				go func(i int) {
					defer wg.Done()
					s.Name(fmt.Sprintf("r%d", i+1))
					for k := 0; k < 2; k++ {
						s.Hook("req.call")
						var res string
						if (i+k)%3 == 2 {
							if err := sw.StoreChunk(desync.NewChunk(datas[1])); err != nil {
								res = "error"
							} else {
								res = "ok"
							}
						} else {
							c, err := sw.GetChunk(ids[1+(i+k)%3])
							res = classGet(c, err, 1+(i+k)%3)
						}
						mu.Lock()
						results = append(results, res)
						mu.Unlock()
					}
					s.Leave()
				}(i)
			}
			wg.Add(1)
			go func() {
				defer wg.Done()
				s.Name("swapper")
				s.Hook("swap.call")
				sw.Swap(nw)
				s.Leave()
			}()
			wg.Wait()
		})
		w.Emit(trace.M("ev", "reset", "scen", *n+cs, "chain", J{"t": "wrap", "s": J{"t": "leaf", "m": "old", "verify": true}},
			"members", J{"old": J{"c": J{"1": "good", "2": "good", "3": "good"}, "healthy": true}}, "concurrent", "swap"))
		okAll := herr == nil
		what := "swap under load: every in-flight request succeeds"
		for _, rs := range results {
			if rs != "ok" {
				okAll = false
				what = "a request failed or was corrupted while the store was swapped: " + rs
			}
		}
		if len(old.abuse)+len(nw.abuse) > 0 {
			okAll = false
			what = "swap: " + fmt.Sprint(append(old.abuse, nw.abuse...))
		}
		if herr != nil {
			what = "swap under load did not finish (deadlock)"
		}
		w.Emit(trace.M("ev", "conc", "ok", okAll, "what", what))
	}
	// ---- concurrent part 2: concurrent requests on a failover group with one failing member
	for cs := 1; cs <= 8**conc; cs++ { // these scenarios are cheap (about a millisecond each)
		s := sched.New(&sched.Random{R: rand.New(rand.NewSource(*seed*137 + int64(cs)))}, map[string]sched.Kind{})
		ms := []*mem{}
		var stores []desync.Store
		nm := 2 + r.Intn(3)
		bad := r.Intn(nm)
		onlyHealthy := -1 // every second scenario: all members but one are failing
		if cs%2 == 0 {
			nm = 3 + r.Intn(2)
			onlyHealthy = r.Intn(nm)
			if r.Intn(10) < 6 {
				onlyHealthy = nm - 1 // the longest way round
			}
		}
		for i := 0; i < nm; i++ {
			healthy := i != bad
			if onlyHealthy >= 0 {
				healthy = i == onlyHealthy
			}
			m := &mem{n: fmt.Sprintf("f%d", i+1), c: map[int]string{1: "good", 2: "good", 3: "absent"}, healthy: healthy, verify: true, hook: s.Hook}
			ms = append(ms, m)
			stores = append(stores, m)
		}
		fg := desync.NewFailoverGroup(stores...)
		var mu sync.Mutex
		okAll, what := true, "failover: requests succeed while one member stays healthy, missing stays missing"
		s.FailoverSteps = true
		desync.VerifHook = s.Hook
		_, herr := s.Run(func() {
			var wg sync.WaitGroup
			for i := 0; i < 4; i++ {
				wg.Add(1)
				go func(i int) {
					defer wg.Done()
					s.Name(fmt.Sprintf("r%d", i+1))
					for k := 0; k < 2; k++ {
						s.Hook("req.call")
						id := 1 + (i+k)%3
						c, err := fg.GetChunk(ids[id])
						res := classGet(c, err, id)
						want := "ok"
						if id == 3 {
							want = "missing"
						}
						mu.Lock()
						// with all-but-one members failing the group may legitimately give up after len(stores) attempts
						// only if those attempts all hit failing members; with exactly one failing member that cannot happen
						if res != want {
							okAll = false
							what = fmt.Sprintf("failover group with %d members (healthy: %v) answered %s for a chunk whose healthy members answer %s", nm, healthyList(ms), res, want)
						}
						mu.Unlock()
					}
					s.Leave()
				}(i)
			}
			wg.Wait()
		})
		desync.VerifHook = nil
		if herr != nil {
			okAll, what = false, "concurrent failover requests did not finish"
		}
		w.Emit(trace.M("ev", "reset", "scen", *n+*conc+cs, "chain", J{"t": "wrap", "s": J{"t": "leaf", "m": "f1", "verify": true}},
			"members", J{"f1": J{"c": J{"1": "good", "2": "good", "3": "absent"}, "healthy": true}}, "concurrent", "failover"))
		w.Emit(trace.M("ev", "conc", "ok", okAll, "what", what))
	}
	if err := w.Close(); err != nil {
		fmt.Fprintln(os.Stderr, err)
		os.Exit(2)
	}
	fmt.Printf("scenarios=%d concurrent=%d events=%d\n", *n, 9**conc, w.N)
}
