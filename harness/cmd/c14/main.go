// c14 runs the real HTTP clients against a scripted server (every response script up to a length, several retry
// budgets), the real client/handler pairs in every compression combination, and the real RemoteSSH store against
// the real `desync pull` (through a fake ssh). Records for Trace_HttpRetry.tla.
package main

import (
	"bytes"
	"context"
	"errors"
	"flag"
	"fmt"
	"io"
	"math/rand"
	"net"
	"net/http"
	"net/http/httptest"
	"net/url"
	"os"
	"path/filepath"
	"strings"
	"sync"
	"time"

	"github.com/folbricht/desync"

	"verif/harness/trace"
)

type script struct {
	mu       sync.Mutex
	resp     []string
	n        int
	payload  []byte // body of 200 answers to GET
	lastBody []byte // body of the last non-transient request (PUT)
}

func (s *script) ServeHTTP(w http.ResponseWriter, r *http.Request) {
	body, _ := io.ReadAll(r.Body)
	s.mu.Lock()
	s.n++
	resp := "200"
	if s.n <= len(s.resp) {
		resp = s.resp[s.n-1]
	}
	s.mu.Unlock()
	switch resp {
	case "reset":
		if hj, ok := w.(http.Hijacker); ok {
			c, _, _ := hj.Hijack()
			if tc, ok := c.(*net.TCPConn); ok {
				tc.SetLinger(0)
			}
			c.Close()
		}
		return
	case "short":
		w.Header().Set("Content-Length", fmt.Sprint(len(s.payload)+100))
		w.WriteHeader(200)
		w.Write(s.payload[:len(s.payload)/2])
		if hj, ok := w.(http.Hijacker); ok {
			c, bw, _ := hj.Hijack()
			bw.Flush()
			c.Close()
		}
		return
	}
	s.mu.Lock()
	s.lastBody = body
	s.mu.Unlock()
	code := 200
	fmt.Sscan(resp, &code)
	w.WriteHeader(code)
	if code == 200 && r.Method == "GET" {
		w.Write(s.payload)
	}
}

type modeStore struct {
	mode string
	data []byte
}

func (m *modeStore) GetChunk(id desync.ChunkID) (*desync.Chunk, error) {
	switch m.mode {
	case "ok":
		return desync.NewChunk(m.data), nil
	case "missing":
		return nil, desync.ChunkMissing{ID: id}
	case "invalid":
		return nil, desync.ChunkInvalid{ID: id}
	}
	return nil, errors.New("i/o error in the served store")
}
func (m *modeStore) HasChunk(desync.ChunkID) (bool, error) { return true, nil }
func (m *modeStore) Close() error                          { return nil }
func (m *modeStore) String() string                        { return "mode" }

func classErr(err error) string {
	switch {
	case err == nil:
		return "ok"
	case isType(err), os.IsNotExist(err):
		return "missing"
	}
	return "error"
}

// by dynamic type, as desync's consumers recognise "missing"
func isType(err error) bool {
	switch err.(type) {
	case desync.ChunkMissing, desync.NoSuchObject:
		return true
	}
	return false
}

func main() {
	seed := flag.Int64("seed", 1, "seed")
	maxLen := flag.Int("maxlen", 3, "scripts up to this length are enumerated")
	sample := flag.Int("sample", 300, "random longer scripts")
	out := flag.String("out", "", "trace output")
	dir := flag.String("dir", "", "scratch dir")
	desyncBin := flag.String("desync", "", "desync binary (for the casync protocol part)")
	flag.Parse()
	w, err := trace.Create(*out)
	if err != nil {
		fmt.Fprintln(os.Stderr, err)
		os.Exit(2)
	}
	r := rand.New(rand.NewSource(*seed))
	os.MkdirAll(*dir, 0755)
	data := bytes.Repeat([]byte("the chunk payload "), 40)
	chunk := desync.NewChunk(data)
	comp, _ := desync.Compress(data)
	idx := desync.Index{Index: desync.FormatIndex{FeatureFlags: desync.CaFormatExcludeNoDump | desync.CaFormatSHA512256, ChunkSizeMin: 1, ChunkSizeAvg: 2, ChunkSizeMax: 100000},
		Chunks: []desync.IndexChunk{{ID: chunk.ID(), Start: 0, Size: uint64(len(data))}}}
	var ib bytes.Buffer
	idx.WriteTo(&ib)

	responses := []string{"200", "201", "404", "400", "403", "500", "503", "reset", "short"}
	var scripts [][]string
	var rec func(cur []string)
	rec = func(cur []string) {
		scripts = append(scripts, append([]string{}, cur...))
		if len(cur) == *maxLen {
			return
		}
		for _, x := range responses {
			rec(append(cur, x))
		}
	}
	rec(nil)
	for i := 0; i < *sample; i++ {
		n := *maxLen + 1 + r.Intn(4)
		s := make([]string, n)
		for j := range s {
			s[j] = responses[r.Intn(len(responses))]
			if r.Intn(2) == 0 {
				s[j] = []string{"500", "503", "reset", "short"}[r.Intn(4)]
			}
		}
		scripts = append(scripts, s)
	}
	sc := &script{}
	srv := httptest.NewUnstartedServer(sc)
	srv.Config.SetKeepAlivesEnabled(false)
	srv.Start()
	defer srv.Close()
	u, _ := url.Parse(srv.URL + "/")
	n := 0
	type opk struct{ kind, op string }
	ops := []opk{{"chunk", "get"}, {"chunk", "has"}, {"chunk", "put"}, {"index", "get"}, {"index", "put"}, {"chunknoverify", "get"}, {"indexreader", "get"}}
	for si, s := range scripts {
		for _, R := range []int{0, 1, 2, 3, 5} {
			// all ops for short scripts, one random op for the rest
			these := ops
			if len(s) > 2 || si%3 != 0 {
				these = []opk{ops[r.Intn(len(ops))]}
			}
			for _, o := range these {
				opt := desync.StoreOptions{ErrorRetry: R, ErrorRetryBaseInterval: time.Nanosecond}
				sc.mu.Lock()
				sc.resp, sc.n, sc.lastBody = s, 0, nil
				if o.kind == "chunk" || o.kind == "chunknoverify" {
					sc.payload = comp
				} else {
					sc.payload = ib.Bytes()
				}
				sc.mu.Unlock()
				res, dataok := "", true
				if o.kind == "indexreader" { // the raw index reader: no parsing that could turn an empty answer into an error
					st, err := desync.NewRemoteHTTPIndexStore(u, opt)
					if err != nil {
						panic(err)
					}
					rd, err := st.GetIndexReader("x.caibx")
					res = classErr(err)
					if err == nil {
						b, rerr := io.ReadAll(rd)
						rd.Close()
						dataok = rerr == nil && bytes.Equal(b, ib.Bytes())
					}
				} else if o.kind == "chunk" || o.kind == "chunknoverify" {
					opt.SkipVerify = o.kind == "chunknoverify" // a hop that does not verify (the chunk server's default for its upstream)
					st, err := desync.NewRemoteHTTPStore(u, opt)
					if err != nil {
						panic(err)
					}
					switch o.op {
					case "get":
						c, err := st.GetChunk(chunk.ID())
						res = classErr(err)
						if err == nil {
							d, derr := c.Data()
							dataok = derr == nil && bytes.Equal(d, data)
						}
					case "has":
						ok, err := st.HasChunk(chunk.ID())
						res = fmt.Sprint(ok)
						if err != nil {
							res = "error"
						}
					case "put":
						err := st.StoreChunk(desync.NewChunk(data))
						res = classErr(err)
						if err == nil {
							sc.mu.Lock()
							d, derr := desync.Decompress(nil, sc.lastBody)
							dataok = derr == nil && bytes.Equal(d, data)
							sc.mu.Unlock()
						}
					}
				} else {
					st, err := desync.NewRemoteHTTPIndexStore(u, opt)
					if err != nil {
						panic(err)
					}
					switch o.op {
					case "get":
						ix, err := st.GetIndex("x.caibx")
						res = classErr(err)
						if err == nil {
							dataok = len(ix.Chunks) == 1 && ix.Chunks[0].ID == chunk.ID() && ix.Chunks[0].Size == uint64(len(data))
						}
					case "put":
						err := st.StoreIndex("x.caibx", idx)
						res = classErr(err)
						if err == nil {
							sc.mu.Lock()
							dataok = bytes.Equal(sc.lastBody, ib.Bytes())
							sc.mu.Unlock()
						}
					}
				}
				sc.mu.Lock()
				attempts := sc.n
				sc.mu.Unlock()
				w.Emit(trace.M("ev", "retry", "kind", o.kind, "op", o.op, "R", R, "script", s, "res", res, "attempts", attempts, "dataok", dataok))
				n++
			}
		}
	}
	// ---- compression matrix with the real handler
	for _, clientComp := range []bool{true, false} {
		for _, serverComp := range []bool{true, false} {
			for _, upComp := range []bool{true, false} {
				for _, verify := range []bool{true, false} {
					sdir := filepath.Join(*dir, "up")
					os.RemoveAll(sdir)
					os.MkdirAll(sdir, 0755)
					up, _ := desync.NewLocalStore(sdir, desync.StoreOptions{Uncompressed: !upComp})
					up.StoreChunk(desync.NewChunk(data))
					var conv desync.Converters
					if serverComp {
						conv = desync.Converters{desync.Compressor{}}
					}
					hs := httptest.NewServer(desync.NewHTTPHandler(up, true, false, conv, ""))
					hu, _ := url.Parse(hs.URL + "/")
					cl, err := desync.NewRemoteHTTPStore(hu, desync.StoreOptions{Uncompressed: !clientComp, SkipVerify: !verify})
					if err != nil {
						panic(err)
					}
					c, err := cl.GetChunk(chunk.ID())
					res, dataok := classErr(err), true
					if err == nil {
						d, derr := c.Data()
						dataok = derr == nil && bytes.Equal(d, data)
						if !dataok {
							res = "okbad"
						}
					}
					w.Emit(trace.M("ev", "matrix", "op", "get", "clientcomp", clientComp, "servercomp", serverComp, "upstreamcomp", upComp, "verify", verify, "res", res, "dataok", dataok))
					// upload a second chunk and read it back from the upstream store directly
					d2 := bytes.Repeat([]byte("second chunk "), 30+r.Intn(20))
					err = cl.StoreChunk(desync.NewChunk(d2))
					res, dataok = classErr(err), true
					if err == nil {
						c2, gerr := up.GetChunk(desync.NewChunk(d2).ID())
						if gerr != nil {
							dataok = false
						} else {
							got, derr := c2.Data()
							dataok = derr == nil && bytes.Equal(got, d2)
						}
						if !dataok {
							res = "okbad"
						}
					}
					w.Emit(trace.M("ev", "matrix", "op", "put", "clientcomp", clientComp, "servercomp", serverComp, "upstreamcomp", upComp, "verify", verify, "res", res, "dataok", dataok))
					// upload chunks that were read from a store of either format (they carry their stored bytes)
					for _, srcComp := range []bool{true, false} {
						srcDir := filepath.Join(*dir, "src")
						os.RemoveAll(srcDir)
						os.MkdirAll(srcDir, 0755)
						src, _ := desync.NewLocalStore(srcDir, desync.StoreOptions{Uncompressed: !srcComp})
						d3 := bytes.Repeat([]byte(fmt.Sprintf("third chunk %v ", srcComp)), 40+r.Intn(20))
						src.StoreChunk(desync.NewChunk(d3))
						c3, gerr := src.GetChunk(desync.NewChunk(d3).ID())
						if gerr != nil {
							panic(gerr)
						}
						err = cl.StoreChunk(c3)
						res, dataok = classErr(err), true
						if err == nil {
							c4, gerr := up.GetChunk(desync.NewChunk(d3).ID())
							if gerr != nil {
								dataok = false
							} else {
								got, derr := c4.Data()
								dataok = derr == nil && bytes.Equal(got, d3)
							}
							if !dataok {
								res = "okbad"
							}
						}
						w.Emit(trace.M("ev", "matrix", "op", "putfrom", "srccomp", srcComp, "clientcomp", clientComp, "servercomp", serverComp, "upstreamcomp", upComp, "verify", verify, "res", res, "dataok", dataok))
						n++
					}
					hs.Close()
					// a damaged upstream object, read by the server without verification (the chunk server's default)
					for _, damage := range []string{"garbage", "empty", "truncated"} {
						ddir := filepath.Join(*dir, "updamaged")
						os.RemoveAll(ddir)
						os.MkdirAll(ddir, 0755)
						upv, _ := desync.NewLocalStore(ddir, desync.StoreOptions{Uncompressed: !upComp})
						upv.StoreChunk(desync.NewChunk(data))
						var objPath string
						filepath.Walk(ddir, func(p string, info os.FileInfo, err error) error {
							if err == nil && !info.IsDir() {
								objPath = p
							}
							return nil
						})
						ob, _ := os.ReadFile(objPath)
						switch damage {
						case "garbage":
							ob = []byte("this is neither a zstd frame nor the chunk")
						case "empty":
							ob = nil
						case "truncated":
							ob = ob[:len(ob)/2]
						}
						os.WriteFile(objPath, ob, 0644)
						upd, _ := desync.NewLocalStore(ddir, desync.StoreOptions{Uncompressed: !upComp, SkipVerify: true})
						hd := httptest.NewServer(desync.NewHTTPHandler(upd, false, true, conv, ""))
						hdu, _ := url.Parse(hd.URL + "/")
						cld, _ := desync.NewRemoteHTTPStore(hdu, desync.StoreOptions{Uncompressed: !clientComp, SkipVerify: !verify, ErrorRetry: 1})
						c5, err := cld.GetChunk(chunk.ID())
						res = classErr(err)
						if err == nil {
							d5, derr := c5.Data() // a non-verifying client decodes lazily: the failure surfaces here
							if derr != nil {
								res = "error"
							} else if !bytes.Equal(d5, data) {
								res = "okbad"
							}
						}
						// what the server itself answers (the client may turn a wrong answer into an error of its own)
						raw := 0
						cid := chunk.ID()
						ext := ".cacnk"
						if !serverComp {
							ext = ""
						}
						if resp, rerr := http.Get(hd.URL + "/" + cid.String()[:4] + "/" + cid.String() + ext); rerr == nil {
							raw = resp.StatusCode
							resp.Body.Close()
						}
						w.Emit(trace.M("ev", "matrixdamaged", "damage", damage, "clientcomp", clientComp, "servercomp", serverComp, "upstreamcomp", upComp, "verify", verify, "res", res, "rawstatus", raw))
						hd.Close()
						n++
					}
					n += 2
				}
			}
		}
	}
	// ---- casync protocol: the real RemoteSSH store against the real `desync pull` behind a fake ssh
	if *desyncBin != "" {
		sdir := filepath.Join(*dir, "sshstore")
		os.RemoveAll(sdir)
		os.MkdirAll(sdir, 0755)
		ls, _ := desync.NewLocalStore(sdir, desync.StoreOptions{})
		ls.StoreChunk(desync.NewChunk(data))
		d3 := bytes.Repeat([]byte("third "), 50)
		ls.StoreChunk(desync.NewChunk(d3))
		missing := desync.NewChunk([]byte("not in the store")).ID()
		ssh := filepath.Join(*dir, "fakessh.sh")
		os.WriteFile(ssh, []byte("#!/bin/sh\nshift\nexec sh -c \"$1\"\n"), 0755)
		os.Setenv("CASYNC_SSH_PATH", ssh)
		os.Setenv("CASYNC_REMOTE_PATH", *desyncBin)
		su, _ := url.Parse("ssh://localhost" + sdir)
		for _, sessions := range []int{1, 2} {
			rs, err := desync.NewRemoteSSHStore(su, desync.StoreOptions{N: sessions})
			if err != nil {
				w.Emit(trace.M("ev", "proto", "step", "connect", "res", "error", "want", "ok"))
				continue
			}
			get := func(id desync.ChunkID, want []byte) string {
				done := make(chan string, 1)
				go func() {
					c, err := rs.GetChunk(id)
					if err != nil {
						done <- classErr(err)
						return
					}
					d, derr := c.Data()
					if derr != nil || !bytes.Equal(d, want) {
						done <- "okbad"
						return
					}
					done <- "ok"
				}()
				select {
				case s := <-done:
					return s
				case <-time.After(10 * time.Second):
					return "hang"
				}
			}
			step := func(name, res, want string) {
				w.Emit(trace.M("ev", "proto", "step", fmt.Sprintf("%s (sessions=%d)", name, sessions), "res", res, "want", want))
				n++
			}
			step("existing chunk arrives unchanged", get(chunk.ID(), data), "ok")
			step("missing chunk is reported as missing", get(missing, nil), "missing")
			for k := 0; k < sessions+1; k++ {
				step("after a missing chunk the session still delivers existing chunks", get(desync.NewChunk(d3).ID(), d3), "ok")
			}
			has := func(id desync.ChunkID) string {
				done := make(chan string, 1)
				go func() {
					ok, err := rs.HasChunk(id)
					if err != nil {
						done <- "error"
					} else {
						done <- fmt.Sprint(ok)
					}
				}()
				select {
				case s := <-done:
					return s
				case <-time.After(10 * time.Second):
					return "hang"
				}
			}
			// a consumer (the chunk server's handler, a cache) may hold a delivered chunk while the same session
			// delivers others, larger and smaller: what it holds stays what was delivered
			held := func() string {
				done := make(chan string, 1)
				go func() {
					order := [][]byte{data, d3, data, d3, d3}
					var got []*desync.Chunk
					for _, b := range order {
						c, err := rs.GetChunk(desync.NewChunk(b).ID())
						if err != nil {
							done <- classErr(err)
							return
						}
						got = append(got, c)
						if _, err := rs.GetChunk(missing); err == nil {
							done <- "present"
							return
						}
					}
					for i, c := range got {
						d, derr := c.Data()
						if derr != nil || !bytes.Equal(d, order[i]) {
							done <- "okbad"
							return
						}
					}
					done <- "ok"
				}()
				select {
				case s := <-done:
					return s
				case <-time.After(20 * time.Second):
					return "hang"
				}
			}
			step("chunks held while the session delivers further chunks stay unchanged", held(), "ok")
			step("HasChunk of a missing chunk is false without an error", has(missing), "false")
			step("HasChunk of an existing chunk is true", has(chunk.ID()), "true")
			// last (the server ends the session on a store failure): a chunk the server's store cannot read (its file
			// is a directory) is a failure, not "missing"
			bad := desync.NewChunk([]byte("unreadable on the server")).ID()
			bs := bad.String()
			os.MkdirAll(filepath.Join(sdir, bs[:4], bs+".cacnk"), 0755)
			step("a store failure on the server is reported as a failure, not as missing", get(bad, nil), "error")
		}
	}
	// ---- index transport end to end: the real index handler over a local index store, the real HTTP index client
	{
		idir := filepath.Join(*dir, "indexes")
		os.RemoveAll(idir)
		os.MkdirAll(idir, 0755)
		lis, err := desync.NewLocalIndexStore(idir)
		if err != nil {
			panic(err)
		}
		if err := lis.StoreIndex("present.caibx", idx); err != nil {
			panic(err)
		}
		os.WriteFile(filepath.Join(idir, "garbage.caibx"), []byte("this is not an index"), 0644)
		os.MkdirAll(filepath.Join(idir, "dir.caibx"), 0755)
		for _, writable := range []bool{false, true} {
			isrv := httptest.NewServer(desync.NewHTTPIndexHandler(lis, writable, ""))
			iu, _ := url.Parse(isrv.URL + "/")
			ic, err := desync.NewRemoteHTTPIndexStore(iu, desync.StoreOptions{ErrorRetry: 0})
			if err != nil {
				panic(err)
			}
			step := func(name, res, want string) {
				w.Emit(trace.M("ev", "proto", "step", fmt.Sprintf("index server (writable: %v): %s", writable, name), "res", res, "want", want))
				n++
			}
			ix, err := ic.GetIndex("present.caibx")
			res := classErr(err)
			if err == nil && !(len(ix.Chunks) == len(idx.Chunks) && ix.Chunks[0].ID == idx.Chunks[0].ID) {
				res = "okbad"
			}
			step("an index that is there arrives unchanged", res, "ok")
			_, err = ic.GetIndex("absent.caibx")
			step("GetIndex of an index that is not there reports it missing", classErr(err), "missing")
			rd, err := ic.GetIndexReader("absent.caibx")
			if err == nil {
				rd.Close()
			}
			step("GetIndexReader of an index that is not there reports it missing", classErr(err), "missing")
			_, err = ic.GetIndex("garbage.caibx")
			step("an index file that cannot be decoded is a failure, not missing", classErr(err), "error")
			_, err = ic.GetIndex("dir.caibx")
			step("an index name that cannot be read (a directory) is a failure, not missing", classErr(err), "error")
			if writable {
				err = ic.StoreIndex("uploaded.caibx", idx)
				step("upload of an index", classErr(err), "ok")
				ix2, err := lis.GetIndex("uploaded.caibx")
				res = classErr(err)
				if err == nil && !(len(ix2.Chunks) == len(idx.Chunks) && ix2.Chunks[0].ID == idx.Chunks[0].ID) {
					res = "okbad"
				}
				step("the uploaded index is in the store, unchanged", res, "ok")
			} else {
				err = ic.StoreIndex("refused.caibx", idx)
				step("upload to a read-only index server is refused", classErr(err), "error")
			}
			isrv.Close()
		}
	}
	// ---- casync protocol, in process: the real ProtocolServer over a store that fails / misses / delivers
	for _, mode := range []string{"ok", "missing", "fails", "invalid"} {
		cr, sw := io.Pipe()
		sr, cw := io.Pipe()
		srv := desync.NewProtocolServer(sr, sw, &modeStore{mode: mode, data: data})
		go func() { srv.Serve(context.Background()); sw.Close(); sr.Close() }()
		cl := desync.NewProtocol(cr, cw)
		res := "error"
		if _, err := cl.Initialize(desync.CaProtocolPullChunks); err == nil {
			c, err := cl.RequestChunk(chunk.ID())
			res = classErr(err)
			if err == nil {
				d, derr := c.Data()
				if derr != nil || !bytes.Equal(d, data) {
					res = "okbad"
				}
			}
		}
		cw.Close()
		cr.Close()
		want := map[string]string{"ok": "ok", "missing": "missing", "fails": "error", "invalid": "error"}[mode]
		w.Emit(trace.M("ev", "proto", "step", "in-process server over a store that answers '"+mode+"'", "res", res, "want", want))
		n++
	}
	if err := w.Close(); err != nil {
		fmt.Fprintln(os.Stderr, err)
		os.Exit(2)
	}
	_ = strings.Join
	fmt.Printf("records=%d scripts=%d\n", n, len(scripts))
}
