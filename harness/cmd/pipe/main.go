// pipe drives the real ChopFile / Copy / ChunkStream under the gate scheduler over a gated, fault-injecting
// store (wrapping a real LocalStore) and records an NDJSON trace for Trace_Pipeline.tla. Per instance it
// runs: an undisturbed schedule, every single-fault plan ("the k-th store call fails"), sampled double faults,
// and cancellation at every event (or sampled).
package main

import (
	"bytes"
	"context"
	"crypto/sha512"
	"encoding/json"
	"errors"
	"flag"
	"fmt"
	"math/rand"
	"os"
	"path/filepath"
	"time"

	"github.com/folbricht/desync"

	"verif/harness/fakes"
	"verif/harness/oracle"
	"verif/harness/sched"
	"verif/harness/trace"
)

type instance struct {
	Mode          string
	Data          []byte   // the blob
	File          []byte   // what is on disk (differs from Data when the input is damaged)
	Chunks        [][2]int // start, size
	IDs           []desync.ChunkID
	IDNum         map[desync.ChunkID]int
	Jobs          []int // job -> small id
	Have          []int // ids already in the target store
	N             int
	Valid         bool
	Damage        string
	Min, Avg, Max uint64
}

func sum(b []byte) desync.ChunkID { return desync.ChunkID(sha512.Sum512_256(b)) }

func genVerify(r *rand.Rand, big bool) instance {
	in := instance{Mode: "verify", IDNum: map[desync.ChunkID]int{}, Valid: true, Damage: "none"}
	ns := []int{1, 2, 3, 4, 10, 64}
	in.N = ns[r.Intn(len(ns))]
	k := r.Intn(45)
	if big {
		k = r.Intn(700)
		in.N = 1 + r.Intn(64)
	}
	equal := r.Intn(2) == 0
	runs := r.Intn(3) == 0 // runs of identical consecutive chunks (zero sections, repeated content)
	pos := 0
	var prev []byte
	for j := 0; j < k; j++ {
		sz := 24 + r.Intn(40)
		if equal {
			sz = 32
		}
		b := make([]byte, sz)
		if runs && prev != nil && r.Intn(10) < 6 {
			b = append([]byte(nil), prev...)
			sz = len(b)
		} else if !(runs && r.Intn(4) == 0) { // otherwise: a block of zeros
			r.Read(b)
		}
		prev = b
		in.Data = append(in.Data, b...)
		in.Chunks = append(in.Chunks, [2]int{pos, sz})
		pos += sz
	}
	for _, c := range in.Chunks {
		id := sum(in.Data[c[0] : c[0]+c[1]])
		if _, ok := in.IDNum[id]; !ok {
			in.IDNum[id] = len(in.IDNum) + 1
		}
		in.IDs = append(in.IDs, id)
	}
	in.File = append([]byte(nil), in.Data...)
	switch d := r.Intn(6); {
	case d == 0 || k == 0 && d < 4:
	case d == 1 || d == 2: // one altered byte in chunk j
		j := r.Intn(k)
		c := in.Chunks[j]
		in.File[c[0]+r.Intn(c[1])] ^= byte(1 + r.Intn(255))
		in.Valid, in.Damage = false, fmt.Sprintf("flip in chunk %d of %d", j, k)
	case d == 3: // swapped equal-size chunks
		i, j := r.Intn(k), r.Intn(k)
		ci, cj := in.Chunks[i], in.Chunks[j]
		if i != j && ci[1] == cj[1] {
			a := append([]byte(nil), in.File[ci[0]:ci[0]+ci[1]]...)
			copy(in.File[ci[0]:], in.File[cj[0]:cj[0]+cj[1]])
			copy(in.File[cj[0]:], a)
			in.Valid, in.Damage = false, fmt.Sprintf("swapped chunks %d and %d of %d", i, j, k)
		}
	case d == 4: // truncated
		if len(in.File) > 0 {
			in.File = in.File[:len(in.File)-1-r.Intn(min(len(in.File), 70))]
			in.Valid, in.Damage = false, "truncated"
		}
	case d == 5: // extended
		in.File = append(in.File, make([]byte, 1+r.Intn(70))...)
		in.Valid, in.Damage = false, "extended"
	}
	in.Valid = bytes.Equal(in.File, in.Data) // swapping two identical chunks changes nothing
	return in
}

func genInstance(r *rand.Rand, mode string, big bool) instance {
	if mode == "verify" {
		return genVerify(r, big)
	}
	in := instance{Mode: mode, IDNum: map[desync.ChunkID]int{}, Valid: true}
	in.N = 1 + r.Intn(3)
	if big {
		in.N = 1 + r.Intn(8)
	}
	njobs := r.Intn(6)
	if big {
		njobs = r.Intn(24)
	}
	if mode == "stream" {
		// real chunker: repeating pattern data so that chunks repeat
		in.Min, in.Avg, in.Max = 48, 64, 64+uint64(r.Intn(128))
		pat := make([]byte, 100+r.Intn(200))
		r.Read(pat)
		size := r.Intn(int(in.Max) * (2 + njobs))
		if r.Intn(3) == 0 {
			size = int(in.Max)*10 + r.Intn(int(in.Max)*15) // more than one buffer fill of the chunker
		}
		d := make([]byte, size)
		for i := range d {
			d[i] = pat[i%len(pat)]
		}
		if r.Intn(3) == 0 {
			r.Read(d[:len(d)/2])
		}
		in.Data = d
		for _, c := range oracle.Chain(d, in.Min, in.Avg, in.Max) {
			in.Chunks = append(in.Chunks, [2]int{c[0], c[1]})
		}
	} else {
		// blocks from a small alphabet -> many duplicate chunks
		nalpha := 1 + r.Intn(3)
		alpha := make([][]byte, nalpha)
		for i := range alpha {
			alpha[i] = make([]byte, 40+r.Intn(60))
			r.Read(alpha[i])
		}
		pos := 0
		for j := 0; j < njobs; j++ {
			b := alpha[r.Intn(nalpha)]
			in.Data = append(in.Data, b...)
			in.Chunks = append(in.Chunks, [2]int{pos, len(b)})
			pos += len(b)
		}
	}
	for _, c := range in.Chunks {
		id := sum(in.Data[c[0] : c[0]+c[1]])
		if _, ok := in.IDNum[id]; !ok {
			in.IDNum[id] = len(in.IDNum) + 1
		}
		in.IDs = append(in.IDs, id)
		in.Jobs = append(in.Jobs, in.IDNum[id])
	}
	in.File = append([]byte(nil), in.Data...)
	// some ids are already in the target store
	seen := map[int]bool{}
	for _, j := range in.Jobs {
		if !seen[j] && r.Intn(4) == 0 {
			in.Have = append(in.Have, j)
		}
		seen[j] = true
	}
	// chop: sometimes the file does not belong to the index
	if mode == "chop" && len(in.File) > 0 && r.Intn(5) == 0 {
		in.File[r.Intn(len(in.File))] ^= 0x55
		in.Valid = false
	}
	return in
}

type plan struct {
	fail     map[int]bool
	cancelAt int
	policy   string
}

type outcome struct {
	events, calls int
	hang          *sched.HangError
	stats         sched.Stats
}

func runOne(num int, in instance, dir string, seed int64, p plan, w *trace.Writer) outcome {
	r := rand.New(rand.NewSource(seed))
	var pol sched.Policy
	if p.policy == "pct" {
		pol = sched.NewPCT(r, 3, 150)
	} else {
		pol = &sched.Random{R: r}
	}
	// fresh stores
	sdir := filepath.Join(dir, "store")
	srcdir := filepath.Join(dir, "src")
	os.RemoveAll(sdir)
	os.RemoveAll(srcdir)
	os.MkdirAll(sdir, 0755)
	os.MkdirAll(srcdir, 0755)
	ls, err := desync.NewLocalStore(sdir, desync.StoreOptions{})
	if err != nil {
		panic(err)
	}
	src, _ := desync.NewLocalStore(srcdir, desync.StoreOptions{})
	done := map[int]bool{}
	for i, c := range in.Chunks {
		ch := desync.NewChunk(in.Data[c[0] : c[0]+c[1]])
		if in.Mode == "copy" {
			src.StoreChunk(ch)
		}
		for _, h := range in.Have {
			if h == in.Jobs[i] && !done[h] {
				ls.StoreChunk(ch)
				done[h] = true
			}
		}
	}
	file := filepath.Join(dir, "blob")
	os.WriteFile(file, in.File, 0644)

	wn := 0
	s := sched.New(pol, map[string]sched.Kind{"pl.feed": sched.Block, "pl.leave": sched.Log, "pl.close": sched.Log,
		"pl.idle": sched.Block, "pl.exit": sched.Exit, "cs.mark": sched.Log, "cs.unmark": sched.Log, "result": sched.Log})
	s.NameFn = func(point string, kv []interface{}) string {
		if point == "pl.idle" || point == "pl.exit" {
			wn++
			return fmt.Sprintf("w%d", wn)
		}
		return ""
	}
	gs := &fakes.GatedStore{Inner: ls, Hook: s.Hook, Fail: p.fail}
	gsrc := &fakes.GatedStore{Inner: src, Hook: s.Hook, Fail: map[int]bool{}}
	ctx, cancel := context.WithCancel(context.Background())
	defer cancel()
	nev := 0
	s.OnEvent = func(e sched.Event) []sched.Event {
		nev++
		if p.cancelAt > 0 && nev == p.cancelAt {
			cancel()
			return []sched.Event{{G: "harness", Point: "cancel"}}
		}
		return nil
	}
	if p.cancelAt == 0 {
		cancel()
	}
	desync.VerifHook = s.Hook
	var rerr error
	var idx desync.Index
	log, herr := s.Run(func() {
		s.Name("main")
		switch in.Mode {
		case "chop":
			var chunks []desync.IndexChunk
			for i, c := range in.Chunks {
				chunks = append(chunks, desync.IndexChunk{ID: in.IDs[i], Start: uint64(c[0]), Size: uint64(c[1])})
			}
			rerr = desync.ChopFile(ctx, file, chunks, gs, in.N, desync.NewProgressBar(""))
		case "copy":
			rerr = desync.Copy(ctx, in.IDs, gsrc, gs, in.N, desync.NewProgressBar(""))
		case "verify":
			var chunks []desync.IndexChunk
			for i, c := range in.Chunks {
				chunks = append(chunks, desync.IndexChunk{ID: in.IDs[i], Start: uint64(c[0]), Size: uint64(c[1])})
			}
			rerr = desync.VerifyIndex(ctx, file, desync.Index{Chunks: chunks}, in.N, desync.NewProgressBar(""))
		case "stream":
			f, _ := os.Open(file)
			defer f.Close()
			c, err := desync.NewChunker(f, in.Min, in.Avg, in.Max)
			if err != nil {
				panic(err)
			}
			idx, rerr = desync.ChunkStream(ctx, c, gs, in.N)
		}
		s.Hook("result")
		s.Leave()
	})
	gone := s.WaitGone(5 * time.Second)
	desync.VerifHook = nil
	// what the file on disk looks like relative to the index, computed independently (SHA512/256 of each range)
	lenok := len(in.File) == len(in.Data)
	mism := []int{}
	for i, c := range in.Chunks {
		if c[0]+c[1] > len(in.File) || sum(in.File[c[0]:c[0]+c[1]]) != in.IDs[i] {
			mism = append(mism, i+1)
		}
	}
	w.Emit(trace.M("ev", "reset", "scen", num, "mode", in.Mode, "jobs", nonNil(in.Jobs), "nw", in.N, "have", nonNil(in.Have), "units", len(in.Chunks), "damage", in.Damage,
		"lenok", lenok, "mism", mism, "cancel", p.cancelAt, "faults", keys(p.fail)))
	if p.cancelAt == 0 {
		w.Emit(trace.M("ev", "cancel", "g", "harness"))
	}
	for _, e := range log {
		if e.Point == "result" {
			continue
		}
		m := map[string]interface{}{"ev": e.Point, "g": e.G}
		for j := 0; j+1 < len(e.KV); j += 2 {
			k := e.KV[j].(string)
			switch v := e.KV[j+1].(type) {
			case desync.ChunkID:
				m[k] = in.IDNum[v] // 0 if unknown
			default:
				m[k] = v
			}
		}
		w.Emit(m)
	}
	o := outcome{events: len(log), calls: gs.Calls + gsrc.Calls, stats: s.Stats}
	if herr != nil {
		o.hang = herr.(*sched.HangError)
		w.Emit(trace.M("ev", "hang", "scen", num))
		return o
	}
	_ = gone
	res := "ok"
	if rerr != nil {
		res = "error"
		if errors.As(rerr, &desync.Interrupted{}) {
			res = "interrupted"
		}
	}
	// read back the real store: every referenced chunk present and valid
	complete := true
	for _, id := range in.IDs {
		c, err := ls.GetChunk(id)
		if err != nil {
			complete = false
			break
		}
		if _, err := c.Data(); err != nil {
			complete = false
			break
		}
	}
	// a produced index must describe the input exactly
	indexok := true
	if in.Mode == "stream" && rerr == nil {
		if len(idx.Chunks) != len(in.Chunks) || idx.Length() != int64(len(in.Data)) {
			indexok = false
		} else {
			for i, c := range idx.Chunks {
				if int(c.Start) != in.Chunks[i][0] || int(c.Size) != in.Chunks[i][1] || !bytes.Equal(c.ID[:], in.IDs[i][:]) {
					indexok = false
				}
			}
		}
		f := idx.Index
		if f.ChunkSizeMin != in.Min || f.ChunkSizeAvg != in.Avg || f.ChunkSizeMax != in.Max {
			indexok = false
		}
	}
	w.Emit(trace.M("ev", "result", "g", "main", "res", res, "complete", complete, "indexok", indexok))
	return o
}

func nonNil(a []int) []int {
	if a == nil {
		return []int{}
	}
	return a
}
func keys(m map[int]bool) []int {
	out := []int{}
	for k := range m {
		out = append(out, k)
	}
	return out
}

func main() {
	seed := flag.Int64("seed", 1, "seed")
	n := flag.Int("n", 30, "instances per mode")
	modes := flag.String("modes", "chop,copy,stream", "modes")
	big := flag.Bool("big", false, "larger instances")
	maxPer := flag.Int("maxper", 40, "max fault/cancel scenarios per instance")
	kindsF := flag.String("kinds", "clean,fault1,fault2,cancel", "scenario kinds to run")
	out := flag.String("out", "", "trace output")
	meta := flag.String("meta", "", "summary output")
	dir := flag.String("dir", "", "scratch directory")
	flag.Parse()
	w, err := trace.Create(*out)
	if err != nil {
		fmt.Fprintln(os.Stderr, err)
		os.Exit(2)
	}
	r := rand.New(rand.NewSource(*seed))
	num := 0
	hangs := []map[string]interface{}{}
	tot := sched.Stats{}
	counts := map[string]int{}
	want := map[string]bool{}
	for _, k := range bytes.Split([]byte(*kindsF), []byte(",")) {
		want[string(k)] = true
	}
	for _, mode := range bytes.Split([]byte(*modes), []byte(",")) {
		for i := 0; i < *n; i++ {
			in := genInstance(r, string(mode), *big)
			run := func(p plan, kind string) outcome {
				num++
				counts[kind]++
				o := runOne(num, in, *dir, *seed*104729+int64(num), p, w)
				tot.Steps += o.stats.Steps
				tot.Unannounced += o.stats.Unannounced
				if o.hang != nil {
					hangs = append(hangs, map[string]interface{}{"scen": num, "parked": o.hang.Parked, "stacks": o.hang.Stacks})
				}
				return o
			}
			base := run(plan{fail: map[int]bool{}, cancelAt: -1, policy: "random"}, "clean")
			run(plan{fail: map[int]bool{}, cancelAt: -1, policy: "pct"}, "clean")
			// every single fault (bounded), sampled double faults
			ks := r.Perm(base.calls)
			for c, k := range ks {
				if c >= *maxPer/2 || !want["fault1"] {
					break
				}
				run(plan{fail: map[int]bool{k + 1: true}, cancelAt: -1, policy: []string{"random", "pct"}[c%2]}, "fault1")
			}
			for c := 0; c < 3 && base.calls >= 2 && want["fault2"]; c++ {
				run(plan{fail: map[int]bool{1 + r.Intn(base.calls): true, 1 + r.Intn(base.calls): true}, cancelAt: -1, policy: "random"}, "fault2")
			}
			// cancellation at every event (bounded)
			es := r.Perm(base.events + 1)
			for c, k := range es {
				if c >= *maxPer/2 || !want["cancel"] {
					break
				}
				run(plan{fail: map[int]bool{}, cancelAt: k, policy: []string{"random", "pct"}[c%2]}, "cancel")
			}
		}
	}
	if err := w.Close(); err != nil {
		fmt.Fprintln(os.Stderr, err)
		os.Exit(2)
	}
	b, _ := json.MarshalIndent(map[string]interface{}{"scenarios": num, "events": w.N, "hangs": hangs, "steps": tot.Steps,
		"unannounced": tot.Unannounced, "kinds": counts}, "", " ")
	if *meta != "" {
		os.WriteFile(*meta, b, 0644)
	}
	fmt.Printf("scenarios=%d events=%d hangs=%d steps=%d unannounced=%d kinds=%v\n", num, w.N, len(hangs), tot.Steps, tot.Unannounced, counts)
}
