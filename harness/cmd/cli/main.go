// cli drives the real desync binary end to end and records, per run, its exit status and what it left behind, for
// Trace_CliOutcome.tla. The library-level drivers decide the properties on the library entry points; this one binds the
// command glue in cmd/desync (option handling, seed discovery, store construction, error propagation to the exit status).
//
//	fault    chop / make / tar -i / cache against an HTTP chunk server that fails one URL persistently        (C06)
//	extract  extract with seeds, seed directories, in-place targets, stale seeds and the three invalid-seed modes (C01)
//	cat      cat with offsets and lengths                                                                      (C09)
//	verify   verify-index on equal / altered / truncated / extended blobs                                      (C17)
//	make     make with different worker counts and a library-made reference index                              (C02)
//	tar      tar / untar and tar -i / untar -i round trips                                                     (C05)
package main

import (
	"archive/tar"
	"bytes"
	"context"
	"crypto/sha256"
	"encoding/hex"
	"flag"
	"fmt"
	"io"
	"math/rand"
	"net"
	"net/http"
	"os"
	"os/exec"
	"path/filepath"
	"sort"
	"strings"
	"sync"
	"syscall"
	"time"

	"github.com/folbricht/desync"

	"verif/harness/fakes"
	"verif/harness/trace"
)

type J = map[string]interface{}

var (
	w      *trace.Writer
	binary string
)

func must(err error) {
	if err != nil {
		fmt.Fprintln(os.Stderr, "cli:", err)
		os.Exit(2)
	}
}

func mkdir(p string) string { os.RemoveAll(p); must(os.MkdirAll(p, 0755)); return p }

type result struct {
	exit   int
	hung   bool
	stdout []byte
	last   string
}

func run(args ...string) result { return runIn("", args...) }

// extraEnv is added to the environment of every command started by runIn (progress settings of the stdout families)
var extraEnv []string

// runIn runs the binary with the working directory cwd ("" = the driver's)
func runIn(cwd string, args ...string) result {
	cmd := exec.Command(binary, args...)
	cmd.Dir = cwd
	cmd.Env = append(append(os.Environ(), "HOME=/nonexistent"), extraEnv...)
	var so, se bytes.Buffer
	cmd.Stdout, cmd.Stderr = &so, &se
	must(cmd.Start())
	done := make(chan error, 1)
	go func() { done <- cmd.Wait() }()
	var err error
	r := result{}
	select {
	case err = <-done:
	case <-time.After(90 * time.Second):
		cmd.Process.Kill()
		err = <-done
		r.hung = true
	}
	if err != nil {
		r.exit = 1
		if ee, ok := err.(*exec.ExitError); ok && ee.ExitCode() > 0 {
			r.exit = ee.ExitCode()
		}
	}
	r.stdout = so.Bytes()
	s := strings.TrimSpace(se.String())
	if i := strings.LastIndexByte(s, '\n'); i >= 0 {
		s = s[i+1:]
	}
	if len(s) > 200 {
		s = s[:200]
	}
	r.last = s
	return r
}

func treeDigest(root string) string {
	var lines []string
	filepath.Walk(root, func(p string, info os.FileInfo, err error) error {
		if err != nil {
			return nil
		}
		rel, _ := filepath.Rel(root, p)
		switch {
		case info.Mode()&os.ModeSymlink != 0:
			t, _ := os.Readlink(p)
			lines = append(lines, "l "+rel+" "+t)
		case info.IsDir():
			lines = append(lines, fmt.Sprintf("d %s %o", rel, info.Mode().Perm()))
		default:
			b, _ := os.ReadFile(p)
			h := sha256.Sum256(b)
			lines = append(lines, fmt.Sprintf("f %s %d %s %o", rel, len(b), hex.EncodeToString(h[:8]), info.Mode().Perm()))
		}
		return nil
	})
	sort.Strings(lines)
	h := sha256.Sum256([]byte(strings.Join(lines, "\n")))
	return hex.EncodeToString(h[:])
}

func mkTree(r *rand.Rand, root string) {
	os.MkdirAll(filepath.Join(root, "a", "b"), 0755)
	os.MkdirAll(filepath.Join(root, "c"), 0750)
	os.MkdirAll(filepath.Join(root, "empty"), 0755)
	for i, p := range []string{"a/f1", "a/b/f2", "c/f3", "f4", "a/f5", "zero"} {
		b := make([]byte, 3000+r.Intn(30000)+i)
		if p != "zero" {
			r.Read(b)
		}
		must(os.WriteFile(filepath.Join(root, p), b, 0644))
	}
	os.WriteFile(filepath.Join(root, "emptyfile"), nil, 0600)
	os.Symlink("f4", filepath.Join(root, "link"))
	os.Symlink("/nonexistent/target", filepath.Join(root, "a", "dangling"))
}

// a blob built from named sections so that versions share content
func mkBlob(r *rand.Rand, secs map[string][]byte, layout string) []byte {
	var b []byte
	for _, name := range strings.Fields(layout) {
		if name == "Z" {
			b = append(b, make([]byte, 40*1024)...)
			continue
		}
		s, ok := secs[name]
		if !ok {
			s = make([]byte, 8*1024+r.Intn(24*1024))
			r.Read(s)
			secs[name] = s
		}
		b = append(b, s...)
	}
	return b
}

func chunkInto(store string, data []byte) desync.Index {
	st, err := desync.NewLocalStore(store, desync.StoreOptions{})
	must(err)
	ck, err := desync.NewChunker(bytes.NewReader(data), 1024, 4096, 16384)
	must(err)
	idx, err := desync.ChunkStream(context.Background(), ck, st, 2)
	must(err)
	return idx
}

func writeIndex(idx desync.Index, path string) {
	f, err := os.Create(path)
	must(err)
	_, err = idx.WriteTo(f)
	must(err)
	f.Close()
}

func storeHasAll(dir string, idx desync.Index) bool {
	st, err := desync.NewLocalStore(dir, desync.StoreOptions{})
	if err != nil {
		return false
	}
	for _, c := range idx.Chunks {
		if _, err := st.GetChunk(c.ID); err != nil {
			return false
		}
	}
	return true
}

// ------------------------------------------------------------------------------------------------ fault

type faultServer struct {
	mu      sync.Mutex
	n, k    int
	bad     string // the URL path that fails from the k-th request on
	handler http.Handler
	hits    int
}

func (s *faultServer) ServeHTTP(rw http.ResponseWriter, r *http.Request) {
	s.mu.Lock()
	s.n++
	if s.n == s.k && s.bad == "" {
		s.bad = r.URL.Path
	}
	fail := s.bad != "" && r.URL.Path == s.bad
	if fail {
		s.hits++
	}
	s.mu.Unlock()
	if fail {
		http.Error(rw, "injected failure", http.StatusInternalServerError)
		return
	}
	s.handler.ServeHTTP(rw, r)
}

func serve(h http.Handler) (string, func()) {
	l, err := net.Listen("tcp", "127.0.0.1:0")
	must(err)
	srv := &http.Server{Handler: h}
	go srv.Serve(l)
	return "http://" + l.Addr().String() + "/", func() { srv.Close() }
}

func runFault(r *rand.Rand, dir string, thorough bool) {
	secs := map[string][]byte{}
	blob := mkBlob(r, secs, "a b c a d Z e a")
	blobFile := filepath.Join(dir, "blob")
	must(os.WriteFile(blobFile, blob, 0644))
	store := mkdir(filepath.Join(dir, "store"))
	idx := chunkInto(store, blob)
	idxFile := filepath.Join(dir, "blob.caibx")
	writeIndex(idx, idxFile)
	src := filepath.Join(dir, "src")
	mkTree(r, src)
	ks := []int{0, 1, 2, 4, 7, 12, 20, 33, 50, 80}
	if thorough {
		ks = nil
		for k := 0; k <= 130; k++ {
			ks = append(ks, k)
		}
	}
	type def struct {
		name     string
		writable bool
		args     func(url, work string) []string
		complete func(work, srvStore string) bool
	}
	fromIndex := func(p string, wantLen int64, srvStore string) bool {
		f, err := os.Open(p)
		if err != nil {
			return false
		}
		defer f.Close()
		mi, err := desync.IndexFromReader(f)
		return err == nil && (wantLen < 0 || mi.Length() == wantLen) && mi.Length() > 0 && storeHasAll(srvStore, mi)
	}
	// chop --ignore / --ignore-chunks: every second distinct chunk of the blob is listed as already present elsewhere
	ignIdx := desync.Index{Index: idx.Index}
	rest := desync.Index{Index: idx.Index}
	ignText := "\n"
	{
		seen := map[desync.ChunkID]bool{}
		var pos uint64
		for _, c := range idx.Chunks {
			if seen[c.ID] {
				continue
			}
			seen[c.ID] = true
			if len(seen)%2 == 0 {
				ignIdx.Chunks = append(ignIdx.Chunks, desync.IndexChunk{ID: c.ID, Start: pos, Size: c.Size})
				pos += c.Size
				ignText += "  " + c.ID.String() + " \n\n"
			} else {
				rest.Chunks = append(rest.Chunks, c)
			}
		}
	}
	ignFile, ignTextFile := filepath.Join(dir, "ignore.caibx"), filepath.Join(dir, "ignore.txt")
	writeIndex(ignIdx, ignFile)
	must(os.WriteFile(ignTextFile, []byte(ignText), 0644))
	defs := []def{
		{"chop-ignore", true, func(url, work string) []string {
			return []string{"chop", "-n", "3", "-s", url, "--ignore", ignFile, idxFile, blobFile}
		},
			func(_, srvStore string) bool { return storeHasAll(srvStore, rest) }},
		{"chop-ignore-chunks", true, func(url, work string) []string {
			return []string{"chop", "-n", "2", "-s", url, "--ignore-chunks", ignTextFile, idxFile, blobFile}
		}, func(_, srvStore string) bool { return storeHasAll(srvStore, rest) }},
		{"chop", true, func(url, work string) []string { return []string{"chop", "-n", "3", "-s", url, idxFile, blobFile} },
			func(_, srvStore string) bool { return storeHasAll(srvStore, idx) }},
		{"make", true, func(url, work string) []string {
			return []string{"make", "-n", "3", "-m", "1:4:16", "-s", url, filepath.Join(work, "made.caibx"), blobFile}
		}, func(work, srvStore string) bool {
			return fromIndex(filepath.Join(work, "made.caibx"), int64(len(blob)), srvStore)
		}},
		{"tar-i", true, func(url, work string) []string {
			return []string{"tar", "-i", "-n", "3", "-m", "1:4:16", "-s", url, filepath.Join(work, "made.caidx"), src}
		}, func(work, srvStore string) bool { return fromIndex(filepath.Join(work, "made.caidx"), -1, srvStore) }},
		{"cache", false, func(url, work string) []string {
			return []string{"cache", "-n", "3", "-s", url, "-c", mkdir(filepath.Join(work, "cache")), idxFile}
		}, func(work, _ string) bool { return storeHasAll(filepath.Join(work, "cache"), idx) }},
		{"cache-to-http", true, func(url, work string) []string { return []string{"cache", "-n", "3", "-s", store, "-c", url, idxFile} },
			func(_, srvStore string) bool { return storeHasAll(srvStore, idx) }},
		{"extract-stats", false, func(url, work string) []string {
			return []string{"extract", "--print-stats", "-n", "3", "-s", url, idxFile, filepath.Join(work, "out")}
		}, func(work, _ string) bool {
			b, _ := os.ReadFile(filepath.Join(work, "out"))
			return bytes.Equal(b, blob)
		}},
		{"make-stats", true, func(url, work string) []string {
			return []string{"make", "--print-stats", "-n", "3", "-m", "1:4:16", "-s", url, filepath.Join(work, "made.caibx"), blobFile}
		}, func(work, srvStore string) bool {
			return fromIndex(filepath.Join(work, "made.caibx"), int64(len(blob)), srvStore)
		}},
	}
	for _, d := range defs {
		for _, k := range ks {
			work := mkdir(filepath.Join(dir, "work"))
			srvStore := store
			if d.writable {
				srvStore = mkdir(filepath.Join(dir, "srvstore"))
			}
			ss, err := desync.NewLocalStore(srvStore, desync.StoreOptions{})
			must(err)
			fs := &faultServer{k: k, handler: desync.NewHTTPHandler(ss, d.writable, false, desync.Converters{desync.Compressor{}}, "")}
			url, stop := serve(fs)
			res := run(append([]string{"--error-retry", "1"}, d.args(url, work)...)...)
			stop()
			w.Emit(J{"ev": "cli", "fam": "fault", "cmd": d.name, "k": k, "injected": fs.hits > 0, "requests": fs.n, "exit": res.exit, "hung": res.hung,
				"complete": d.complete(work, srvStore), "valid_inputs": fs.hits == 0, "out": res.last})
		}
	}
}

// a source store in which one chunk file holds something else (another chunk's object, an uncompressed store's damaged file):
// copying commands either fail or leave a target in which every chunk of the index reads back valid
func runCorruptSource(r *rand.Rand, dir string) {
	secs := map[string][]byte{}
	blob := mkBlob(r, secs, "a b c d")
	for k, damage := range []string{"other chunk", "truncated"} {
		for _, uncompressed := range []bool{false, true} {
			src := mkdir(filepath.Join(dir, "src"))
			opt := desync.StoreOptions{Uncompressed: uncompressed}
			st, err := desync.NewLocalStore(src, opt)
			must(err)
			ck, err := desync.NewChunker(bytes.NewReader(blob), 1024, 4096, 16384)
			must(err)
			idx, err := desync.ChunkStream(context.Background(), ck, st, 2)
			must(err)
			idxFile := filepath.Join(dir, "blob.caibx")
			writeIndex(idx, idxFile)
			ext := ".cacnk"
			if uncompressed {
				ext = ""
			}
			file := func(id desync.ChunkID) string { s := id.String(); return filepath.Join(src, s[:4], s+ext) }
			victim := idx.Chunks[len(idx.Chunks)/2].ID
			other := idx.Chunks[0].ID
			if other == victim {
				other = idx.Chunks[len(idx.Chunks)-1].ID
			}
			b, err := os.ReadFile(file(other))
			must(err)
			if damage == "truncated" {
				b, err = os.ReadFile(file(victim))
				must(err)
				b = b[:len(b)/2]
			}
			must(os.WriteFile(file(victim), b, 0644))
			cfg := filepath.Join(dir, "config.json")
			must(os.WriteFile(cfg, []byte(fmt.Sprintf(`{"store-options": {%q: {"uncompressed": %v}}}`, src, uncompressed)), 0644))
			for _, via := range []string{"local", "http"} {
				target := mkdir(filepath.Join(dir, "target"))
				source := src
				stop := func() {}
				if via == "http" {
					ss, err := desync.NewLocalStore(src, desync.StoreOptions{Uncompressed: uncompressed, SkipVerify: true})
					must(err)
					conv := desync.Converters{desync.Compressor{}}
					if uncompressed {
						conv = nil
					}
					source, stop = serve(desync.NewHTTPHandler(ss, false, true, conv, ""))
				}
				res := run("--config", cfg, "cache", "-n", "2", "-s", source, "-c", target, idxFile)
				stop()
				w.Emit(J{"ev": "cli", "fam": "fault", "cmd": "cache from a " + via + " source in which one chunk file holds " + damage + " (uncompressed: " + fmt.Sprint(uncompressed) + ")", "k": k,
					"exit": res.exit, "hung": res.hung, "complete": storeHasAll(target, idx), "valid_inputs": false, "out": res.last})
			}
		}
	}
}

// ------------------------------------------------------------------------------------------------ chain
// the store chain the command line builds from -s / -c / "a|b" / --cache-repair (cmd/desync/store.go)
func runChain(r *rand.Rand, dir string) {
	secs := map[string][]byte{}
	blob := mkBlob(r, secs, "a b c Z d")
	full := mkdir(filepath.Join(dir, "full"))
	idx := chunkInto(full, blob)
	idxFile := filepath.Join(dir, "blob.caibx")
	writeIndex(idx, idxFile)
	// two partial stores: the chunks of the index split between them
	partA, partB := mkdir(filepath.Join(dir, "partA")), mkdir(filepath.Join(dir, "partB"))
	fst, _ := desync.NewLocalStore(full, desync.StoreOptions{})
	ast, _ := desync.NewLocalStore(partA, desync.StoreOptions{})
	bst, _ := desync.NewLocalStore(partB, desync.StoreOptions{})
	for i, c := range idx.Chunks {
		ch, err := fst.GetChunk(c.ID)
		must(err)
		if i%2 == 0 {
			must(ast.StoreChunk(ch))
		} else {
			must(bst.StoreChunk(ch))
		}
	}
	httpOf := func(d string, writable bool) (string, func()) {
		// as `desync chunk-server` does by default: the server does not verify what it reads from its store, the client does
		st, err := desync.NewLocalStore(d, desync.StoreOptions{SkipVerify: true})
		must(err)
		return serve(desync.NewHTTPHandler(st, writable, false, desync.Converters{desync.Compressor{}}, ""))
	}
	failing := func() (string, func()) {
		return serve(http.HandlerFunc(func(w http.ResponseWriter, r *http.Request) { http.Error(w, "down", http.StatusInternalServerError) }))
	}
	damage := func(cacheDir string) desync.ChunkID { // make one cached chunk invalid: another chunk's object under its name
		c0, c1 := idx.Chunks[0].ID, idx.Chunks[1].ID
		p0 := filepath.Join(cacheDir, c0.String()[:4], c0.String()+".cacnk")
		p1 := filepath.Join(full, c1.String()[:4], c1.String()+".cacnk")
		b, err := os.ReadFile(p1)
		must(err)
		os.MkdirAll(filepath.Dir(p0), 0755)
		must(os.WriteFile(p0, b, 0644))
		return c0
	}
	validIn := func(cacheDir string, id desync.ChunkID) bool {
		st, err := desync.NewLocalStore(cacheDir, desync.StoreOptions{})
		if err != nil {
			return false
		}
		_, err = st.GetChunk(id)
		return err == nil
	}
	emit := func(name string, valid bool, args []string, extraComplete func() bool) {
		out := filepath.Join(dir, "out")
		os.Remove(out)
		res := run(append(append([]string{"--error-retry", "0", "extract", "-n", "2"}, args...), idxFile, out)...)
		got, _ := os.ReadFile(out)
		complete := bytes.Equal(got, blob)
		if res.exit == 0 && extraComplete != nil {
			complete = complete && extraComplete()
		}
		w.Emit(J{"ev": "cli", "fam": "chain", "cmd": "extract " + name, "k": 0, "exit": res.exit, "hung": res.hung, "complete": complete, "valid_inputs": valid, "out": res.last})
	}
	// router over two partial stores, local and over HTTP, in both orders
	emit("router local", true, []string{"-s", partA, "-s", partB}, nil)
	emit("router local reversed", true, []string{"-s", partB, "-s", partA}, nil)
	ua, sa := httpOf(partA, false)
	ub, sb := httpOf(partB, false)
	emit("router http", true, []string{"-s", ua, "-s", ub}, nil)
	emit("router mixed", true, []string{"-s", partB, "-s", ua}, nil)
	emit("router with a chunk in neither", false, []string{"-s", ua}, nil)
	// failover groups: the first member is down
	uf, sf := failing()
	uFull, sFull := httpOf(full, false)
	emit("failover down|up", true, []string{"-s", uf + "|" + uFull}, nil)
	emit("failover up|down", true, []string{"-s", uFull + "|" + uf}, nil)
	emit("failover down|down|local", true, []string{"-s", uf + "|" + uf + "|" + full}, nil)
	emit("failover inside a router", true, []string{"-s", uf + "|" + ua, "-s", ub}, nil)
	emit("failover all down", false, []string{"-s", uf + "|" + uf}, nil)
	// other ways of being unhealthy: a member that refuses every request (403), a member that delivers objects that are not the
	// chunk asked for (another chunk's object under every name). Neither is "the chunk is missing": a failover group moves on
	for _, kind := range []string{"refusing (403)", "unauthorized (401)", "serving wrong objects"} {
		var ux string
		var sx func()
		switch kind {
		case "refusing (403)":
			ux, sx = serve(http.HandlerFunc(func(w http.ResponseWriter, r *http.Request) { http.Error(w, "forbidden", http.StatusForbidden) }))
		case "unauthorized (401)":
			ux, sx = serve(http.HandlerFunc(func(w http.ResponseWriter, r *http.Request) { http.Error(w, "unauthorized", http.StatusUnauthorized) }))
		default:
			o := idx.Chunks[0].ID.String()
			wrong, err := os.ReadFile(filepath.Join(full, o[:4], o+".cacnk"))
			must(err)
			ux, sx = serve(http.HandlerFunc(func(w http.ResponseWriter, r *http.Request) { w.Write(wrong) }))
		}
		emit("failover "+kind+"|up", true, []string{"-s", ux + "|" + uFull}, nil)
		emit("failover up|"+kind, true, []string{"-s", uFull + "|" + ux}, nil)
		emit("failover "+kind+"|"+kind+"|local", true, []string{"-s", ux + "|" + ux + "|" + full}, nil)
		sx()
	}
	// a local member with a damaged chunk file in a failover group
	{
		dmg := mkdir(filepath.Join(dir, "damagedcopy"))
		dst, _ := desync.NewLocalStore(dmg, desync.StoreOptions{})
		for _, c := range idx.Chunks {
			ch, _ := fst.GetChunk(c.ID)
			dst.StoreChunk(ch)
		}
		damage(dmg)
		emit("failover damaged-local|up", true, []string{"-s", dmg + "|" + uFull}, nil)
		emit("failover damaged-local|local", true, []string{"-s", dmg + "|" + full}, nil)
	}
	// cache: filled on the way, then sufficient on its own
	cacheDir := mkdir(filepath.Join(dir, "cache"))
	// (chunks of zeros are written without asking any store, they need not be in the cache)
	var fetched desync.Index
	for _, c := range idx.Chunks {
		if len(bytes.Trim(blob[c.Start:c.Start+c.Size], "\x00")) > 0 {
			fetched.Chunks = append(fetched.Chunks, c)
		}
	}
	emit("cache fill", true, []string{"-s", uFull, "-c", cacheDir}, func() bool { return storeHasAll(cacheDir, fetched) })
	empty := mkdir(filepath.Join(dir, "empty"))
	emit("cache only", true, []string{"-s", empty, "-c", cacheDir}, nil)
	// an invalid chunk in the cache: repaired from upstream by default, a failure (never wrong data) without repair
	for _, viaHTTP := range []bool{false, true} {
		for _, repair := range []bool{true, false} {
			cd := mkdir(filepath.Join(dir, "cache2"))
			cst, _ := desync.NewLocalStore(cd, desync.StoreOptions{})
			for _, c := range idx.Chunks {
				ch, _ := fst.GetChunk(c.ID)
				cst.StoreChunk(ch)
			}
			bad := damage(cd)
			loc, stop := cd, func() {}
			if viaHTTP {
				loc, stop = httpOf(cd, true)
			}
			name := fmt.Sprintf("cache with an invalid chunk (cache over http: %v, repair: %v)", viaHTTP, repair)
			args := []string{"-s", uFull, "-c", loc, fmt.Sprintf("--cache-repair=%v", repair)}
			emit(name, repair, args, func() bool { return !repair || validIn(cd, bad) })
			stop()
		}
	}
	// an S3 bucket as a member: first in a router (it holds half of the chunks), and as the cache
	{
		f := fakes.NewFakeS3()
		for i, c := range idx.Chunks {
			if i%2 == 0 {
				b, err := os.ReadFile(filepath.Join(full, c.ID.String()[:4], c.ID.String()+".cacnk"))
				must(err)
				f.Put("bkt/st/"+c.ID.String()[:4]+"/"+c.ID.String()+".cacnk", b)
			}
		}
		os.Setenv("S3_ACCESS_KEY", "verif")
		os.Setenv("S3_SECRET_KEY", "verifverif")
		os.Setenv("S3_REGION", "us-east-1")
		s3url := "s3+http://" + f.Addr + "/bkt/st?lookup=path"
		emit("router: S3 bucket with half of the chunks, then the other half", true, []string{"-s", s3url, "-s", partB}, nil)
		emit("router: S3 bucket with half of the chunks, then a complete store", true, []string{"-s", s3url, "-s", full}, nil)
		emit("failover: S3 bucket that lacks chunks | complete store (a missing chunk is not a failure: no failover)", false, []string{"-s", s3url + "|" + full}, nil)
		f2 := fakes.NewFakeS3()
		c2 := "s3+http://" + f2.Addr + "/bkt/cache?lookup=path"
		emit("S3 bucket as cache: filled on the way", true, []string{"-s", full, "-c", c2}, func() bool {
			for _, c := range fetched.Chunks {
				if _, ok := f2.Get("bkt/cache/" + c.ID.String()[:4] + "/" + c.ID.String() + ".cacnk"); !ok {
					return false
				}
			}
			return true
		})
		emit("S3 bucket as cache: sufficient on its own afterwards", true, []string{"-s", empty, "-c", c2}, nil)
		os.Unsetenv("S3_ACCESS_KEY")
		os.Unsetenv("S3_SECRET_KEY")
		os.Unsetenv("S3_REGION")
		f.Close()
		f2.Close()
	}
	sa()
	sb()
	sf()
	sFull()
}

// ------------------------------------------------------------------------------------------------ server
// the chunk server de-duplicates overlapping requests for one chunk towards its upstream store - also after its store
// configuration was reloaded (SIGHUP with --store-file)
func runServer(r *rand.Rand, dir string) {
	secs := map[string][]byte{}
	blob := mkBlob(r, secs, "a b c")
	full := mkdir(filepath.Join(dir, "full"))
	idx := chunkInto(full, blob)
	fst, err := desync.NewLocalStore(full, desync.StoreOptions{SkipVerify: true})
	must(err)
	var mu sync.Mutex
	inflight, maxInflight := map[string]int{}, map[string]int{}
	inner := desync.NewHTTPHandler(fst, false, false, desync.Converters{desync.Compressor{}}, "")
	upURL, stopUp := serve(http.HandlerFunc(func(rw http.ResponseWriter, rq *http.Request) {
		if rq.Method == "GET" {
			mu.Lock()
			inflight[rq.URL.Path]++
			if inflight[rq.URL.Path] > maxInflight[rq.URL.Path] {
				maxInflight[rq.URL.Path] = inflight[rq.URL.Path]
			}
			mu.Unlock()
			time.Sleep(200 * time.Millisecond) // a slow upstream: the requests of a burst overlap
			defer func() { mu.Lock(); inflight[rq.URL.Path]--; mu.Unlock() }()
		}
		inner.ServeHTTP(rw, rq)
	}))
	defer stopUp()
	sf := filepath.Join(dir, "stores.json")
	must(os.WriteFile(sf, []byte(fmt.Sprintf(`{"stores": ["%s"]}`, upURL)), 0644))
	l, _ := net.Listen("tcp", "127.0.0.1:0")
	addr := l.Addr().String()
	l.Close()
	cmd := exec.Command(binary, "chunk-server", "--store-file", sf, "-l", addr)
	cmd.Env = append(os.Environ(), "HOME=/nonexistent")
	must(cmd.Start())
	defer func() { cmd.Process.Kill(); cmd.Wait() }()
	for i := 0; i < 200; i++ {
		if c, err := net.Dial("tcp", addr); err == nil {
			c.Close()
			break
		}
		time.Sleep(20 * time.Millisecond)
	}
	burst := func(c desync.IndexChunk) (allOK bool, max int) {
		p := "/" + c.ID.String()[:4] + "/" + c.ID.String() + ".cacnk"
		var wg sync.WaitGroup
		oks := make([]bool, 8)
		for i := range oks {
			wg.Add(1)
			go func(i int) {
				defer wg.Done()
				resp, err := http.Get("http://" + addr + p)
				if err != nil {
					return
				}
				b, _ := io.ReadAll(resp.Body)
				resp.Body.Close()
				d, derr := desync.Decompress(nil, b)
				oks[i] = resp.StatusCode == 200 && derr == nil && bytes.Equal(d, blob[c.Start:c.Start+c.Size])
			}(i)
		}
		wg.Wait()
		allOK = true
		for _, o := range oks {
			allOK = allOK && o
		}
		mu.Lock()
		max = maxInflight[p]
		mu.Unlock()
		return
	}
	ok1, m1 := burst(idx.Chunks[0])
	w.Emit(J{"ev": "cli", "fam": "server", "cmd": "chunk-server --store-file: 8 overlapping requests for one chunk", "k": m1, "exit": 0, "hung": false, "complete": ok1 && m1 == 1, "valid_inputs": true,
		"out": fmt.Sprintf("max upstream requests in flight for the chunk: %d", m1)})
	for round := 1; round <= 2; round++ {
		cmd.Process.Signal(syscall.SIGHUP)
		time.Sleep(400 * time.Millisecond)
		ok2, m2 := burst(idx.Chunks[round])
		w.Emit(J{"ev": "cli", "fam": "server", "cmd": fmt.Sprintf("chunk-server --store-file: the same after %d reload(s) (SIGHUP)", round), "k": m2, "exit": 0, "hung": false, "complete": ok2 && m2 == 1, "valid_inputs": true,
			"out": fmt.Sprintf("max upstream requests in flight for the chunk: %d", m2)})
	}
	// requests that straddle a reload: one is upstream when SIGHUP arrives, more follow while it is still running
	if len(idx.Chunks) > 3 {
		c := idx.Chunks[3]
		p := "/" + c.ID.String()[:4] + "/" + c.ID.String() + ".cacnk"
		get := func(ok *bool, wg *sync.WaitGroup) {
			defer wg.Done()
			resp, err := http.Get("http://" + addr + p)
			if err != nil {
				return
			}
			b, _ := io.ReadAll(resp.Body)
			resp.Body.Close()
			d, derr := desync.Decompress(nil, b)
			*ok = resp.StatusCode == 200 && derr == nil && bytes.Equal(d, blob[c.Start:c.Start+c.Size])
		}
		var wg sync.WaitGroup
		oks := make([]bool, 4)
		wg.Add(1)
		go get(&oks[0], &wg)
		time.Sleep(60 * time.Millisecond) // the first request is upstream now (the upstream takes 200 ms)
		cmd.Process.Signal(syscall.SIGHUP)
		time.Sleep(40 * time.Millisecond)
		for i := 1; i < len(oks); i++ {
			wg.Add(1)
			go get(&oks[i], &wg)
		}
		wg.Wait()
		all := true
		for _, o := range oks {
			all = all && o
		}
		mu.Lock()
		m := maxInflight[p]
		mu.Unlock()
		w.Emit(J{"ev": "cli", "fam": "server", "cmd": "chunk-server --store-file: requests for one chunk that straddle a reload (SIGHUP while the first is upstream)", "k": m, "exit": 0, "hung": false,
			"complete": all && m == 1, "valid_inputs": true, "out": fmt.Sprintf("max upstream requests in flight for the chunk: %d", m)})
	}
}

// a chunk server in front of a casync-protocol (ssh) store with a single session: concurrent requests for different chunks of
// the same size must each get their own chunk
func runServerSSH(r *rand.Rand, dir string) {
	sdir := mkdir(filepath.Join(dir, "eq"))
	st, err := desync.NewLocalStore(sdir, desync.StoreOptions{})
	must(err)
	var datas [][]byte
	var ids []desync.ChunkID
	for i := 0; i < 24; i++ {
		d := make([]byte, 4096)
		r.Read(d)
		c := desync.NewChunk(d)
		must(st.StoreChunk(c))
		datas = append(datas, d)
		ids = append(ids, c.ID())
	}
	ssh := filepath.Join(dir, "fakessh.sh")
	must(os.WriteFile(ssh, []byte("#!/bin/sh\nshift\nexec sh -c \"$1\"\n"), 0755))
	l, _ := net.Listen("tcp", "127.0.0.1:0")
	addr := l.Addr().String()
	l.Close()
	cmd := exec.Command(binary, "chunk-server", "-s", "ssh://localhost"+sdir, "-n", "1", "-l", addr)
	cmd.Env = append(os.Environ(), "HOME=/nonexistent", "CASYNC_SSH_PATH="+ssh, "CASYNC_REMOTE_PATH="+binary)
	must(cmd.Start())
	defer func() { cmd.Process.Kill(); cmd.Wait() }()
	for i := 0; i < 200; i++ {
		if c, err := net.Dial("tcp", addr); err == nil {
			c.Close()
			break
		}
		time.Sleep(20 * time.Millisecond)
	}
	wrong, failed := 0, 0
	var mu sync.Mutex
	for round := 0; round < 6; round++ {
		var wg sync.WaitGroup
		for i := range ids {
			wg.Add(1)
			go func(i int) {
				defer wg.Done()
				resp, err := http.Get("http://" + addr + "/" + ids[i].String()[:4] + "/" + ids[i].String() + ".cacnk")
				if err != nil {
					mu.Lock()
					failed++
					mu.Unlock()
					return
				}
				b, _ := io.ReadAll(resp.Body)
				resp.Body.Close()
				d, derr := desync.Decompress(nil, b)
				mu.Lock()
				if resp.StatusCode != 200 {
					failed++
				} else if derr != nil || !bytes.Equal(d, datas[i]) {
					wrong++
				}
				mu.Unlock()
			}(i)
		}
		wg.Wait()
	}
	w.Emit(J{"ev": "cli", "fam": "server", "cmd": "chunk-server over an ssh store with one session: 6 x 24 concurrent requests for different chunks of equal size", "k": wrong, "exit": 0, "hung": false,
		"complete": wrong == 0 && failed == 0, "valid_inputs": true, "out": fmt.Sprintf("answers with another chunk's bytes: %d, failed: %d", wrong, failed)})
}

// ------------------------------------------------------------------------------------------------ ssh
// casync-protocol stores (ssh://) in the chains the command line builds; the "ssh" binary is a script that runs the remote
// command (`desync pull`) locally
func runSSH(r *rand.Rand, dir string) {
	secs := map[string][]byte{}
	blob := mkBlob(r, secs, "a b c d a")
	full := mkdir(filepath.Join(dir, "full"))
	idx := chunkInto(full, blob)
	idxFile := filepath.Join(dir, "blob.caibx")
	writeIndex(idx, idxFile)
	fst, _ := desync.NewLocalStore(full, desync.StoreOptions{})
	// a store that holds only every fifth chunk, and one whose 7th chunk is damaged (the remote `pull` fails on it and exits)
	partial, broken := mkdir(filepath.Join(dir, "partial")), mkdir(filepath.Join(dir, "broken"))
	pst, _ := desync.NewLocalStore(partial, desync.StoreOptions{})
	bst, _ := desync.NewLocalStore(broken, desync.StoreOptions{})
	for i, c := range idx.Chunks {
		ch, err := fst.GetChunk(c.ID)
		must(err)
		if i%5 == 0 {
			pst.StoreChunk(ch)
		}
		bst.StoreChunk(ch)
	}
	bad := idx.Chunks[6].ID
	must(os.WriteFile(filepath.Join(broken, bad.String()[:4], bad.String()+".cacnk"), []byte("damaged object"), 0644))
	ssh := filepath.Join(dir, "fakessh.sh")
	must(os.WriteFile(ssh, []byte("#!/bin/sh\nshift\nexec sh -c \"$1\"\n"), 0755))
	os.Setenv("CASYNC_SSH_PATH", ssh)
	os.Setenv("CASYNC_REMOTE_PATH", binary)
	defer os.Unsetenv("CASYNC_SSH_PATH")
	defer os.Unsetenv("CASYNC_REMOTE_PATH")
	out := filepath.Join(dir, "out")
	emit := func(name string, valid bool, args ...string) {
		os.Remove(out)
		res := run(append(args, idxFile, out)...)
		got, _ := os.ReadFile(out)
		w.Emit(J{"ev": "cli", "fam": "ssh", "cmd": name, "k": 0, "exit": res.exit, "hung": res.hung, "complete": bytes.Equal(got, blob), "valid_inputs": valid, "out": res.last})
	}
	emit("extract from an ssh store", true, "extract", "-n", "2", "-s", "ssh://localhost"+full)
	emit("extract: ssh store that lacks most chunks, then a complete local store", true, "extract", "-n", "2", "-s", "ssh://localhost"+partial, "-s", full)
	emit("extract: ssh store whose server dies | complete local store", true, "extract", "-n", "2", "-s", "ssh://localhost"+broken+"|"+full)
	emit("extract: ssh store whose server dies, nothing else", false, "extract", "-n", "2", "-s", "ssh://localhost"+broken)
	emit("extract: cache over an ssh store that lacks most chunks and a local store", true, "extract", "-n", "2", "-s", "ssh://localhost"+partial, "-s", full, "-c", mkdir(filepath.Join(dir, "cache")))
	for _, a := range [][]string{{}, {"-o", "1000"}, {"-c", mkdir(filepath.Join(dir, "cache2"))}} {
		res := run(append(append([]string{"cat", "-n", "2", "-s", "ssh://localhost" + broken}, a...), idxFile)...)
		want := blob
		if len(a) == 2 && a[0] == "-o" {
			want = blob[1000:]
		}
		w.Emit(J{"ev": "cli", "fam": "ssh", "cmd": "cat from an ssh store whose server dies " + strings.Join(a, " "), "k": 0, "exit": res.exit, "hung": res.hung, "complete": bytes.Equal(res.stdout, want),
			"valid_inputs": false, "out": res.last})
	}
	// the serving side's configuration marks the store as uncompressed: `desync pull` serves its plain chunk files (and only those)
	{
		unc := mkdir(filepath.Join(dir, "uncompressed"))
		ust, err := desync.NewLocalStore(unc, desync.StoreOptions{Uncompressed: true})
		must(err)
		for _, c := range idx.Chunks {
			ch, err := fst.GetChunk(c.ID)
			must(err)
			must(ust.StoreChunk(ch))
		}
		home := mkdir(filepath.Join(dir, "home"))
		must(os.MkdirAll(filepath.Join(home, ".config", "desync"), 0755))
		must(os.WriteFile(filepath.Join(home, ".config", "desync", "config.json"), []byte(fmt.Sprintf(`{"store-options": {%q: {"uncompressed": true}}}`, unc)), 0644))
		extraEnv = []string{"HOME=" + home}
		emit("extract from an ssh store that the serving side's config marks uncompressed", true, "extract", "-n", "2", "-s", "ssh://localhost"+unc)
		// a compressed file of one chunk in that store is not this store's chunk: it stays invisible
		victim := idx.Chunks[3].ID.String()
		b, err := os.ReadFile(filepath.Join(full, victim[:4], victim+".cacnk"))
		must(err)
		must(os.Remove(filepath.Join(unc, victim[:4], victim)))
		must(os.WriteFile(filepath.Join(unc, victim[:4], victim+".cacnk"), b, 0644))
		emit("extract from an uncompressed ssh store in which one chunk exists only as a compressed file", false, "extract", "-n", "2", "-s", "ssh://localhost"+unc)
		extraEnv = nil
	}
	res := run("cat", "-n", "2", "-s", "ssh://localhost"+full, idxFile)
	w.Emit(J{"ev": "cli", "fam": "ssh", "cmd": "cat from an ssh store", "k": 0, "exit": res.exit, "hung": res.hung, "complete": bytes.Equal(res.stdout, blob), "valid_inputs": true, "out": res.last})
}

// ------------------------------------------------------------------------------------------------ config
// store options from the config file apply to a store however its path is spelled on the command line
func runConfig(r *rand.Rand, dir string) {
	secs := map[string][]byte{}
	blob := mkBlob(r, secs, "a b c")
	blobFile := filepath.Join(dir, "blob")
	must(os.WriteFile(blobFile, blob, 0644))
	ref := mkdir(filepath.Join(dir, "ref"))
	idx := chunkInto(ref, blob)
	idxFile := filepath.Join(dir, "blob.caibx")
	writeIndex(idx, idxFile)
	parent := mkdir(filepath.Join(dir, "parent"))
	os.MkdirAll(filepath.Join(parent, "sub"), 0755)
	store := filepath.Join(parent, "store")
	cfg := filepath.Join(dir, "config.json")
	for _, cfgKey := range []string{store, filepath.Join(parent, "*")} { // an absolute path / an absolute glob in the config file
		must(os.WriteFile(cfg, []byte(fmt.Sprintf(`{"store-options": {"%s": {"uncompressed": true}}}`, cfgKey)), 0644))
		for _, sp := range [][2]string{{"", store}, {parent, "store"}, {parent, "./store"}, {filepath.Join(parent, "sub"), "../store"}, {parent, "./sub/../store"}} {
			mkdir(store)
			res := runIn(sp[0], "--config", cfg, "chop", "-n", "2", "-s", sp[1], idxFile, blobFile)
			// the store is configured uncompressed: it must hold every chunk as a raw file and no .cacnk file
			raw, comp := 0, 0
			filepath.Walk(store, func(p string, info os.FileInfo, err error) error {
				if err == nil && !info.IsDir() {
					if strings.HasSuffix(p, ".cacnk") {
						comp++
					} else {
						raw++
					}
				}
				return nil
			})
			st, _ := desync.NewLocalStore(store, desync.StoreOptions{Uncompressed: true})
			all := true
			for _, c := range idx.Chunks {
				if _, err := st.GetChunk(c.ID); err != nil {
					all = false
				}
			}
			w.Emit(J{"ev": "cli", "fam": "config", "cmd": fmt.Sprintf("chop into a store configured uncompressed as %q, named %q from %q", cfgKey, sp[1], sp[0]), "k": 0,
				"exit": res.exit, "hung": res.hung, "complete": all && comp == 0 && raw > 0, "valid_inputs": true, "out": res.last})
		}
	}
}

// an S3 bucket as the target: one object's requests are refused from the k-th request on
func runS3Fault(r *rand.Rand, dir string, thorough bool) {
	secs := map[string][]byte{}
	blob := mkBlob(r, secs, "a b a c")
	blobFile := filepath.Join(dir, "blob")
	must(os.WriteFile(blobFile, blob, 0644))
	ref := mkdir(filepath.Join(dir, "ref"))
	idx := chunkInto(ref, blob)
	idxFile := filepath.Join(dir, "blob.caibx")
	writeIndex(idx, idxFile)
	ks := []int{0, 1, 2, 3, 5, 9, 17, 40}
	if thorough {
		ks = nil
		for k := 0; k <= 90; k += 2 {
			ks = append(ks, k)
		}
	}
	inBucket := func(f *fakes.FakeS3, ix desync.Index) bool {
		st, _ := desync.NewLocalStore(ref, desync.StoreOptions{})
		for _, c := range ix.Chunks {
			b, ok := f.Get("bkt/pfx/" + c.ID.String()[:4] + "/" + c.ID.String() + ".cacnk")
			if !ok {
				return false
			}
			want, err := st.GetChunk(c.ID)
			if err != nil {
				// a chunk of an index made by the command itself: decode and hash
				d, derr := desync.Decompress(nil, b)
				if derr != nil || desync.NewChunk(d).ID() != c.ID {
					return false
				}
				continue
			}
			wd, _ := want.Data()
			d, derr := desync.Decompress(nil, b)
			if derr != nil || !bytes.Equal(d, wd) {
				return false
			}
		}
		return true
	}
	for _, cmdname := range []string{"chop", "make"} {
		for _, k := range ks {
			work := mkdir(filepath.Join(dir, "work"))
			f := fakes.NewFakeS3()
			n, bad := 0, ""
			f.OnRequest = func(m, key string) string {
				if m == "LIST" || !strings.Contains(key, ".cacnk") {
					return ""
				}
				n++
				if n == k && bad == "" {
					bad = key
				}
				if bad != "" && key == bad {
					return "403"
				}
				return ""
			}
			url := "s3+http://" + f.Addr + "/bkt/pfx?lookup=path"
			var args []string
			if cmdname == "chop" {
				args = []string{"chop", "-n", "3", "-s", url, idxFile, blobFile}
			} else {
				args = []string{"make", "-n", "3", "-m", "1:4:16", "-s", url, filepath.Join(work, "made.caibx"), blobFile}
			}
			cmd := exec.Command(binary, append([]string{"--error-retry", "1"}, args...)...)
			cmd.Env = append(os.Environ(), "HOME=/nonexistent", "S3_ACCESS_KEY=verif", "S3_SECRET_KEY=verifverif", "S3_REGION=us-east-1")
			var se bytes.Buffer
			cmd.Stderr = &se
			err := cmd.Run()
			exit := 0
			if err != nil {
				exit = 1
			}
			complete := false
			if cmdname == "chop" {
				complete = inBucket(f, idx)
			} else if fi, oerr := os.Open(filepath.Join(work, "made.caibx")); oerr == nil {
				mi, ierr := desync.IndexFromReader(fi)
				fi.Close()
				complete = ierr == nil && mi.Length() == int64(len(blob)) && inBucket(f, mi)
			}
			last := strings.TrimSpace(se.String())
			if i := strings.LastIndexByte(last, '\n'); i >= 0 {
				last = last[i+1:]
			}
			if len(last) > 160 {
				last = last[:160]
			}
			w.Emit(J{"ev": "cli", "fam": "s3fault", "cmd": cmdname + " into an S3 bucket", "k": k, "exit": exit, "hung": false, "complete": complete, "valid_inputs": bad == "", "out": last})
			f.Close()
		}
	}
}

// local target stores whose writes fail (file size limit): a write error inside LocalStore has to reach the exit status
func runLocalFault(r *rand.Rand, dir string) {
	secs := map[string][]byte{}
	blob := mkBlob(r, secs, "a b c d Z e")
	blobFile := filepath.Join(dir, "blob")
	must(os.WriteFile(blobFile, blob, 0644))
	store := mkdir(filepath.Join(dir, "store"))
	idx := chunkInto(store, blob)
	idxFile := filepath.Join(dir, "blob.caibx")
	writeIndex(idx, idxFile)
	src := filepath.Join(dir, "src")
	mkTree(r, src)
	for _, limit := range []int{2, 6, 12, 100000} { // KiB; chunks are 1-16 KiB
		for _, cmdname := range []string{"chop", "make", "tar-i", "cache"} {
			work := mkdir(filepath.Join(dir, "work"))
			target := mkdir(filepath.Join(work, "target"))
			var args []string
			var complete func() bool
			readIdx := func(p string) (desync.Index, bool) {
				f, err := os.Open(p)
				if err != nil {
					return desync.Index{}, false
				}
				defer f.Close()
				mi, err := desync.IndexFromReader(f)
				return mi, err == nil
			}
			switch cmdname {
			case "chop":
				args = []string{"chop", "-n", "3", "-s", target, idxFile, blobFile}
				complete = func() bool { return storeHasAll(target, idx) }
			case "make":
				args = []string{"make", "-n", "3", "-m", "1:4:16", "-s", target, filepath.Join(work, "made.caibx"), blobFile}
				complete = func() bool {
					mi, ok := readIdx(filepath.Join(work, "made.caibx"))
					return ok && mi.Length() == int64(len(blob)) && storeHasAll(target, mi)
				}
			case "tar-i":
				args = []string{"tar", "-i", "-n", "3", "-m", "1:4:16", "-s", target, filepath.Join(work, "made.caidx"), src}
				complete = func() bool {
					mi, ok := readIdx(filepath.Join(work, "made.caidx"))
					return ok && mi.Length() > 0 && storeHasAll(target, mi)
				}
			case "cache":
				args = []string{"cache", "-n", "3", "-s", store, "-c", target, idxFile}
				complete = func() bool { return storeHasAll(target, idx) }
			}
			quoted := []string{}
			for _, a := range append([]string{binary}, args...) {
				quoted = append(quoted, "'"+a+"'")
			}
			cmd := exec.Command("bash", "-c", fmt.Sprintf("ulimit -f %d; exec %s", limit, strings.Join(quoted, " ")))
			cmd.Env = append(os.Environ(), "HOME=/nonexistent")
			var se bytes.Buffer
			cmd.Stderr = &se
			err := cmd.Run()
			exit := 0
			if err != nil {
				exit = 1
			}
			last := strings.TrimSpace(se.String())
			if i := strings.LastIndexByte(last, '\n'); i >= 0 {
				last = last[i+1:]
			}
			if len(last) > 160 {
				last = last[:160]
			}
			w.Emit(J{"ev": "cli", "fam": "localfault", "cmd": cmdname, "k": limit, "exit": exit, "hung": false, "complete": complete(), "valid_inputs": limit >= 100000, "out": last})
		}
	}
}

// ------------------------------------------------------------------------------------------------ extract

func runExtract(r *rand.Rand, dir string, n int) {
	for i := 0; i < n; i++ {
		sc := mkdir(filepath.Join(dir, "sc"))
		secs := map[string][]byte{}
		target := mkBlob(r, secs, "a b Z c d a e")
		older := mkBlob(r, secs, "a x c Z d")
		other := mkBlob(r, secs, "y e b")
		store := mkdir(filepath.Join(sc, "store"))
		idx := chunkInto(store, target)
		idxFile := filepath.Join(sc, "target.caibx")
		writeIndex(idx, idxFile)
		// seeds with their indexes; the seeds' chunks are NOT in the store
		seedStore := mkdir(filepath.Join(sc, "seedstore"))
		seedDir := mkdir(filepath.Join(sc, "seeds"))
		must(os.WriteFile(filepath.Join(seedDir, "older"), older, 0644))
		writeIndex(chunkInto(seedStore, older), filepath.Join(seedDir, "older.caibx"))
		must(os.WriteFile(filepath.Join(seedDir, "other"), other, 0644))
		writeIndex(chunkInto(seedStore, other), filepath.Join(seedDir, "other.caibx"))
		args := []string{"extract", "-n", fmt.Sprint(1 + r.Intn(4)), "-s", store}
		if r.Intn(3) == 0 {
			args = append(args, "--print-stats")
		}
		seedMode := []string{"none", "seed", "seed2", "seeddir"}[r.Intn(4)]
		switch seedMode {
		case "seed":
			args = append(args, "--seed", filepath.Join(seedDir, "older.caibx"))
		case "seed2":
			args = append(args, "--seed", filepath.Join(seedDir, "older.caibx"), "--seed", filepath.Join(seedDir, "other.caibx"))
		case "seeddir":
			args = append(args, "--seed-dir", seedDir)
		}
		// a stale seed: the file changed after its index was made
		stale := seedMode != "none" && r.Intn(3) == 0
		if stale {
			b := append([]byte{}, older...)
			for j := 9000; j < 9000+5000 && j < len(b); j++ {
				b[j] ^= 0x33
			}
			if r.Intn(2) == 0 {
				b = b[:len(b)/2]
			}
			must(os.WriteFile(filepath.Join(seedDir, "older"), b, 0644))
		}
		invalid := "bail"
		if r.Intn(3) == 1 {
			invalid = "skip"
			args = append(args, "--skip-invalid-seeds")
		} else if r.Intn(3) == 2 {
			invalid = "regenerate"
			args = append(args, "--regenerate-invalid-seeds")
		}
		// a chunk missing from the store
		missing := r.Intn(6) == 0
		if missing {
			c := idx.Chunks[r.Intn(len(idx.Chunks))]
			os.Remove(filepath.Join(store, c.ID.String()[:4], c.ID.String()+".cacnk"))
		}
		out := filepath.Join(sc, "out")
		prior := []string{"absent", "older", "garbage", "complete", "longer"}[r.Intn(5)]
		inplace := r.Intn(2) == 0
		switch prior {
		case "older":
			must(os.WriteFile(out, older, 0644))
		case "garbage":
			g := make([]byte, len(target)/2)
			r.Read(g)
			must(os.WriteFile(out, g, 0644))
		case "complete":
			must(os.WriteFile(out, target, 0644))
		case "longer":
			must(os.WriteFile(out, append(append([]byte{}, target...), older...), 0644))
		}
		if inplace {
			args = append(args, "-k")
		}
		args = append(args, idxFile, out)
		res := run(args...)
		got, _ := os.ReadFile(out)
		// the missing chunk may still be obtainable from a seed or from the prior content; success is only promised without it
		w.Emit(J{"ev": "cli", "fam": "extract", "cmd": "extract", "seedmode": seedMode, "stale": stale, "invalid": invalid, "missing": missing, "prior": prior, "inplace": inplace,
			"exit": res.exit, "hung": res.hung, "complete": bytes.Equal(got, target), "valid_inputs": !missing && (!stale || invalid != "bail"), "out": res.last, "k": i})
		// the index that is being extracted lies in the seed directory itself, next to a file of its name that holds an older
		// version (an image directory updated in place): it is not a seed for itself, however the two paths are spelled
		if i%6 == 0 && !missing {
			d2 := mkdir(filepath.Join(sc, "images"))
			writeIndex(idx, filepath.Join(d2, "v2.caibx"))
			must(os.WriteFile(filepath.Join(d2, "v2"), older, 0644))
			must(os.WriteFile(filepath.Join(d2, "v1"), older, 0644))
			writeIndex(chunkInto(seedStore, older), filepath.Join(d2, "v1.caibx"))
			for _, sp := range [][2]string{{d2, filepath.Join(d2, "v2.caibx")}, {d2, "images/v2.caibx"}, {"images", filepath.Join(d2, "v2.caibx")}, {"./images/", "images/../images/v2.caibx"}} {
				for _, k := range []bool{false, true} {
					out2 := filepath.Join(sc, "out2")
					os.Remove(out2)
					a := []string{"extract", "-s", store, "--seed-dir", sp[0]}
					if k {
						a = append(a, "-k")
						must(os.WriteFile(out2, older, 0644))
					}
					res := runIn(sc, append(a, sp[1], out2)...)
					got, _ := os.ReadFile(out2)
					w.Emit(J{"ev": "cli", "fam": "extract", "cmd": "extract --seed-dir " + sp[0][max(0, len(sp[0])-12):] + " " + sp[1][max(0, len(sp[1])-26):] + " (the index lies in the seed directory)", "inplace": k,
						"exit": res.exit, "hung": res.hung, "complete": bytes.Equal(got, target), "valid_inputs": true, "out": res.last, "k": i})
				}
			}
		}
	}
}

// ------------------------------------------------------------------------------------------------ cat / verify / make / tar

func runCat(r *rand.Rand, dir string, n int) {
	secs := map[string][]byte{}
	blob := mkBlob(r, secs, "a Z b a c")
	store := mkdir(filepath.Join(dir, "store"))
	idxFile := filepath.Join(dir, "blob.caibx")
	writeIndex(chunkInto(store, blob), idxFile)
	for i := 0; i < n; i++ {
		off := r.Intn(len(blob) + 2000)
		if i%7 == 0 {
			off = 0
		}
		ln := r.Intn(40000)
		args := []string{"cat", "-n", fmt.Sprint(1 + r.Intn(3)), "-s", store}
		want := blob
		valid := off <= len(blob)
		switch i % 3 {
		case 0:
			args = append(args, "-o", fmt.Sprint(off), "-l", fmt.Sprint(ln))
			want = slice(blob, off, ln)
			valid = off+ln <= len(blob) // asking for more than there is may be refused (io.CopyN reports EOF)
		case 1:
			args = append(args, "-o", fmt.Sprint(off))
			want = slice(blob, off, len(blob))
		}
		res := run(append(args, idxFile)...)
		w.Emit(J{"ev": "cli", "fam": "cat", "cmd": "cat", "k": i, "off": off, "len": ln, "exit": res.exit, "hung": res.hung, "complete": bytes.Equal(res.stdout, want),
			"valid_inputs": valid, "out": res.last})
		// the same request into an output file
		if i%2 == 0 {
			of := filepath.Join(dir, "cat.out")
			os.Remove(of)
			res := run(append(args, idxFile, of)...)
			got, _ := os.ReadFile(of)
			w.Emit(J{"ev": "cli", "fam": "cat", "cmd": "cat to a file", "k": i, "off": off, "len": ln, "exit": res.exit, "hung": res.hung, "complete": bytes.Equal(got, want),
				"valid_inputs": valid, "out": res.last})
		}
	}
	// a store that lacks one chunk, or holds a damaged one: the command fails, whether it writes to standard output or to a file
	idx := chunkInto(store, blob)
	for k, damage := range []string{"missing", "garbage", "other chunk"} {
		bad := mkdir(filepath.Join(dir, "badstore"))
		chunkInto(bad, blob)
		victim := idx.Chunks[len(idx.Chunks)/2].ID.String()
		vp := filepath.Join(bad, victim[:4], victim+".cacnk")
		switch damage {
		case "missing":
			os.Remove(vp)
		case "garbage":
			must(os.WriteFile(vp, []byte("this is not a compressed chunk"), 0644))
		case "other chunk":
			o := idx.Chunks[0].ID.String()
			b, err := os.ReadFile(filepath.Join(bad, o[:4], o+".cacnk"))
			must(err)
			must(os.WriteFile(vp, b, 0644))
		}
		for _, toFile := range []bool{false, true} {
			args := []string{"cat", "-s", bad, idxFile}
			of := filepath.Join(dir, "cat.out")
			os.Remove(of)
			if toFile {
				args = append(args, of)
			}
			res := run(args...)
			got := res.stdout
			if toFile {
				got, _ = os.ReadFile(of)
			}
			w.Emit(J{"ev": "cli", "fam": "cat", "cmd": "cat from a store with a " + damage + " chunk (to a file: " + fmt.Sprint(toFile) + ")", "k": k, "exit": res.exit, "hung": res.hung,
				"complete": bytes.Equal(got, blob), "valid_inputs": false, "out": res.last})
		}
	}
}

func slice(b []byte, off, ln int) []byte {
	if off > len(b) {
		return nil
	}
	end := off + ln
	if end > len(b) {
		end = len(b)
	}
	return b[off:end]
}

func runVerify(r *rand.Rand, dir string, n int) {
	secs := map[string][]byte{}
	blob := mkBlob(r, secs, "a b Z c a")
	store := mkdir(filepath.Join(dir, "store"))
	idx := chunkInto(store, blob)
	idxFile := filepath.Join(dir, "blob.caibx")
	writeIndex(idx, idxFile)
	for i := 0; i < n; i++ {
		b := append([]byte{}, blob...)
		kind := []string{"equal", "byte", "truncated", "extended", "swap", "lastbyte", "empty"}[i%7]
		switch kind {
		case "byte":
			b[r.Intn(len(b))] ^= 1
		case "lastbyte":
			b[len(b)-1] ^= 0x80
		case "truncated":
			b = b[:len(b)-1-r.Intn(3000)]
		case "extended":
			b = append(b, byte(r.Intn(256)))
		case "swap":
			c1, c2 := idx.Chunks[0], idx.Chunks[len(idx.Chunks)-1]
			if c1.Size == c2.Size {
				kind = "equal"
			} else {
				end := c2.Start + c1.Size
				if end > uint64(len(b)) {
					end = uint64(len(b))
				}
				copy(b[c1.Start:], append([]byte{}, b[c2.Start:end]...))
			}
		case "empty":
			b = nil
		}
		f := filepath.Join(dir, "candidate")
		must(os.WriteFile(f, b, 0644))
		res := run("verify-index", "-n", fmt.Sprint([]int{1, 2, 3, 8, 64}[r.Intn(5)]), idxFile, f)
		w.Emit(J{"ev": "cli", "fam": "verify", "cmd": "verify-index", "k": i, "kind": kind, "exit": res.exit, "hung": res.hung, "complete": bytes.Equal(b, blob),
			"valid_inputs": bytes.Equal(b, blob), "out": res.last})
	}
	// the empty blob: its index (as `make` writes it) matches the empty file for every worker count, and nothing else
	emptyFile, emptyIdx := filepath.Join(dir, "emptyblob"), filepath.Join(dir, "empty.caibx")
	must(os.WriteFile(emptyFile, nil, 0644))
	if rm := run("make", emptyIdx, emptyFile); rm.exit == 0 {
		for k, nw := range []string{"", "1", "2", "10", "64"} {
			for _, content := range [][]byte{nil, {0}} {
				f := filepath.Join(dir, "candidate")
				must(os.WriteFile(f, content, 0644))
				args := []string{"verify-index"}
				if nw != "" {
					args = append(args, "-n", nw)
				}
				res := run(append(args, emptyIdx, f)...)
				w.Emit(J{"ev": "cli", "fam": "verify", "cmd": "verify-index of the empty blob's index", "k": k, "kind": fmt.Sprintf("%d-byte file", len(content)), "exit": res.exit, "hung": res.hung,
					"complete": len(content) == 0, "valid_inputs": len(content) == 0, "out": res.last})
			}
		}
	}
}

func runMake(r *rand.Rand, dir string, n int) {
	for i := 0; i < n; i++ {
		secs := map[string][]byte{}
		blob := mkBlob(r, secs, []string{"a b Z c a", "Z Z a", "a", "a b c d e f g h"}[i%4])
		if i%5 == 4 {
			blob = blob[:r.Intn(3000)]
		}
		blobFile := filepath.Join(dir, "blob")
		must(os.WriteFile(blobFile, blob, 0644))
		refStore := mkdir(filepath.Join(dir, "refstore"))
		var ref bytes.Buffer
		ridx := chunkInto(refStore, blob)
		// the CLI adds the feature flags of `make`; compare chunk tables
		_, _ = ridx.WriteTo(&ref)
		for _, nw := range []int{1, 3, 8} {
			store := mkdir(filepath.Join(dir, "store"))
			out := filepath.Join(dir, "made.caibx")
			os.Remove(out)
			res := run("make", "-n", fmt.Sprint(nw), "-m", "1:4:16", "-s", store, out, blobFile)
			same := false
			if f, err := os.Open(out); err == nil {
				mi, err := desync.IndexFromReader(f)
				f.Close()
				if err == nil && len(mi.Chunks) == len(ridx.Chunks) {
					same = true
					for j := range mi.Chunks {
						if mi.Chunks[j] != ridx.Chunks[j] {
							same = false
						}
					}
				}
				same = same && storeHasAll(store, ridx)
			}
			w.Emit(J{"ev": "cli", "fam": "make", "cmd": "make", "k": i, "n": nw, "exit": res.exit, "hung": res.hung, "complete": same, "valid_inputs": true, "out": res.last, "size": len(blob)})
		}
		// `desync chunk [-S start]`: start / length / ID of every chunk of the file from that position on
		for _, start := range []int{0, r.Intn(len(blob) + 1), len(blob)} {
			args := []string{"chunk", "-m", "1:4:16"}
			if start > 0 {
				args = append(args, "-S", fmt.Sprint(start))
			}
			res := run(append(args, blobFile)...)
			want := ""
			if ck, err := desync.NewChunker(bytes.NewReader(blob[start:]), 1024, 4096, 16384); err == nil {
				for {
					pos, b, err := ck.Next()
					if err != nil || len(b) == 0 {
						break
					}
					want += fmt.Sprintf("%d\t%d\t%x\n", int(pos)+start, len(b), desync.Digest.Sum(b))
				}
			}
			w.Emit(J{"ev": "cli", "fam": "make", "cmd": "chunk -S (chunk list from a start position)", "k": i, "n": start, "exit": res.exit, "hung": res.hung,
				"complete": string(res.stdout) == want, "valid_inputs": true, "out": res.last, "size": len(blob)})
		}
	}
}

func runTar(r *rand.Rand, dir string, n int) {
	for i := 0; i < n; i++ {
		src := mkdir(filepath.Join(dir, "src"))
		mkTree(r, src)
		want := treeDigest(src)
		catar := filepath.Join(dir, "t.catar")
		// the archive path is reused: a larger archive of another tree is there already
		big := mkdir(filepath.Join(dir, "big"))
		mkTree(r, big)
		for j := 0; j < 6; j++ {
			x := make([]byte, 40000)
			r.Read(x)
			os.WriteFile(filepath.Join(big, fmt.Sprintf("extra%d", j)), x, 0644)
		}
		run("tar", catar, big)
		// the source directory spelled in equivalent ways
		spell := []string{src, src + "/", src + "/.", filepath.Dir(src) + "/./" + filepath.Base(src), src + "//"}[i%5]
		res1 := run("tar", catar, spell)
		dst := mkdir(filepath.Join(dir, "dst"))
		res2 := run("untar", "--no-same-owner", catar, dst)
		w.Emit(J{"ev": "cli", "fam": "tar", "cmd": "tar+untar", "k": i, "exit": res1.exit + res2.exit, "hung": res1.hung || res2.hung, "complete": treeDigest(dst) == want,
			"valid_inputs": true, "out": res1.last + res2.last})
		// output that cannot be written completely: the command must not report success
		resFull := run("tar", "/dev/full", src)
		w.Emit(J{"ev": "cli", "fam": "tar", "cmd": "tar to /dev/full", "k": i, "exit": resFull.exit, "hung": resFull.hung, "complete": false, "valid_inputs": false, "out": resFull.last})
		if st, err := os.Stat(catar); err == nil && st.Size() > 4096 {
			limited := filepath.Join(dir, "limited.catar")
			os.Remove(limited)
			kb := int((st.Size() - 100) / 1024) // the last bytes do not fit
			if kb < 1 {
				kb = 1
			}
			cmd := exec.Command("bash", "-c", fmt.Sprintf("ulimit -f %d; exec '%s' tar '%s' '%s'", kb, binary, limited, src))
			cmd.Env = append(os.Environ(), "HOME=/nonexistent")
			lerr := cmd.Run()
			lst, _ := os.Stat(limited)
			complete := lst != nil && lst.Size() == st.Size()
			ex := 0
			if lerr != nil {
				ex = 1
			}
			w.Emit(J{"ev": "cli", "fam": "tar", "cmd": "tar under a file size limit", "k": i, "exit": ex, "hung": false, "complete": complete, "valid_inputs": false, "out": ""})
		}
		// a tar stream as input that ends inside a file body
		{
			var tb bytes.Buffer
			tw := tar.NewWriter(&tb)
			var bodyEnds, padEnds []int // per member: where its body ends and where its padding ends (header = one 512-byte block)
			for j := 0; j < 4; j++ {
				body := make([]byte, 20000+r.Intn(20000))
				r.Read(body)
				tw.WriteHeader(&tar.Header{Name: fmt.Sprintf("f%d", j), Mode: 0644, Size: int64(len(body)), Typeflag: tar.TypeReg, ModTime: time.Unix(1600000000, 0)})
				tw.Write(body)
				tw.Flush()
				padEnds = append(padEnds, tb.Len())
				bodyEnds = append(bodyEnds, tb.Len()-(512-len(body)%512)%512)
			}
			tw.Close()
			full := tb.Bytes()
			cut := len(full)/2 + 77
			// a stream that ends in the padding behind a complete member is, to a tar reader, an archive of the members so far
			// (no end marker is required): then the command may succeed, with exactly those members
			wholeMembers := -1
			for j := range padEnds {
				if cut >= bodyEnds[j] && cut <= padEnds[j] {
					wholeMembers = j + 1
				}
			}
			for vi, data := range [][]byte{full, full[:cut]} {
				tf := filepath.Join(dir, "in.tar")
				must(os.WriteFile(tf, data, 0644))
				ts := mkdir(filepath.Join(dir, "tarstore"))
				ti := filepath.Join(dir, "fromtar.caidx")
				os.Remove(ti)
				rs := run("tar", "-i", "--input-format", "tar", "--tar-add-root", "-n", "2", "-m", "1:4:16", "-s", ts, ti, tf)
				ok := false
				wantFiles := 4
				if vi == 1 {
					wantFiles = wholeMembers
				}
				if wantFiles >= 0 && rs.exit == 0 {
					d3 := mkdir(filepath.Join(dir, "dst3"))
					ru := run("untar", "-i", "-s", ts, "--no-same-owner", ti, d3)
					n := 0
					filepath.Walk(d3, func(p string, info os.FileInfo, err error) error {
						if err == nil && info.Mode().IsRegular() {
							n++
						}
						return nil
					})
					ok = ru.exit == 0 && n == wantFiles
				}
				w.Emit(J{"ev": "cli", "fam": "tar", "cmd": []string{"tar -i from a tar stream", "tar -i from a truncated tar stream"}[vi], "k": i, "exit": rs.exit, "hung": rs.hung,
					"complete": ok, "valid_inputs": vi == 0, "out": rs.last})
			}
		}
		store := mkdir(filepath.Join(dir, "tstore"))
		caidx := filepath.Join(dir, "t.caidx")
		res3 := run("tar", "-i", "-n", "3", "-m", "1:4:16", "-s", store, caidx, spell)
		dst2 := mkdir(filepath.Join(dir, "dst2"))
		res4 := run("untar", "-i", "-n", "3", "-s", store, "--no-same-owner", caidx, dst2)
		w.Emit(J{"ev": "cli", "fam": "tar", "cmd": "tar-i+untar-i", "k": i, "exit": res3.exit + res4.exit, "hung": res3.hung || res4.hung, "complete": treeDigest(dst2) == want,
			"valid_inputs": true, "out": res3.last + res4.last})
	}
}

// ------------------------------------------------------------------------------------------------ stdout
// Commands that write their product to standard output ("-"): whatever the progress settings and whatever else the
// command has to say (warnings about skipped nodes, statistics), standard output holds exactly the product - the bytes
// the same command writes to a file.
func runStdout(r *rand.Rand, dir string, what string) {
	envs := [][]string{nil, {"DESYNC_PROGRESSBAR_ENABLED=1"}, {"DESYNC_ENABLE_PARSABLE_PROGRESS=1"}}
	secs := map[string][]byte{}
	blob := mkBlob(r, secs, "a b Z c a")
	blobFile := filepath.Join(dir, "blob")
	must(os.WriteFile(blobFile, blob, 0644))
	store := mkdir(filepath.Join(dir, "store"))
	src := filepath.Join(dir, "src")
	mkTree(r, src)
	// a node tar skips with a warning
	syscall.Mkfifo(filepath.Join(src, "zz-fifo"), 0644)
	defer func() { extraEnv = nil }()
	for ei, env := range envs {
		extraEnv = env
		emit := func(cmd string, res result, want []byte, wantOK bool) {
			w.Emit(J{"ev": "cli", "fam": "stdout", "cmd": cmd, "k": ei, "exit": res.exit, "hung": res.hung,
				"complete": wantOK && bytes.Equal(res.stdout, want), "valid_inputs": true, "out": res.last})
		}
		switch what {
		case "index":
			// make: index to a file, then to standard output (with and without statistics)
			f := filepath.Join(dir, "made.caibx")
			rf := run("make", "-n", "2", "-m", "1:4:16", "-s", store, f, blobFile)
			want, err := os.ReadFile(f)
			emit("make - (index on stdout)", run("make", "-n", "2", "-m", "1:4:16", "-s", store, "-", blobFile), want, rf.exit == 0 && err == nil)
			emit("make --print-stats - (index on stdout)", run("make", "--print-stats", "-n", "2", "-m", "1:4:16", "-s", store, "-", blobFile), want, rf.exit == 0 && err == nil)
			fi := filepath.Join(dir, "made.caidx")
			rfi := run("tar", "-i", "-n", "2", "-m", "1:4:16", "-s", store, fi, src)
			wanti, err := os.ReadFile(fi)
			emit("tar -i - (index on stdout)", run("tar", "-i", "-n", "2", "-m", "1:4:16", "-s", store, "-", src), wanti, rfi.exit == 0 && err == nil)
			// and read back from standard input
			if err == nil {
				c := exec.Command(binary, "list-chunks", "-")
				c.Env = append(append(os.Environ(), "HOME=/nonexistent"), env...)
				c.Stdin = bytes.NewReader(want)
				outb, cerr := c.Output()
				idx, ierr := desync.IndexFromReader(bytes.NewReader(want))
				lines := ""
				if ierr == nil {
					for _, ch := range idx.Chunks {
						lines += ch.ID.String() + "\n"
					}
				}
				ex := 0
				if cerr != nil {
					ex = 1
				}
				w.Emit(J{"ev": "cli", "fam": "stdout", "cmd": "list-chunks - (index on stdin)", "k": ei, "exit": ex, "hung": false,
					"complete": ierr == nil && string(outb) == lines, "valid_inputs": true, "out": ""})
			}
		case "catar":
			f := filepath.Join(dir, "made.catar")
			rf := run("tar", f, src)
			want, err := os.ReadFile(f)
			emit("tar - (archive on stdout, tree with a node that is skipped with a warning)", run("tar", "-", src), want, rf.exit == 0 && err == nil)
			if err == nil {
				g := filepath.Join(dir, "out.tar")
				rg := run("untar", "--no-same-owner", "--output-format", "gnu-tar", f, g)
				wantg, gerr := os.ReadFile(g)
				emit("untar --output-format gnu-tar - (tar stream on stdout)", run("untar", "--no-same-owner", "--output-format", "gnu-tar", f, "-"), wantg, rg.exit == 0 && gerr == nil)
			}
		case "blob":
			idx := chunkInto(store, blob)
			f := filepath.Join(dir, "blob.caibx")
			writeIndex(idx, f)
			emit("cat (blob on stdout)", run("cat", "-s", store, f), blob, true)
			emit("cat -o -l (range on stdout)", run("cat", "-s", store, "-o", "1000", "-l", "5000", f), slice(blob, 1000, 5000), true)
		}
	}
}

func main() {
	mode := flag.String("mode", "all", "comma-separated: fault,extract,cat,verify,make,tar | all")
	seed := flag.Int64("seed", 1, "seed")
	out := flag.String("out", "", "trace output")
	dir := flag.String("dir", "", "scratch dir (absolute)")
	bin := flag.String("desync", "", "desync binary built from the tree under test")
	thorough := flag.Bool("thorough", false, "larger sweeps")
	flag.Parse()
	if !filepath.IsAbs(*dir) {
		must(fmt.Errorf("-dir must be absolute"))
	}
	binary = *bin
	var err error
	w, err = trace.Create(*out)
	must(err)
	r := rand.New(rand.NewSource(*seed))
	mult := 1
	if *thorough {
		mult = 8
	}
	has := func(m string) bool { return *mode == "all" || strings.Contains(","+*mode+",", ","+m+",") }
	if has("fault") {
		runFault(r, mkdir(filepath.Join(*dir, "fault")), *thorough)
		runLocalFault(r, mkdir(filepath.Join(*dir, "localfault")))
		runCorruptSource(r, mkdir(filepath.Join(*dir, "corruptsource")))
		runS3Fault(r, mkdir(filepath.Join(*dir, "s3fault")), *thorough)
	}
	if has("server") {
		runServer(r, mkdir(filepath.Join(*dir, "server")))
		runServerSSH(r, mkdir(filepath.Join(*dir, "serverssh")))
	}
	if has("ssh") {
		runSSH(r, mkdir(filepath.Join(*dir, "ssh")))
	}
	if has("config") {
		runConfig(r, mkdir(filepath.Join(*dir, "config")))
	}
	if has("chain") {
		runChain(r, mkdir(filepath.Join(*dir, "chain")))
	}
	if has("extract") {
		runExtract(r, mkdir(filepath.Join(*dir, "extract")), 60*mult)
	}
	if has("cat") {
		runCat(r, mkdir(filepath.Join(*dir, "cat")), 40*mult)
	}
	if has("verify") {
		runVerify(r, mkdir(filepath.Join(*dir, "verify")), 28*mult)
	}
	if has("make") {
		runMake(r, mkdir(filepath.Join(*dir, "make")), 8*mult)
	}
	if has("tar") {
		runTar(r, mkdir(filepath.Join(*dir, "tar")), 5*mult)
	}
	for _, what := range []string{"index", "catar", "blob"} {
		if has("stdout-" + what) {
			runStdout(r, mkdir(filepath.Join(*dir, "stdout-"+what)), what)
		}
	}
	must(w.Close())
	os.RemoveAll(*dir)
	fmt.Printf("records=%d\n", w.N)
}
