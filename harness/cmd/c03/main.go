// c03 damages stored chunk objects behind real backends (LocalStore compressed/uncompressed, RemoteHTTP against the
// real chunk handler, the casync protocol against the real ProtocolServer and against a raw peer) in every corruption
// class, fetches them directly and through every wrapper, and runs consumers (AssembleFile, IndexPos, SparseFile)
// over the poisoned store. Records go to Trace_StoreChain.tla (actions TLeaf / TConsumer).
package main

import (
	"bytes"
	"context"
	"errors"
	"flag"
	"fmt"
	"io"
	"math/rand"
	"net/http/httptest"
	"net/url"
	"os"
	"path/filepath"
	"time"

	"github.com/folbricht/desync"
	minio "github.com/minio/minio-go/v6"
	"github.com/minio/minio-go/v6/pkg/credentials"

	"verif/harness/fakes"
	"verif/harness/trace"
)

var classes = []string{"none", "bitflip", "truncated", "empty", "otherchunk", "otherframe", "rawincomp", "compinraw", "garbage"}

type world struct {
	r      *rand.Rand
	data   [][]byte
	ids    []desync.ChunkID
	blob   []byte
	idx    desync.Index
	target int
}

func newWorld(r *rand.Rand) *world {
	w := &world{r: r}
	var pos uint64
	for i := 0; i < 4; i++ {
		var d []byte
		switch i {
		case 0:
			d = make([]byte, 300+r.Intn(300))
			r.Read(d)
		case 1:
			d = bytes.Repeat([]byte("text text text "), 20+r.Intn(20))
		case 2:
			d = []byte{byte(r.Intn(256))}
		default:
			d = make([]byte, 100+r.Intn(100))
			r.Read(d)
		}
		w.data = append(w.data, d)
		id := desync.NewChunk(d).ID()
		w.ids = append(w.ids, id)
		w.idx.Chunks = append(w.idx.Chunks, desync.IndexChunk{ID: id, Start: pos, Size: uint64(len(d))})
		pos += uint64(len(d))
		w.blob = append(w.blob, d...)
	}
	w.idx.Index.ChunkSizeMax = 4096
	w.target = r.Intn(4)
	return w
}

func path(dir string, id desync.ChunkID, comp bool) string {
	s := id.String()
	p := filepath.Join(dir, s[:4], s)
	if comp {
		p += ".cacnk"
	}
	return p
}

// damage the stored object of chunk t according to class; returns false if the class does not apply
func (w *world) damage(dir string, comp bool, class string) bool {
	t := w.target
	p := path(dir, w.ids[t], comp)
	orig, err := os.ReadFile(p)
	if err != nil {
		panic(err)
	}
	other := w.data[(t+1)%4]
	var b []byte
	switch class {
	case "none":
		return true
	case "bitflip":
		b = append([]byte{}, orig...)
		b[w.r.Intn(len(b))] ^= 1 << uint(w.r.Intn(8))
	case "truncated":
		if len(orig) < 2 {
			return false
		}
		b = orig[:w.r.Intn(len(orig)-1)+1]
	case "empty":
		b = []byte{}
	case "otherchunk":
		b, _ = os.ReadFile(path(dir, w.ids[(t+1)%4], comp))
	case "otherframe":
		if !comp {
			return false
		}
		x := make([]byte, 50+w.r.Intn(200))
		w.r.Read(x)
		b, _ = desync.Compress(x)
	case "rawincomp":
		if !comp {
			return false
		}
		b = w.data[t]
	case "compinraw":
		if comp {
			return false
		}
		b, _ = desync.Compress(w.data[t])
	case "garbage":
		b = make([]byte, 1+w.r.Intn(300))
		w.r.Read(b)
		_ = other
	}
	os.WriteFile(p, b, 0644)
	return true
}

func classGet(c *desync.Chunk, err error, want []byte) string {
	if err != nil {
		var in desync.ChunkInvalid
		switch {
		case isMissing(err):
			return "missing"
		case errors.As(err, &in):
			return "invalid"
		}
		return "error"
	}
	if c == nil {
		return "error"
	}
	d, derr := c.Data()
	if derr != nil {
		return "invalid" // a chunk object whose data cannot be produced is a failure for every consumer
	}
	if !bytes.Equal(d, want) {
		return "okbad"
	}
	return "ok"
}

// an empty store that misses everything
type empty struct{}

func (empty) GetChunk(id desync.ChunkID) (*desync.Chunk, error) {
	return nil, desync.ChunkMissing{ID: id}
}
func (empty) HasChunk(desync.ChunkID) (bool, error) { return false, nil }
func (empty) Close() error                          { return nil }
func (empty) String() string                        { return "empty" }

func wrappers(leaf desync.Store, cacheDir string) map[string]desync.Store {
	os.RemoveAll(cacheDir)
	os.MkdirAll(cacheDir, 0755)
	cl, _ := desync.NewLocalStore(cacheDir, desync.StoreOptions{})
	os.MkdirAll(cacheDir+"2", 0755)
	cl2, _ := desync.NewLocalStore(cacheDir+"2", desync.StoreOptions{})
	return map[string]desync.Store{
		"none":        leaf,
		"cache":       desync.NewCache(leaf, cl),
		"repaircache": desync.NewCache(leaf, desync.NewRepairableCache(cl2)),
		"router":      desync.NewStoreRouter(empty{}, leaf),
		"failover":    desync.NewFailoverGroup(leaf, leaf),
		"dedup":       desync.NewDedupQueue(leaf),
		"swap":        desync.NewSwapStore(leaf),
	}
}

// isMissing: "missing" is recognised the way desync's own consumers do it (router, cache, failover group, HTTP handler,
// protocol server): by the error's dynamic type, not through a chain of wrapped errors
func isMissing(err error) bool {
	_, ok := err.(desync.ChunkMissing)
	return ok
}

func main() {
	seed := flag.Int64("seed", 1, "seed")
	rounds := flag.Int("rounds", 3, "instances per class and backend")
	out := flag.String("out", "", "trace output")
	dir := flag.String("dir", "", "scratch directory")
	flag.Parse()
	tw, err := trace.Create(*out)
	if err != nil {
		fmt.Fprintln(os.Stderr, err)
		os.Exit(2)
	}
	r := rand.New(rand.NewSource(*seed))
	scen := 0
	n := 0
	for round := 0; round < *rounds; round++ {
		for _, class := range classes {
			for _, comp := range []bool{true, false} {
				for _, verify := range []bool{true, false} {
					w := newWorld(r)
					sdir := filepath.Join(*dir, "store")
					os.RemoveAll(sdir)
					os.MkdirAll(sdir, 0755)
					wr, _ := desync.NewLocalStore(sdir, desync.StoreOptions{Uncompressed: !comp})
					for _, d := range w.data {
						wr.StoreChunk(desync.NewChunk(d))
					}
					opt := desync.StoreOptions{Uncompressed: !comp, SkipVerify: !verify}
					local, _ := desync.NewLocalStore(sdir, opt)
					// in half of the cases the object is read once, intact, through the same store object before it is damaged
					preread := r.Intn(2) == 0
					if preread {
						for i := range w.ids {
							local.GetChunk(w.ids[i])
						}
					}
					if !w.damage(sdir, comp, class) {
						continue
					}
					// the HTTP server passes the stored bytes through; verification is the client's
					srvStore, _ := desync.NewLocalStore(sdir, desync.StoreOptions{Uncompressed: !comp, SkipVerify: true})
					var conv desync.Converters
					if comp {
						conv = desync.Converters{desync.Compressor{}}
					}
					srv := httptest.NewServer(desync.NewHTTPHandler(srvStore, false, true, conv, ""))
					u, _ := url.Parse(srv.URL + "/")
					hopt := opt
					hopt.ErrorRetry = 0
					remote, err := desync.NewRemoteHTTPStore(u, hopt)
					if err != nil {
						panic(err)
					}
					backends := map[string]desync.Store{"local": local, "http": remote}
					// casync protocol: real server over a (non-verifying) compressed local store, client always verifies
					if comp {
						backends["proto"] = &protoStore{serverStore: srvStore}
						backends["protoraw"] = &protoRaw{dir: sdir}
						backends["protorelabel"] = &protoRaw{dir: sdir, relabel: true}
					}
					// S3: the same objects (the damaged one included) in a bucket of the harness's in-memory S3 endpoint, read by the real S3Store
					fs3 := fakes.NewFakeS3()
					filepath.Walk(sdir, func(p string, info os.FileInfo, err error) error {
						if err == nil && info.Mode().IsRegular() {
							if rel, rerr := filepath.Rel(sdir, p); rerr == nil {
								b, _ := os.ReadFile(p)
								fs3.Put("bkt/"+filepath.ToSlash(rel), b)
							}
						}
						return nil
					})
					{
						su, _ := url.Parse("s3+http://" + fs3.Addr + "/bkt")
						s3opt := opt
						s3opt.ErrorRetry = 0
						if s3s, err := desync.NewS3Store(su, credentials.NewStaticV4("", "", ""), "us-east-1", s3opt, minio.BucketLookupPath); err == nil {
							backends["s3"] = s3s
						}
					}
					for bname, leaf := range backends {
						// chunks a caller holds stay what was delivered while the store delivers others (buffers are not re-used under a chunk)
						{
							scen++
							var held []*desync.Chunk
							var which []int
							res := "ok"
							for pass := 0; pass < 2 && res == "ok"; pass++ {
								for i := range w.ids {
									if i == w.target {
										continue
									}
									c, err := leaf.GetChunk(w.ids[i])
									if err != nil {
										res = "error"
										break
									}
									held = append(held, c)
									which = append(which, i)
								}
							}
							for k, c := range held {
								if d, err := c.Data(); res == "ok" && (err != nil || !bytes.Equal(d, w.data[which[k]])) {
									res = "okbad"
								}
							}
							tw.Emit(trace.M("ev", "leaf", "scen", scen, "backend", bname, "compressed", comp, "class", "none", "verified", verify,
								"wrapper", "held while others are fetched", "res", res, "res2", res, "preread", preread))
							n++
						}
						verified := verify || bname == "proto" || bname == "protoraw" || bname == "protorelabel"
						for wname, s := range wrappers(leaf, filepath.Join(*dir, "cache")) {
							scen++
							c, err := s.GetChunk(w.ids[w.target])
							res := classGet(c, err, w.data[w.target])
							// a second read: caches must not have been poisoned
							c2, err2 := s.GetChunk(w.ids[w.target])
							res2 := classGet(c2, err2, w.data[w.target])
							if res2 == "okbad" {
								res = "okbad"
							}
							tw.Emit(trace.M("ev", "leaf", "scen", scen, "backend", bname, "compressed", comp, "class", class, "verified", verified,
								"wrapper", wname, "res", res, "res2", res2, "preread", preread))
							n++
						}
					}
					// consumers over the verifying poisoned local store
					if verify {
						scen++
						consumers(tw, scen, w, local, class, *dir)
					}
					srv.Close()
					fs3.Close()
				}
			}
		}
	}
	if err := tw.Close(); err != nil {
		fmt.Fprintln(os.Stderr, err)
		os.Exit(2)
	}
	fmt.Printf("probes=%d events=%d\n", n, tw.N)
}

// run f with a watchdog: a consumer that neither fails nor completes is recorded and ends the run
func guarded(tw *trace.Writer, scen int, name, class string, f func()) {
	done := make(chan struct{})
	go func() { f(); close(done) }()
	select {
	case <-done:
	case <-time.After(10 * time.Second):
		tw.Emit(trace.M("ev", "consumer", "scen", scen, "name", name, "class", class, "res", "hang", "equal", false))
		tw.Close()
		fmt.Printf("consumer %s did not return (class %s)\n", name, class)
		os.Exit(0)
	}
}

func consumers(tw *trace.Writer, scen int, w *world, s desync.Store, class, dir string) {
	guarded(tw, scen, "consumers", class, func() { consumers1(tw, scen, w, s, class, dir) })
}

func consumers1(tw *trace.Writer, scen int, w *world, s desync.Store, class, dir string) {
	emit := func(name string, err error, got []byte) {
		res := "ok"
		if err != nil {
			res = "error"
		}
		tw.Emit(trace.M("ev", "consumer", "scen", scen, "name", name, "class", class, "res", res, "equal", bytes.Equal(got, w.blob)))
	}
	// extract
	target := filepath.Join(dir, "extract.out")
	os.Remove(target)
	_, err := desync.AssembleFile(context.Background(), target, w.idx, s, nil, desync.AssembleOptions{N: 2})
	got, _ := os.ReadFile(target)
	emit("AssembleFile", err, got)
	// cat (seekable reader)
	rs := desync.NewIndexReadSeeker(w.idx, s)
	var buf bytes.Buffer
	_, err = io.Copy(&buf, rs)
	emit("IndexPos", err, buf.Bytes())
	// the file handle of an index mount: requests that cross chunk boundaries. A short answer without an error is what the
	// kernel takes for end-of-file - it fills the rest of the pages with zeros - so it counts as zeros here
	{
		read := desync.VerifIndexFileRead(w.idx, s)
		var out []byte
		var merr error
		stride := 700
		for off := 0; off < len(w.blob) && merr == nil; off += stride {
			want := stride
			if off+want > len(w.blob) {
				want = len(w.blob) - off
			}
			b, errno := read(make([]byte, want), int64(off))
			if errno != 0 {
				merr = fmt.Errorf("errno %d", errno)
				break
			}
			out = append(out, b...)
			out = append(out, make([]byte, want-len(b))...)
		}
		emit("MountHandle", merr, out)
	}
	// sparse file
	cf := filepath.Join(dir, "sparse.cache")
	os.Remove(cf)
	sf, err := desync.NewSparseFile(cf, w.idx, s, desync.SparseFileOptions{})
	if err == nil {
		h, _ := sf.Open()
		b := make([]byte, len(w.blob))
		nn, rerr := h.ReadAt(b, 0)
		if rerr == io.EOF {
			rerr = nil
		}
		h.Close()
		emit("SparseFile", rerr, b[:nn])
	}
}

// casync protocol client against the real ProtocolServer, one session per request
type protoStore struct{ serverStore desync.Store }

func (p *protoStore) GetChunk(id desync.ChunkID) (*desync.Chunk, error) {
	cr, sw := io.Pipe()
	sr, cw := io.Pipe()
	srv := desync.NewProtocolServer(sr, sw, p.serverStore)
	go func() { srv.Serve(context.Background()); sw.Close(); sr.Close() }()
	cl := desync.NewProtocol(cr, cw)
	if _, err := cl.Initialize(desync.CaProtocolPullChunks); err != nil {
		return nil, err
	}
	c, err := cl.RequestChunk(id)
	cw.Close()
	cr.Close()
	return c, err
}
func (p *protoStore) HasChunk(id desync.ChunkID) (bool, error) { return true, nil }
func (p *protoStore) Close() error                             { return nil }
func (p *protoStore) String() string                           { return "proto" }

// a raw casync peer that sends whatever bytes are stored under the name as the CHUNK payload
// relabel: the peer labels its reply with the ID the object's content really has (a peer that is out of step, or hostile):
// the reply is then a self-consistent chunk - just not the requested one
type protoRaw struct {
	dir     string
	relabel bool
}

func (p *protoRaw) GetChunk(id desync.ChunkID) (*desync.Chunk, error) {
	cr, sw := io.Pipe()
	sr, cw := io.Pipe()
	go func() {
		peer := desync.NewProtocol(sr, sw)
		if _, err := peer.Initialize(desync.CaProtocolReadableStore); err != nil {
			sw.Close()
			return
		}
		m, err := peer.ReadMessage()
		if err == nil && m.Type == desync.CaProtocolRequest {
			b, rerr := os.ReadFile(path(p.dir, id, true))
			if rerr != nil {
				peer.SendMissing(id)
			} else {
				label := id
				if p.relabel {
					if d, derr := desync.Decompress(nil, b); derr == nil {
						label = desync.NewChunk(d).ID()
					}
				}
				peer.SendProtocolChunk(label, desync.CaProtocolChunkCompressed, b)
			}
		}
		sw.Close()
		sr.Close()
	}()
	cl := desync.NewProtocol(cr, cw)
	if _, err := cl.Initialize(desync.CaProtocolPullChunks); err != nil {
		return nil, err
	}
	c, err := cl.RequestChunk(id)
	cw.Close()
	cr.Close()
	return c, err
}
func (p *protoRaw) HasChunk(id desync.ChunkID) (bool, error) { return true, nil }
func (p *protoRaw) Close() error                             { return nil }
func (p *protoRaw) String() string                           { return "protoraw" }
