// c16 builds store directories with every kind of file (valid / invalid chunks of both formats, abandoned temporary files,
// junk, chunk-named files in foreign directories), runs the real LocalStore.Prune and Verify on them (and the prune / verify
// commands of the real binary for a subset) and records what disappeared and what was reported. Trace_LocalStoreFS.tla.
package main

import (
	"bytes"
	"context"
	"flag"
	"fmt"
	"io"
	"math/rand"
	"os"
	"os/exec"
	"path/filepath"
	"regexp"
	"sort"
	"strings"
	"sync"

	"github.com/folbricht/desync"

	"verif/harness/trace"
)

type J = map[string]interface{}

type file struct {
	Kind  string `json:"kind"`
	ID    int    `json:"id"`
	Fmt   string `json:"fmt"`
	Valid bool   `json:"valid"`
	path  string
}

func (f file) j() J { return J{"kind": f.Kind, "id": f.ID, "fmt": f.Fmt, "valid": f.Valid} }

var (
	datas [][]byte
	ids   []desync.ChunkID
)

func chunkPath(base string, id desync.ChunkID, fmtS string) string {
	s := id.String()
	p := filepath.Join(base, s[:4], s)
	if fmtS == "comp" {
		p += ".cacnk"
	}
	return p
}

func write(p string, b []byte) {
	os.MkdirAll(filepath.Dir(p), 0755)
	os.WriteFile(p, b, 0644)
}

// lockedWriter serialises writes: Verify's workers report through the writer from several goroutines (os.Stderr in the
// command, which is safe for that; a bytes.Buffer is not)
type lockedWriter struct {
	mu sync.Mutex
	w  io.Writer
}

func (l *lockedWriter) Write(b []byte) (int, error) {
	l.mu.Lock()
	defer l.mu.Unlock()
	return l.w.Write(b)
}

func main() {
	seed := flag.Int64("seed", 1, "seed")
	n := flag.Int("n", 300, "store directories")
	out := flag.String("out", "", "trace output")
	dir := flag.String("dir", "", "scratch dir")
	desyncBin := flag.String("desync", "", "desync binary for CLI runs")
	flag.Parse()
	w, err := trace.Create(*out)
	if err != nil {
		fmt.Fprintln(os.Stderr, err)
		os.Exit(2)
	}
	r := rand.New(rand.NewSource(*seed))
	datas = append(datas, nil)
	ids = append(ids, desync.ChunkID{})
	for i := 1; i <= 4; i++ {
		d := make([]byte, 100+r.Intn(200))
		r.Read(d)
		datas = append(datas, d)
		ids = append(ids, desync.NewChunk(d).ID())
	}
	idNum := map[string]int{}
	for i := 1; i <= 4; i++ {
		idNum[ids[i].String()] = i
	}
	re := regexp.MustCompile(`chunk id ([0-9a-f]{64}) does not match its hash`)
	for sc := 1; sc <= *n; sc++ {
		base := filepath.Join(*dir, "store")
		os.RemoveAll(base)
		os.MkdirAll(base, 0755)
		var files []file
		add := func(f file, p string, b []byte) {
			f.path = p
			write(p, b)
			files = append(files, f)
		}
		for id := 1; id <= 3; id++ {
			for _, fm := range []string{"comp", "raw"} {
				switch r.Intn(4) {
				case 0, 1: // valid chunk
					b := datas[id]
					if fm == "comp" {
						b, _ = desync.Compress(b)
					}
					add(file{"chunk", id, fm, true, ""}, chunkPath(base, ids[id], fm), b)
				case 2: // invalid: another chunk's object, garbage, truncated
					var b []byte
					switch r.Intn(3) {
					case 0:
						b = datas[id%3+1]
						if fm == "comp" {
							b, _ = desync.Compress(b)
						}
					case 1:
						b = []byte("garbage")
					default:
						b = datas[id][:len(datas[id])/2]
						if fm == "comp" {
							b, _ = desync.Compress(b)
						}
					}
					add(file{"chunk", id, fm, false, ""}, chunkPath(base, ids[id], fm), b)
				}
				if r.Intn(6) == 0 { // the same name in a foreign directory
					s := ids[id].String()
					name := s
					if fm == "comp" {
						name += ".cacnk"
					}
					add(file{"wrongdir", id, fm, true, ""}, filepath.Join(base, []string{"backup", "0000", "."}[r.Intn(3)], name), datas[id])
				}
			}
		}
		for k := 0; k < r.Intn(3); k++ {
			s := ids[1+r.Intn(3)].String()
			add(file{"tmp", 0, "comp", true, ""}, filepath.Join(base, s[:4], fmt.Sprintf(".tmp-cacnk%d", 100+k+r.Intn(100000))), []byte("partial"))
		}
		for k := 0; k < r.Intn(3); k++ {
			add(file{"junk", 0, "comp", true, ""}, filepath.Join(base, []string{"README", "abcd/notes.txt", "ffff/" + strings.Repeat("g", 64) + ".cacnk", "x.cacnk", "1234/short.cacnk"}[r.Intn(5)]+fmt.Sprint(k)), []byte("junk"))
		}
		fj := []J{}
		for _, f := range files {
			fj = append(fj, f.j())
		}
		gone := func() []J {
			out := []J{}
			for _, f := range files {
				if _, err := os.Stat(f.path); err != nil {
					out = append(out, f.j())
				}
			}
			return out
		}
		restore := func() {
			// put every file back (content does not matter for the kinds that were removed: rebuild from scratch is simpler)
		}
		_ = restore
		fm := []string{"comp", "raw"}[r.Intn(2)]
		opt := desync.StoreOptions{Uncompressed: fm == "raw"}
		st, _ := desync.NewLocalStore(base, opt)
		if sc%2 == 0 {
			// ---- prune
			keepN := []int{}
			keep := map[desync.ChunkID]struct{}{}
			for id := 1; id <= 4; id++ {
				if r.Intn(2) == 0 {
					keep[ids[id]] = struct{}{}
					keepN = append(keepN, id)
				}
			}
			res := "ok"
			if *desyncBin != "" && sc%5 == 0 {
				// through the CLI: an index that references the kept chunks
				// the kept chunks are spread over one to three index files (the last one may be empty)
				nidx := 1 + r.Intn(3)
				var ips []string
				for part := 0; part < nidx; part++ {
					idx := desync.Index{Index: desync.FormatIndex{FeatureFlags: desync.CaFormatExcludeNoDump | desync.CaFormatSHA512256, ChunkSizeMin: 1, ChunkSizeAvg: 2, ChunkSizeMax: 100000}}
					var pos uint64
					for k, id := range keepN {
						if k%nidx != part && !(part == 0 && r.Intn(4) == 0) {
							continue
						}
						idx.Chunks = append(idx.Chunks, desync.IndexChunk{ID: ids[id], Start: pos, Size: uint64(len(datas[id]))})
						pos += uint64(len(datas[id]))
					}
					var ib bytes.Buffer
					idx.WriteTo(&ib)
					ip := filepath.Join(*dir, fmt.Sprintf("keep%d.caibx", part))
					os.WriteFile(ip, ib.Bytes(), 0644)
					ips = append(ips, ip)
				}
				args := []string{"prune", "--yes", "-s", base}
				if fm == "raw" {
					cfgp := filepath.Join(*dir, "cfg.json")
					os.WriteFile(cfgp, []byte(fmt.Sprintf(`{"store-options": {"%s": {"uncompressed": true}}}`, base)), 0644)
					args = append([]string{"--config", cfgp}, args...)
				}
				args = append(args, ips...)
				if err := exec.Command(*desyncBin, args...).Run(); err != nil {
					res = "error"
				}
			} else if err := st.Prune(context.Background(), keep); err != nil {
				res = "error"
			}
			w.Emit(trace.M("ev", "prune", "scen", sc, "fmt", fm, "files", fj, "keep", keepN, "removed", gone(), "res", res))
		} else {
			// ---- verify
			repair := r.Intn(2) == 0
			var msgs bytes.Buffer
			nw := []int{1, 4, 10}[r.Intn(3)]
			st.Verify(context.Background(), nw, repair, &lockedWriter{w: &msgs}) // the workers write their messages concurrently
			rep := map[int]bool{}
			for _, m := range re.FindAllStringSubmatch(msgs.String(), -1) {
				rep[idNum[m[1]]] = true
			}
			reported := []int{}
			for id := range rep {
				reported = append(reported, id)
			}
			sort.Ints(reported)
			w.Emit(trace.M("ev", "verify", "scen", sc, "fmt", fm, "files", fj, "repair", repair, "reported", reported, "removed", gone(), "n", nw))
		}
	}
	// ---- `desync verify` on a store with hundreds of invalid chunks, many workers reporting at once: one report line per invalid chunk
	if *desyncBin != "" {
		for b := 0; b < 1+*n/400; b++ {
			base := filepath.Join(*dir, "bulk")
			os.RemoveAll(base)
			os.MkdirAll(base, 0755)
			fm := []string{"comp", "raw"}[b%2]
			var files []file
			num := map[string]int{}
			for k := 0; k < 360; k++ {
				d := make([]byte, 40+r.Intn(60))
				r.Read(d)
				id := desync.NewChunk(d).ID()
				num[id.String()] = 100 + k
				valid := r.Intn(3) == 0
				body := d
				if !valid {
					body = append([]byte("damaged "), d...)
				}
				if fm == "comp" {
					body, _ = desync.Compress(body)
				}
				f := file{"chunk", 100 + k, fm, valid, chunkPath(base, id, fm)}
				write(f.path, body)
				files = append(files, f)
			}
			repair := b%4 >= 2
			args := []string{"verify", "-n", "16", "-s", base}
			if repair {
				args = append(args, "-r")
			}
			if fm == "raw" {
				cfgp := filepath.Join(*dir, "cfg.json")
				os.WriteFile(cfgp, []byte(fmt.Sprintf(`{"store-options": {"%s": {"uncompressed": true}}}`, base)), 0644)
				args = append([]string{"--config", cfgp}, args...)
			}
			cmd := exec.Command(*desyncBin, args...)
			cmd.Env = append(os.Environ(), "HOME=/nonexistent")
			var se bytes.Buffer
			cmd.Stderr = &se
			exit := 0
			if err := cmd.Run(); err != nil {
				exit = 1
			}
			rep := map[int]bool{}
			lines := 0
			for _, ln := range strings.Split(strings.TrimSpace(se.String()), "\n") {
				if strings.TrimSpace(ln) != "" {
					lines++
				}
			}
			for _, m := range re.FindAllStringSubmatch(se.String(), -1) {
				rep[num[m[1]]] = true
			}
			reported := []int{}
			for id := range rep {
				reported = append(reported, id)
			}
			sort.Ints(reported)
			fj, gone := []J{}, []J{}
			for _, f := range files {
				fj = append(fj, f.j())
				if _, err := os.Stat(f.path); err != nil {
					gone = append(gone, f.j())
				}
			}
			w.Emit(trace.M("ev", "verify", "scen", *n+b+1, "fmt", fm, "files", fj, "repair", repair, "reported", reported, "removed", gone, "n", 16, "cli", true, "lines", lines, "exit", exit))
		}
	}
	if err := w.Close(); err != nil {
		fmt.Fprintln(os.Stderr, err)
		os.Exit(2)
	}
	fmt.Printf("stores=%d\n", *n)
}
