// x04 builds random trees, runs the real `desync mtree` on the directory and on its catar (`desync tar`), and records
// every printed line as bytes next to the node it must describe, for Trace_Mtree.tla. Not one of the listed
// properties: coverage of the mtree renderer.
package main

import (
	"bytes"
	"crypto/sha512"
	"encoding/hex"
	"flag"
	"fmt"
	"math/rand"
	"os"
	"os/exec"
	"path/filepath"
	"time"

	"verif/harness/fstree"
	"verif/harness/trace"
)

func must(err error) {
	if err != nil {
		fmt.Fprintln(os.Stderr, "x04:", err)
		os.Exit(2)
	}
}

func ints(b []byte) []int {
	out := make([]int, len(b))
	for i, x := range b {
		out[i] = int(x)
	}
	return out
}

func run(bin string, args ...string) (int, []byte) {
	cmd := exec.Command(bin, args...)
	cmd.Env = append(os.Environ(), "HOME=/nonexistent")
	var so, se bytes.Buffer
	cmd.Stdout, cmd.Stderr = &so, &se
	must(cmd.Start())
	done := make(chan error, 1)
	go func() { done <- cmd.Wait() }()
	select {
	case err := <-done:
		if err != nil {
			return 1, so.Bytes()
		}
		return 0, so.Bytes()
	case <-time.After(60 * time.Second):
		cmd.Process.Kill()
		<-done
		return 99, so.Bytes()
	}
}

func main() {
	seed := flag.Int64("seed", 1, "seed")
	n := flag.Int("n", 40, "trees")
	out := flag.String("out", "", "trace output")
	dir := flag.String("dir", "", "scratch directory (absolute)")
	bin := flag.String("desync", "", "desync binary")
	flag.Parse()
	if !filepath.IsAbs(*dir) || *bin == "" {
		fmt.Fprintln(os.Stderr, "x04: -dir must be absolute, -desync is required")
		os.Exit(2)
	}
	w, err := trace.Create(*out)
	must(err)
	r := rand.New(rand.NewSource(*seed))
	lines := 0
	for sc := 1; sc <= *n; sc++ {
		os.RemoveAll(*dir)
		must(os.MkdirAll(*dir, 0755))
		root := filepath.Join(*dir, "tree")
		must(fstree.Build(r, root, fstree.Opts{MaxNodes: 3 + r.Intn(25), MaxFanout: 6, Devices: os.Getuid() == 0}))
		nodes, err := fstree.Snapshot(root)
		must(err)
		// paths: depth-first order, the root is "."
		paths := make([]string, len(nodes))
		var stack []string
		for i, nd := range nodes {
			if nd.Depth == 0 {
				paths[i] = "."
				continue
			}
			stack = append(stack[:nd.Depth-1], nd.Name)
			paths[i] = filepath.Join(stack...)
		}
		catar := filepath.Join(*dir, "tree.catar")
		if rc, _ := run(*bin, "tar", catar, root); rc != 0 {
			fmt.Fprintln(os.Stderr, "x04: desync tar failed")
			os.Exit(2)
		}
		for _, via := range []string{"dir", "catar"} {
			input := root
			if via == "catar" {
				input = catar
			}
			exit, so := run(*bin, "mtree", input)
			ls := bytes.Split(bytes.TrimSuffix(so, []byte("\n")), []byte("\n"))
			header := len(ls) > 0 && string(ls[0]) == "#mtree v1.0"
			if header {
				ls = ls[1:]
			}
			w.Emit(trace.M("ev", "mtreerun", "scen", sc, "via", via, "exit", exit, "header", header, "lines", len(ls), "nodes", len(nodes)))
			if exit != 0 || len(ls) != len(nodes) {
				continue // a name with a line feed would make more lines: mtree escapes it, so this is judged by the count
			}
			for i, nd := range nodes {
				typ := map[string]string{"dir": "dir", "file": "file", "symlink": "link", "dev": "char", "blk": "block"}[nd.Kind]
				sum := sha512.Sum512_256(nd.Content)
				digest := []byte{}
				if nd.Kind == "file" {
					digest = []byte(hex.EncodeToString(sum[:]))
				}
				w.Emit(trace.M("ev", "mtree", "scen", sc, "via", via, "line", ints(ls[i]),
					"node", trace.M("path", ints([]byte(paths[i])), "type", typ, "mode", int(nd.Mode), "uid", nd.UID, "gid", nd.GID, "size", len(nd.Content),
						"sec", nd.Sec, "nsec", nd.NSec, "target", ints([]byte(nd.Target)), "digest", ints(digest))))
				lines++
			}
		}
	}
	must(w.Close())
	fmt.Printf("trees=%d lines=%d\n", *n, lines)
}
