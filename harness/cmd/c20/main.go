// c20 replays random histories of two differently configured LocalStore clients (compressed / uncompressed) - and an HTTP
// handler serving one of the formats - over ONE directory, lists the directory with a strict parser of casync's layout after
// every step, checks every stored object (single standard zstd frame / raw bytes), cross-decodes with the libzstd build and
// reads casync-written fixture stores with both builds. Records for Trace_LocalStoreFS.tla.
package main

import (
	"bytes"
	"context"
	"encoding/binary"
	"encoding/json"
	"errors"
	"flag"
	"fmt"
	"math/rand"
	"net/http/httptest"
	"net/url"
	"os"
	"os/exec"
	"path/filepath"
	"regexp"
	"sort"
	"strings"
	"sync"

	"github.com/folbricht/desync"

	"verif/harness/trace"
)

type J = map[string]interface{}

var nameRe = regexp.MustCompile(`^([0-9a-f]{4})/([0-9a-f]{64})(\.cacnk)?$`)

// strict listing: every regular file must be <id[0:4]>/<id>[.cacnk]
func listing(base string, idNum map[string]int) ([]J, int) {
	out := []J{}
	stray := 0
	filepath.Walk(base, func(p string, info os.FileInfo, err error) error {
		if err != nil || info.IsDir() {
			return nil
		}
		rel, _ := filepath.Rel(base, p)
		m := nameRe.FindStringSubmatch(rel)
		if m == nil || m[2][:4] != m[1] {
			stray++
			return nil
		}
		f := "raw"
		if m[3] != "" {
			f = "comp"
		}
		n, ok := idNum[m[2]]
		if !ok {
			stray++
			return nil
		}
		out = append(out, J{"id": n, "fmt": f})
		return nil
	})
	sort.Slice(out, func(i, j int) bool { return fmt.Sprint(out[i]) < fmt.Sprint(out[j]) })
	return out, stray
}

// single standard zstd frame: magic, frame header, blocks up to the last one, optional checksum, nothing after it
func singleFrame(b []byte) bool {
	if len(b) < 6 || binary.LittleEndian.Uint32(b) != 0xFD2FB528 {
		return false
	}
	fhd := b[4]
	pos := 5
	single := fhd&0x20 != 0
	if !single {
		pos++ // window descriptor
	}
	switch fhd & 3 { // dictionary id
	case 1:
		pos++
	case 2:
		pos += 2
	case 3:
		pos += 4
	}
	if fhd&3 != 0 {
		return false // no dictionaries in chunk stores
	}
	switch fhd >> 6 { // frame content size
	case 0:
		if single {
			pos++
		}
	case 1:
		pos += 2
	case 2:
		pos += 4
	case 3:
		pos += 8
	}
	for {
		if pos+3 > len(b) {
			return false
		}
		h := uint32(b[pos]) | uint32(b[pos+1])<<8 | uint32(b[pos+2])<<16
		pos += 3
		last := h&1 != 0
		typ := (h >> 1) & 3
		size := int(h >> 3)
		switch typ {
		case 1: // RLE
			pos++
		case 0, 2:
			pos += size
		default:
			return false
		}
		if last {
			break
		}
	}
	if fhd&4 != 0 {
		pos += 4 // content checksum
	}
	return pos == len(b)
}

func classGet(c *desync.Chunk, err error, want []byte) string {
	var in desync.ChunkInvalid
	switch {
	case err == nil:
		d, derr := c.Data()
		if derr != nil || !bytes.Equal(d, want) {
			return "invalid"
		}
		return "ok"
	case isMissing(err):
		return "missing"
	case errors.As(err, &in):
		return "invalid"
	}
	return "error"
}

func listAll(root string) []string {
	var out []string
	filepath.Walk(root, func(p string, info os.FileInfo, err error) error {
		if err == nil && !info.IsDir() {
			out = append(out, p)
		}
		return nil
	})
	return out
}

// isMissing: "missing" is recognised the way desync's own consumers do it (router, cache, failover group, HTTP handler,
// protocol server): by the error's dynamic type, not through a chain of wrapped errors
func isMissing(err error) bool {
	_, ok := err.(desync.ChunkMissing)
	return ok
}

func main() {
	seed := flag.Int64("seed", 1, "seed")
	n := flag.Int("n", 100, "histories")
	steps := flag.Int("steps", 25, "steps per history")
	out := flag.String("out", "", "trace output")
	dir := flag.String("dir", "", "scratch dir")
	repo := flag.String("repo", "/repo", "repository (fixture stores)")
	zdefault := flag.String("zdefault", "", "zcheck built with the default zstd")
	zlib := flag.String("zlib", "", "zcheck built with libzstd")
	flag.Parse()
	w, err := trace.Create(*out)
	if err != nil {
		fmt.Fprintln(os.Stderr, err)
		os.Exit(2)
	}
	r := rand.New(rand.NewSource(*seed))
	obj := func(ok bool, what string) { w.Emit(trace.M("ev", "object", "ok", ok, "what", what)) }
	for h := 1; h <= *n; h++ {
		base := filepath.Join(*dir, "shared")
		os.RemoveAll(base)
		os.MkdirAll(base, 0755)
		datas := [][]byte{nil}
		idNum := map[string]int{}
		var ids []desync.ChunkID
		ids = append(ids, desync.ChunkID{})
		for i := 1; i <= 3; i++ {
			var d []byte
			switch r.Intn(4) {
			case 0:
				d = []byte{byte(r.Intn(256))}
			case 1:
				d = make([]byte, 1+r.Intn(65536))
			case 2:
				d = make([]byte, 1+r.Intn(5000))
				r.Read(d)
			default:
				d = bytes.Repeat([]byte("text "), 1+r.Intn(2000))
				d = append(d, byte(i))
			}
			d = append(d, byte(i)) // distinct
			datas = append(datas, d)
			id := desync.NewChunk(d).ID()
			ids = append(ids, id)
			idNum[id.String()] = i
		}
		cl := map[string]desync.LocalStore{}
		cl["comp"], _ = desync.NewLocalStore(base, desync.StoreOptions{})
		cl["raw"], _ = desync.NewLocalStore(base, desync.StoreOptions{Uncompressed: true})
		// an HTTP handler + client pair per format on the same directory
		remote := map[string]*desync.RemoteHTTP{}
		for _, f := range []string{"comp", "raw"} {
			var conv desync.Converters
			if f == "comp" {
				conv = desync.Converters{desync.Compressor{}}
			}
			srv := httptest.NewServer(desync.NewHTTPHandler(cl[f], true, false, conv, ""))
			defer srv.Close()
			u, _ := url.Parse(srv.URL + "/")
			remote[f], _ = desync.NewRemoteHTTPStore(u, desync.StoreOptions{Uncompressed: f == "raw"})
		}
		w.Emit(trace.M("ev", "fmtreset", "scen", h))
		for s := 0; s < *steps; s++ {
			f := []string{"comp", "raw"}[r.Intn(2)]
			id := 1 + r.Intn(3)
			via := "local"
			var st desync.WriteStore = cl[f]
			if r.Intn(4) == 0 {
				via, st = "http", remote[f]
			}
			switch x := r.Intn(13); {
			case x == 12: // copy: the chunk object read by the OTHER client is stored through this one (cache / copy path)
				g := "comp"
				if f == "comp" {
					g = "raw"
				}
				c, err := cl[g].GetChunk(ids[id])
				l, stray := listing(base, idNum)
				w.Emit(trace.M("ev", "fmtop", "fmt", g, "op", "get", "id", id, "via", "local", "res", classGet(c, err, datas[id]), "listing", l, "stray", stray))
				if err == nil {
					res := "ok"
					if serr := cl[f].StoreChunk(c); serr != nil {
						res = "error"
					}
					l, stray = listing(base, idNum)
					w.Emit(trace.M("ev", "fmtop", "fmt", f, "op", "store", "id", id, "via", "copy", "res", res, "listing", l, "stray", stray))
					// and read it back through this client
					c2, gerr := cl[f].GetChunk(ids[id])
					w.Emit(trace.M("ev", "fmtop", "fmt", f, "op", "get", "id", id, "via", "local", "res", classGet(c2, gerr, datas[id]), "listing", l, "stray", stray))
				}
			case x < 3:
				err := st.StoreChunk(desync.NewChunk(datas[id]))
				res := "ok"
				if err != nil {
					res = "error"
				}
				l, stray := listing(base, idNum)
				w.Emit(trace.M("ev", "fmtop", "fmt", f, "op", "store", "id", id, "via", via, "res", res, "listing", l, "stray", stray))
			case x < 5:
				ok, err := st.HasChunk(ids[id])
				res := fmt.Sprint(ok)
				if err != nil {
					res = "error"
				}
				l, stray := listing(base, idNum)
				w.Emit(trace.M("ev", "fmtop", "fmt", f, "op", "has", "id", id, "via", via, "res", res, "listing", l, "stray", stray))
			case x < 8:
				c, err := st.GetChunk(ids[id])
				l, stray := listing(base, idNum)
				w.Emit(trace.M("ev", "fmtop", "fmt", f, "op", "get", "id", id, "via", via, "res", classGet(c, err, datas[id]), "listing", l, "stray", stray))
			case x == 8:
				err := cl[f].RemoveChunk(ids[id])
				res := "ok"
				if err != nil {
					res = "missing"
				}
				l, stray := listing(base, idNum)
				w.Emit(trace.M("ev", "fmtop", "fmt", f, "op", "remove", "id", id, "via", "local", "res", res, "listing", l, "stray", stray))
			case x == 9: // the environment damages this client's file of the chunk (if present)
				s := ids[id].String()
				p := filepath.Join(base, s[:4], s)
				if f == "comp" {
					p += ".cacnk"
				}
				if _, err := os.Stat(p); err == nil {
					os.WriteFile(p, []byte("damaged"), 0644)
				}
				l, stray := listing(base, idNum)
				w.Emit(trace.M("ev", "fmtop", "fmt", f, "op", "corrupt", "id", id, "via", "env", "res", "ok", "listing", l, "stray", stray))
			case x == 10:
				keepN := []int{}
				keep := map[desync.ChunkID]struct{}{}
				for k := 1; k <= 3; k++ {
					if r.Intn(2) == 0 {
						keep[ids[k]] = struct{}{}
						keepN = append(keepN, k)
					}
				}
				cl[f].Prune(context.Background(), keep)
				l, stray := listing(base, idNum)
				w.Emit(trace.M("ev", "fmtprune", "fmt", f, "keep", keepN, "listing", l, "stray", stray))
			default:
				repair := r.Intn(2) == 0
				var msgs bytes.Buffer
				cl[f].Verify(context.Background(), 2, repair, &msgs)
				rep := []int{}
				for k := 1; k <= 3; k++ {
					if bytes.Contains(msgs.Bytes(), []byte("chunk id "+ids[k].String()+" does not match")) {
						rep = append(rep, k)
					}
				}
				l, stray := listing(base, idNum)
				w.Emit(trace.M("ev", "fmtverify", "fmt", f, "repair", repair, "reported", rep, "listing", l, "stray", stray))
			}
		}
		// every object left in the directory that is not damaged: single frame / raw bytes
		for i := 1; i <= 3; i++ {
			s := ids[i].String()
			if b, err := os.ReadFile(filepath.Join(base, s[:4], s+".cacnk")); err == nil && !bytes.Equal(b, []byte("damaged")) {
				d, derr := desync.Decompress(nil, b)
				obj(singleFrame(b) && derr == nil && bytes.Equal(d, datas[i]), fmt.Sprintf("compressed chunk of %d bytes is not one standard zstd frame of the chunk", len(datas[i])))
			}
			if b, err := os.ReadFile(filepath.Join(base, s[:4], s)); err == nil && !bytes.Equal(b, []byte("damaged")) {
				obj(bytes.Equal(b, datas[i]), "uncompressed chunk file does not hold the raw bytes")
			}
		}
	}
	// ---- a chunk server of one format never serves (or accepts) the other format's names: an HTTP client configured for the
	// other format must not see the chunk, and a PUT from it must not create a file
	for _, srvComp := range []bool{true, false} {
		d := filepath.Join(*dir, "xfmt")
		os.RemoveAll(d)
		os.MkdirAll(d, 0755)
		ls, _ := desync.NewLocalStore(d, desync.StoreOptions{Uncompressed: !srvComp})
		ch := desync.NewChunk(bytes.Repeat([]byte("cross format "), 500))
		ls.StoreChunk(ch)
		var conv desync.Converters
		if srvComp {
			conv = desync.Converters{desync.Compressor{}}
		}
		hs := httptest.NewServer(desync.NewHTTPHandler(ls, true, true, conv, ""))
		hu, _ := url.Parse(hs.URL + "/")
		for _, verify := range []bool{true, false} {
			cl, err := desync.NewRemoteHTTPStore(hu, desync.StoreOptions{Uncompressed: srvComp, SkipVerify: !verify}) // the OTHER format
			if err != nil {
				panic(err)
			}
			has, herr := cl.HasChunk(ch.ID())
			obj(!(herr == nil && has), fmt.Sprintf("a client configured for the other format sees a chunk of a server serving compressed=%v", srvComp))
			c, gerr := cl.GetChunk(ch.ID())
			obj(gerr != nil || c == nil, fmt.Sprintf("a client configured for the other format was served a chunk by a server serving compressed=%v", srvComp))
			before := listAll(d)
			cl.StoreChunk(desync.NewChunk([]byte("uploaded by the other format's client")))
			obj(fmt.Sprint(before) == fmt.Sprint(listAll(d)), fmt.Sprintf("a PUT under the other format's name created a file in a store serving compressed=%v", srvComp))
		}
		hs.Close()
	}
	// ---- cross-implementation: written by one zstd, read by the other; single frame
	runJSON := func(bin string, args ...string) map[string]interface{} {
		o, err := exec.Command(bin, args...).Output()
		res := map[string]interface{}{}
		if err != nil || json.Unmarshal(o, &res) != nil {
			return map[string]interface{}{"total": float64(0), "bad": []interface{}{"helper failed"}}
		}
		return res
	}
	if *zdefault != "" && *zlib != "" {
		for k, pair := range [][2]string{{*zdefault, *zlib}, {*zlib, *zdefault}} {
			d := filepath.Join(*dir, fmt.Sprintf("cross%d", k))
			os.RemoveAll(d)
			os.MkdirAll(d, 0755)
			if err := exec.Command(pair[0], "write", d, fmt.Sprint(*seed)).Run(); err != nil {
				obj(false, "helper could not write a store")
				continue
			}
			res := runJSON(pair[1], "read", d)
			obj(res["total"].(float64) >= 10 && len(res["bad"].([]interface{})) == 0,
				fmt.Sprintf("chunks written by %s are not readable by %s: %v", filepath.Base(pair[0]), filepath.Base(pair[1]), res["bad"]))
			frames := true
			filepath.Walk(d, func(p string, info os.FileInfo, err error) error {
				if err == nil && !info.IsDir() {
					b, _ := os.ReadFile(p)
					if !singleFrame(b) {
						frames = false
					}
				}
				return nil
			})
			obj(frames, "a compressed chunk written by "+filepath.Base(pair[0])+" is not a single standard zstd frame")
		}
		// casync writes chunks with libzstd's streaming compressor: frames without content size and with the level's window
		// (2 MiB) whatever the chunk's size. A store written that way must be readable by both builds.
		{
			d := filepath.Join(*dir, "stream")
			os.RemoveAll(d)
			os.MkdirAll(d, 0755)
			if err := exec.Command(*zlib, "writestream", d, fmt.Sprint(*seed)).Run(); err != nil {
				obj(false, "helper could not write a store with libzstd's streaming compressor")
			} else {
				for _, bin := range []string{*zdefault, *zlib} {
					res := runJSON(bin, "read", d)
					obj(res["total"].(float64) >= 10 && len(res["bad"].([]interface{})) == 0,
						fmt.Sprintf("chunks written with libzstd's streaming compressor (as casync does) are not readable by %s: %v", filepath.Base(bin), res["bad"]))
				}
			}
		}
		// casync-written fixture stores
		for _, fx := range []string{"testdata/blob1.store", "testdata/blob2.store", "cmd/desync/testdata/blob1.store", "cmd/desync/testdata/blob2.store"} {
			p := filepath.Join(*repo, fx)
			if _, err := os.Stat(p); err != nil {
				continue
			}
			for _, bin := range []string{*zdefault, *zlib} {
				res := runJSON(bin, "read", p)
				if res["total"].(float64) == 0 {
					continue // no compressed chunks in this fixture
				}
				obj(len(res["bad"].([]interface{})) == 0, fmt.Sprintf("fixture store %s not readable by %s: %v", fx, filepath.Base(bin), res["bad"]))
			}
		}
	}
	// two clients of one directory, one per format, store the same chunk at the same time (several writers each): every call succeeds,
	// and afterwards both files exist, each in its own format
	for round := 0; round < 12; round++ {
		base := filepath.Join(*dir, "racing")
		os.RemoveAll(base)
		os.MkdirAll(base, 0755)
		d := make([]byte, 200000+r.Intn(800000))
		r.Read(d[:len(d)/2]) // half random, half zeros: the two formats differ in length
		id := desync.NewChunk(d).ID()
		cs, _ := desync.NewLocalStore(base, desync.StoreOptions{})
		us, _ := desync.NewLocalStore(base, desync.StoreOptions{Uncompressed: true})
		var wg sync.WaitGroup
		errs := make([]error, 6)
		for k := 0; k < 6; k++ {
			wg.Add(1)
			go func(k int) {
				defer wg.Done()
				if k%2 == 0 {
					errs[k] = cs.StoreChunk(desync.NewChunk(d))
				} else {
					errs[k] = us.StoreChunk(desync.NewChunk(d))
				}
			}(k)
		}
		wg.Wait()
		allOK := true
		for _, e := range errs {
			allOK = allOK && e == nil
		}
		obj(allOK, "concurrent StoreChunk of one chunk by a compressed and an uncompressed client of the same directory: a call failed")
		sid := id.String()
		raw, rerr := os.ReadFile(filepath.Join(base, sid[:4], sid))
		obj(rerr == nil && bytes.Equal(raw, d), "after concurrent stores by both clients the uncompressed chunk file does not hold the chunk's bytes")
		cb, cerr := os.ReadFile(filepath.Join(base, sid[:4], sid+".cacnk"))
		dec, derr := desync.Decompress(nil, cb)
		obj(cerr == nil && derr == nil && bytes.Equal(dec, d) && singleFrame(cb), "after concurrent stores by both clients the compressed chunk file is not one zstd frame of the chunk")
		c1, e1 := cs.GetChunk(id)
		c2, e2 := us.GetChunk(id)
		obj(classGet(c1, e1, d) == "ok" && classGet(c2, e2, d) == "ok", "after concurrent stores a client cannot read its own chunk back")
		left := 0
		for _, p := range listAll(base) {
			if strings.Contains(filepath.Base(p), ".tmp") {
				left++
			}
		}
		obj(left == 0, "temporary files left behind by successful concurrent stores")
	}
	if err := w.Close(); err != nil {
		fmt.Fprintln(os.Stderr, err)
		os.Exit(2)
	}
	fmt.Printf("histories=%d events=%d\n", *n, w.N)
}
