// c01 drives the real AssembleFile under the gate scheduler on generated scenarios (blob, index, store,
// file seeds that are consistent / stale / truncated / empty / aliases of the target, prior target content,
// invalid-seed action, worker count, block cloning emulated or absent, a seed mutated during the run, optional
// cancellation) and records an NDJSON trace for Trace_Assemble.tla. After every worker event the whole target
// file is read back and projected to one content identifier per index position.
package main

import (
	"bytes"
	"context"
	"crypto/sha512"
	"encoding/json"
	"errors"
	"flag"
	"fmt"
	"math/rand"
	"os"
	"path/filepath"
	"strings"
	"time"

	"github.com/folbricht/desync"

	"verif/harness/fakes"
	"verif/harness/sched"
	"verif/harness/trace"
)

type seedSpec struct {
	Kind   string `json:"kind"` // consistent | stale | truncated | emptyindex | alias | missingfile
	Claim  []int  `json:"claim"`
	Actual []int  `json:"actual"` // content id per claimed position as found in the file at scenario start
}

type scenario struct {
	Num      int        `json:"scen"`
	Blocky   bool       `json:"blocky"`
	Clone    bool       `json:"clone"`
	Idx      []int      `json:"idx"` // content ids, 0 = null chunk
	Prior    string     `json:"prior"`
	PriorT   []int      `json:"priort"`
	Seeds    []seedSpec `json:"seeds"`
	Act      string     `json:"act"`
	N        int        `json:"n"`
	MutAt    int        `json:"mutat"`
	CancelAt int        `json:"cancel"`
	Missing  int        `json:"missing"` // content id missing from the store (0 = none)
	Policy   string     `json:"policy"`
	Seed     int64      `json:"seed"`
}

type world struct {
	r        *rand.Rand
	contents [][]byte // content id -> bytes (0 = null chunk)
	byHash   map[[32]byte]int
	max      uint64
	dir      string
}

func newWorld(r *rand.Rand, dir string, blocky bool) *world {
	w := &world{r: r, byHash: map[[32]byte]int{}, dir: dir}
	nalpha := 3
	if blocky {
		w.max = 9000
	} else {
		w.max = 128
	}
	w.contents = append(w.contents, make([]byte, w.max))
	for i := 1; i <= nalpha; i++ {
		var sz int
		if blocky {
			sz = []int{4096, 8192, 1000 + r.Intn(7999), 4096 + r.Intn(4000), 200}[r.Intn(5)]
		} else {
			sz = 40 + r.Intn(80)
		}
		b := make([]byte, sz)
		r.Read(b)
		w.contents = append(w.contents, b)
	}
	// a "garbage" content per size is produced on demand (ids >= 50)
	for i, c := range w.contents {
		w.byHash[sha512.Sum512_256(c)] = i
	}
	return w
}

func (w *world) id(c int) desync.ChunkID { return desync.ChunkID(sha512.Sum512_256(w.contents[c])) }

// garbage returns a fresh content of the same size as content c and registers it under a new id
func (w *world) garbage(c int) int {
	b := make([]byte, len(w.contents[c]))
	w.r.Read(b)
	w.contents = append(w.contents, b)
	id := len(w.contents) - 1
	w.byHash[sha512.Sum512_256(b)] = id
	return id
}

func (w *world) concat(ids []int) []byte {
	var out []byte
	for _, c := range ids {
		out = append(out, w.contents[c]...)
	}
	return out
}

func (w *world) index(ids []int) desync.Index {
	idx := desync.Index{Index: desync.FormatIndex{FeatureFlags: desync.CaFormatExcludeNoDump | desync.CaFormatSHA512256,
		ChunkSizeMin: 48, ChunkSizeAvg: 64, ChunkSizeMax: w.max}}
	if w.max > 1000 {
		idx.Index.ChunkSizeMin, idx.Index.ChunkSizeAvg = 512, 2048
	}
	var pos uint64
	for _, c := range ids {
		sz := uint64(len(w.contents[c]))
		idx.Chunks = append(idx.Chunks, desync.IndexChunk{ID: w.id(c), Start: pos, Size: sz})
		pos += sz
	}
	return idx
}

// classify projects file bytes to one content id per index position (unknown content: 100000 + hash bits)
func (w *world) classify(data []byte, idx desync.Index) []int {
	out := make([]int, len(idx.Chunks))
	for i, c := range idx.Chunks {
		if c.Start+c.Size > uint64(len(data)) {
			out[i] = 99999 // range not (completely) in the file
			continue
		}
		h := sha512.Sum512_256(data[c.Start : c.Start+c.Size])
		if id, ok := w.byHash[h]; ok {
			out[i] = id
		} else {
			out[i] = 100000 + int(h[0])<<16 + int(h[1])<<8 + int(h[2])
		}
	}
	return out
}

func randIDs(r *rand.Rand, k, nalpha int, nullBias bool) []int {
	ids := make([]int, k)
	for i := range ids {
		if nullBias && r.Intn(3) == 0 {
			ids[i] = 0
		} else {
			ids[i] = 1 + r.Intn(nalpha)
		}
	}
	return ids
}

// a sequence related to base: copies runs of it, inserts other chunks
func related(r *rand.Rand, base []int, nalpha int) []int {
	var out []int
	n := r.Intn(len(base) + 3)
	for len(out) < n {
		if len(base) > 0 && r.Intn(3) != 0 {
			a := r.Intn(len(base))
			l := 1 + r.Intn(len(base)-a)
			out = append(out, base[a:a+l]...)
		} else {
			out = append(out, r.Intn(nalpha+1))
		}
	}
	return out
}

func genScenario(r *rand.Rand, num int, allowClone bool, cancel bool) scenario {
	sc := scenario{Num: num, MutAt: -1, CancelAt: -1}
	sc.Blocky = r.Intn(3) == 0
	sc.Clone = allowClone && r.Intn(2) == 0
	k := r.Intn(8)
	if r.Intn(12) == 0 {
		k = 0
	}
	sc.Idx = randIDs(r, k, 3, r.Intn(2) == 0)
	sc.Act = []string{"bail", "skip", "regen"}[r.Intn(3)]
	sc.N = 1 + r.Intn(3)
	sc.Prior = []string{"absent", "empty", "garbage", "longer", "shorter", "older", "complete", "absent"}[r.Intn(8)]
	ns := r.Intn(3)
	for i := 0; i < ns; i++ {
		kind := []string{"consistent", "consistent", "stale", "truncated", "emptyindex", "alias", "consistent", "deleted"}[r.Intn(8)]
		if kind == "alias" && (sc.Prior == "absent" || sc.Prior == "empty") {
			kind = "consistent"
		}
		// seeds are identified by their file in the recorded events: at most one seed may point at the target
		for _, other := range sc.Seeds {
			if kind == "alias" && other.Kind == "alias" {
				kind = "stale"
			}
		}
		sc.Seeds = append(sc.Seeds, seedSpec{Kind: kind})
	}
	// a family of its own: the previous version of the target is updated in place with itself as the seed, on a filesystem
	// that clones blocks, with chunks of at least a block (the in-place upgrade of an image)
	if allowClone && num%12 == 0 {
		sc.Blocky, sc.Clone, sc.Prior = true, true, "older"
		sc.Seeds = []seedSpec{{Kind: "alias"}}
		if k == 0 {
			sc.Idx = randIDs(r, 3+r.Intn(4), 3, false)
		}
		ns = 1
	}
	if ns > 0 && r.Intn(4) == 0 {
		sc.MutAt = r.Intn(60)
	}
	if cancel {
		sc.CancelAt = r.Intn(80)
	}
	if r.Intn(15) == 0 && k > 0 {
		sc.Missing = sc.Idx[r.Intn(k)]
	}
	sc.Policy = []string{"random", "pct"}[r.Intn(2)]
	sc.Seed = r.Int63()
	return sc
}

type result struct {
	hang   *sched.HangError
	events int
	stats  sched.Stats
}

func run(sc *scenario, dir string, tw *trace.Writer) result {
	r := rand.New(rand.NewSource(sc.Seed))
	os.RemoveAll(dir)
	os.MkdirAll(dir, 0755)
	w := newWorld(r, dir, sc.Blocky)
	idx := w.index(sc.Idx)
	blob := w.concat(sc.Idx)
	target := filepath.Join(dir, "target")

	// prior content of the target path
	var prior []byte
	var older []int
	switch sc.Prior {
	case "absent":
	case "empty":
		prior = []byte{}
	case "garbage":
		prior = make([]byte, len(blob))
		r.Read(prior)
	case "longer":
		prior = append(append([]byte{}, blob...), make([]byte, 1+r.Intn(300))...)
		r.Read(prior[r.Intn(len(prior)):])
	case "shorter":
		prior = append([]byte{}, blob[:r.Intn(len(blob)+1)]...)
	case "older":
		older = related(r, sc.Idx, 3)
		prior = w.concat(older)
	case "complete":
		prior = append([]byte{}, blob...)
	}
	if prior != nil {
		os.WriteFile(target, prior, 0644)
	}
	// the store
	sdir := filepath.Join(dir, "store")
	os.MkdirAll(sdir, 0755)
	ls, err := desync.NewLocalStore(sdir, desync.StoreOptions{})
	if err != nil {
		panic(err)
	}
	for _, c := range sc.Idx {
		if c != sc.Missing || sc.Missing == 0 {
			ls.StoreChunk(desync.NewChunk(w.contents[c]))
		}
	}
	// cloning
	var emu *fakes.CloneEmu
	if sc.Clone {
		emu = &fakes.CloneEmu{BlockSize: 4096}
		desync.VerifCanClone = emu.CanClone
		desync.VerifCloneRange = emu.CloneRange
	} else {
		desync.VerifCanClone = nil
		desync.VerifCloneRange = nil
	}
	defer func() { desync.VerifCanClone, desync.VerifCloneRange = nil, nil }()

	// seeds
	var seeds []desync.Seed
	seedFiles := []string{}
	seedIdx := []desync.Index{}
	for i := range sc.Seeds {
		sp := &sc.Seeds[i]
		file := filepath.Join(dir, fmt.Sprintf("seed%d", i+1))
		switch sp.Kind {
		case "alias":
			// the seed is the target itself, described by the index of what it holds now (the older version)
			file = target
			if older != nil {
				sp.Claim = older
			} else {
				sp.Claim = related(r, sc.Idx, 3) // an index that does not describe the file: stale by construction
			}
		case "emptyindex":
			sp.Claim = []int{}
			os.WriteFile(file, []byte("x"), 0644)
		default:
			sp.Claim = related(r, sc.Idx, 3)
			data := w.concat(sp.Claim)
			switch sp.Kind {
			case "stale":
				if len(sp.Claim) > 0 {
					p := r.Intn(len(sp.Claim))
					si := w.index(sp.Claim)
					g := w.garbage(sp.Claim[p])
					copy(data[si.Chunks[p].Start:], w.contents[g])
				}
			case "truncated":
				data = data[:r.Intn(len(data)+1)]
			}
			os.WriteFile(file, data, 0644)
		}
		si := w.index(sp.Claim)
		fs, err := desync.NewIndexSeed(target, file, si)
		if err != nil {
			panic(err)
		}
		seeds = append(seeds, fs)
		seedFiles = append(seedFiles, file)
		seedIdx = append(seedIdx, si)
		if sp.Kind == "deleted" { // the seed's file disappears after its index was loaded
			os.Remove(file)
		}
		fb, _ := os.ReadFile(file)
		sp.Actual = w.classify(fb, si)
	}

	var pol sched.Policy
	pr := rand.New(rand.NewSource(sc.Seed + 1))
	if sc.Policy == "pct" {
		pol = sched.NewPCT(pr, 3, 120)
	} else {
		pol = &sched.Random{R: pr}
	}
	kinds := map[string]sched.Kind{"asm.idle": sched.Block, "asm.exit": sched.Exit, "asm.plan": sched.Log, "asm.invalid": sched.Log,
		"asm.valid": sched.Log, "asm.feed": sched.Block, "asm.leave": sched.Log, "asm.close": sched.Log, "ss.add": sched.Log, "ss.get": sched.Log,
		"fs.regen": sched.Log, "result": sched.Log,
		// seed regeneration runs the parallel chunker: let it run freely
		"pc.top": sched.Log, "pc.send": sched.Log, "pc.pop": sched.Log, "pc.caughtup": sched.Log, "pc.nullrun": sched.Log, "pc.npop": sched.Log,
		"pc.synced": sched.Log, "pc.skipcheck": sched.Log, "pc.stopping": sched.Log, "pc.stopped": sched.Log, "pc.closed": sched.Exit,
		"pc.accept": sched.Log, "pc.drained": sched.Log}
	s := sched.New(pol, kinds)
	wn := 0
	s.NameFn = func(point string, kv []interface{}) string {
		if point == "asm.idle" || point == "asm.exit" {
			wn++
			return fmt.Sprintf("w%d", wn)
		}
		return ""
	}
	gs := &fakes.GatedStore{Inner: ls, Hook: s.Hook, Fail: map[int]bool{}}
	ctx, cancel := context.WithCancel(context.Background())
	defer cancel()
	nev := 0
	snap := map[int][]interface{}{} // event seq -> [t, len]
	s.OnEvent = func(e sched.Event) []sched.Event {
		if strings.HasPrefix(e.Point, "pc.") {
			return nil
		}
		nev++
		var extra []sched.Event
		if sc.CancelAt > 0 && nev == sc.CancelAt {
			cancel()
			extra = append(extra, sched.Event{G: "harness", Point: "cancel"})
		}
		if sc.MutAt >= 0 && nev == sc.MutAt+1 && len(seedFiles) > 0 {
			// the environment rewrites one chunk-sized piece of a (non-alias) seed file
			for i, f := range seedFiles {
				if f == target || len(seedIdx[i].Chunks) == 0 {
					continue
				}
				c := seedIdx[i].Chunks[r.Intn(len(seedIdx[i].Chunks))]
				if fh, err := os.OpenFile(f, os.O_RDWR, 0644); err == nil {
					g := make([]byte, c.Size)
					r.Read(g)
					fh.WriteAt(g, int64(c.Start))
					fh.Close()
					extra = append(extra, sched.Event{G: "harness", Point: "mutate", KV: []interface{}{"seed", i + 1}})
				}
				break
			}
		}
		if e.Holder && (strings.HasPrefix(e.Point, "asm.") || strings.HasPrefix(e.Point, "st.")) {
			if b, err := os.ReadFile(target); err == nil {
				snap[e.Seq] = []interface{}{w.classify(b, idx), len(b)}
			}
		}
		return extra
	}
	if sc.CancelAt == 0 {
		cancel()
	}
	desync.VerifHook = s.Hook
	var aerr error
	var xstats *desync.ExtractStats
	act := map[string]desync.InvalidSeedAction{"bail": desync.InvalidSeedActionBailOut, "skip": desync.InvalidSeedActionSkip, "regen": desync.InvalidSeedActionRegenerate}[sc.Act]
	log, herr := s.Run(func() {
		s.Name("main")
		xstats, aerr = desync.AssembleFile(ctx, target, idx, gs, seeds, desync.AssembleOptions{N: sc.N, InvalidSeedAction: act})
		s.Hook("result")
		s.Leave()
	})
	s.WaitGone(5 * time.Second)
	desync.VerifHook = nil

	// ---- emit
	if older != nil {
		sc.PriorT = older
	}
	priorT := []int{}
	if prior != nil {
		priorT = w.classify(prior, idx)
	}
	startsToPos := map[uint64]int{}
	for i, c := range idx.Chunks {
		startsToPos[c.Start] = i + 1
	}
	seedNo := func(file string) int {
		for i, f := range seedFiles {
			if f == file {
				return i + 1
			}
		}
		return 0
	}
	claims, actuals, aliases, cstarts := [][]int{}, [][]int{}, []bool{}, [][]uint64{}
	for i, sp := range sc.Seeds {
		st := []uint64{}
		for _, c := range seedIdx[i].Chunks {
			st = append(st, c.Start)
		}
		cstarts = append(cstarts, st)
		claims = append(claims, nn(sp.Claim))
		actuals = append(actuals, nn(sp.Actual))
		aliases = append(aliases, seedFiles[i] == target)
	}
	resetLine := tw.N + 1
	tw.Emit(trace.M("ev", "reset", "scen", sc.Num, "idx", nn(sc.Idx), "prior", sc.Prior, "priort", priorT, "priorlen", len(prior),
		"blank", prior == nil || len(prior) == 0, "claims", claims, "cstarts", cstarts, "actuals", actuals, "aliases", aliases, "act", sc.Act, "n", sc.N,
		"clone", sc.Clone, "blocky", sc.Blocky, "missing", sc.Missing, "mutat", sc.MutAt, "cancel", sc.CancelAt, "length", len(blob),
		"kinds", seedKinds(sc.Seeds)))
	if sc.CancelAt == 0 {
		tw.Emit(trace.M("ev", "cancel", "g", "harness"))
	}
	for _, e := range log {
		if strings.HasPrefix(e.Point, "pc.") || e.Point == "result" {
			continue
		}
		m := map[string]interface{}{"ev": e.Point, "g": e.G}
		for j := 0; j+1 < len(e.KV); j += 2 {
			k := e.KV[j].(string)
			switch v := e.KV[j+1].(type) {
			case desync.ChunkID:
				if id, ok := w.byHash[v]; ok {
					m[k] = id
				} else {
					m[k] = 100000 + int(v[0])<<16 + int(v[1])<<8 + int(v[2])
				}
			case []desync.ChunkID:
				ids := make([]int, len(v))
				for i, x := range v {
					if id, ok := w.byHash[x]; ok {
						ids[i] = id
					} else {
						ids[i] = 100000 + int(x[0])<<16 + int(x[1])<<8 + int(x[2])
					}
				}
				m[k] = ids
			case uint64:
				if k == "start" {
					m["pos"] = startsToPos[v]
				}
				m[k] = v
			case []string: // plan: source files -> seed numbers
				nums := make([]int, len(v))
				for i, f := range v {
					nums[i] = seedNo(f)
				}
				m["seeds"] = nums
			case string:
				if k == "file" {
					m["seed"] = seedNo(v)
				} else {
					m[k] = v
				}
			default:
				m[k] = v
			}
		}
		if e.Point == "asm.plan" {
			// source start offset -> position in the seed's (current) index is resolved by the spec from "starts"
			// of the latest fs.regen or the initial claim; the harness adds the initial seed chunk starts once
		}
		if sn, ok := snap[e.Seq]; ok {
			m["t"], m["len"] = sn[0], sn[1]
		}
		tw.Emit(m)
	}
	res := result{events: nev, stats: s.Stats}
	if herr != nil {
		res.hang = herr.(*sched.HangError)
		tw.Emit(trace.M("ev", "hang", "scen", sc.Num))
		return res
	}
	rs := "ok"
	if aerr != nil {
		rs = "error"
		if errors.As(aerr, &desync.Interrupted{}) {
			rs = "interrupted"
		}
	}
	fb, ferr := os.ReadFile(target)
	ft := []int{}
	if ferr == nil {
		ft = w.classify(fb, idx)
	}
	cl := 0
	if emu != nil {
		cl = emu.Calls
	}
	tw.Emit(trace.M("ev", "result", "g", "main", "res", rs, "t", ft, "len", len(fb), "equal", ferr == nil && bytes.Equal(fb, blob),
		"storefail", gs.Fails, "clonecalls", cl, "errtext", errText(aerr)))
	if xstats != nil { // judged by ExtractStats.tla (not part of C01)
		var maxc uint64
		for _, c := range idx.Chunks {
			if c.Size > maxc {
				maxc = c.Size
			}
		}
		tw.Emit(trace.M("ev", "stats", "from", resetLine, "res", rs, "k", len(idx.Chunks), "length", len(blob), "nseeds", len(seeds), "maxchunk", maxc,
			"started", xstats.Seeds > 0,
			"rep", trace.M("total", xstats.ChunksTotal, "bytes", xstats.BytesTotal, "seeds", xstats.Seeds, "store", xstats.ChunksFromStore,
				"inplace", xstats.ChunksInPlace, "fromseeds", xstats.ChunksFromSeeds, "copied", xstats.BytesCopied, "cloned", xstats.BytesCloned)))
	}
	return res
}

func errText(err error) string {
	if err == nil {
		return ""
	}
	s := err.Error()
	if len(s) > 200 {
		s = s[:200]
	}
	return s
}

func seedKinds(s []seedSpec) []string {
	out := []string{}
	for _, x := range s {
		out = append(out, x.Kind)
	}
	return out
}

func nn(a []int) []int {
	if a == nil {
		return []int{}
	}
	return a
}

func main() {
	seed := flag.Int64("seed", 1, "seed")
	n := flag.Int("n", 100, "scenarios")
	from := flag.Int("from", 1, "first scenario number to run (earlier ones are generated and skipped)")
	clone := flag.Bool("clone", true, "include scenarios with emulated block cloning")
	cancelEvery := flag.Int("cancelevery", 5, "every k-th scenario is cancelled at a random event (0 = never)")
	out := flag.String("out", "", "trace output")
	meta := flag.String("meta", "", "summary output")
	dir := flag.String("dir", "", "scratch directory")
	only := flag.String("scenario", "", "run exactly this scenario (JSON)")
	flag.Parse()
	tw, err := trace.Create(*out)
	if err != nil {
		fmt.Fprintln(os.Stderr, err)
		os.Exit(2)
	}
	r := rand.New(rand.NewSource(*seed))
	hangs := []map[string]interface{}{}
	tot := sched.Stats{}
	count := 0
	runIt := func(sc scenario) {
		b, _ := json.Marshal(sc)
		// marker for the parent: if the process dies in this scenario (panic in a worker goroutine) it knows where
		fmt.Fprintf(os.Stderr, "SCENARIO %s\n", b)
		res := run(&sc, *dir, tw)
		count++
		tot.Steps += res.stats.Steps
		tot.Unannounced += res.stats.Unannounced
		if res.hang != nil {
			hangs = append(hangs, map[string]interface{}{"scen": sc.Num, "parked": res.hang.Parked, "stacks": res.hang.Stacks, "scenario": sc})
		}
	}
	if *only != "" {
		var sc scenario
		if err := json.Unmarshal([]byte(*only), &sc); err != nil {
			fmt.Fprintln(os.Stderr, err)
			os.Exit(2)
		}
		runIt(sc)
	} else {
		for i := 1; i <= *n; i++ {
			sc := genScenario(r, i, *clone, *cancelEvery > 0 && i%*cancelEvery == 0)
			if i < *from {
				continue
			}
			runIt(sc)
			if len(hangs) >= 3 {
				break
			}
		}
	}
	if err := tw.Close(); err != nil {
		fmt.Fprintln(os.Stderr, err)
		os.Exit(2)
	}
	b, _ := json.MarshalIndent(map[string]interface{}{"scenarios": count, "events": tw.N, "hangs": hangs, "steps": tot.Steps,
		"unannounced": tot.Unannounced}, "", " ")
	if *meta != "" {
		os.WriteFile(*meta, b, 0644)
	}
	fmt.Printf("scenarios=%d events=%d hangs=%d steps=%d unannounced=%d\n", count, tw.N, len(hangs), tot.Steps, tot.Unannounced)
}
