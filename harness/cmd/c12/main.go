// c12 drives the real DedupQueue / WriteDedupQueue under the gate scheduler and records one NDJSON
// trace (many scenarios, separated by "reset" records) for Trace_Dedup.tla.
package main

import (
	"bytes"
	"encoding/json"
	"errors"
	"flag"
	"fmt"
	"math/rand"
	"os"
	"strings"
	"sync"

	"github.com/folbricht/desync"

	"verif/harness/sched"
	"verif/harness/trace"
)

type call struct {
	Kind string `json:"kind"`
	ID   int    `json:"id"`
	Via  string `json:"via"`
}

// scenario read from a schedule file (replay of TLC behaviours) or generated
type scenario struct {
	Calls map[string][]call `json:"calls"` // caller -> calls
	Order []string          `json:"order"` // prescribed grant order (may be empty)
	Outs  []string          `json:"outs"`  // prescribed upstream outcomes in order of up.exit (may be empty)
}

var (
	datas [][]byte
	ids   []desync.ChunkID
	idIdx = map[desync.ChunkID]int{}
)

func initChunks(n int) {
	for i := 1; i <= n; i++ {
		d := bytes.Repeat([]byte{byte(i)}, 100+i)
		c := desync.NewChunk(d)
		datas = append(datas, d)
		ids = append(ids, c.ID())
		idIdx[c.ID()] = i
	}
}

// upstream is the gated fake store: every call parks twice in the scheduler (enter, exit); the outcome is
// chosen at exit.
type upstream struct {
	s    *sched.Sched
	mu   sync.Mutex
	r    *rand.Rand
	outs []string
	nOut int
}

func (u *upstream) outcome(kind string) string {
	u.mu.Lock()
	defer u.mu.Unlock()
	var opts []string
	switch kind {
	case "get":
		opts = []string{"data", "data", "missing", "error"}
	case "has":
		opts = []string{"true", "false", "error"}
	default:
		opts = []string{"ok", "ok", "error"}
	}
	if u.nOut < len(u.outs) {
		o := u.outs[u.nOut]
		u.nOut++
		for _, x := range opts {
			if x == o {
				return o
			}
		}
	}
	return opts[u.r.Intn(len(opts))]
}

var errUp = errors.New("upstream failure")

func (u *upstream) GetChunk(id desync.ChunkID) (*desync.Chunk, error) {
	u.s.Hook("up.enter", "kind", "get", "id", id)
	o := u.outcome("get")
	u.s.Hook("up.exit", "kind", "get", "id", id, "out", o)
	switch o {
	case "data":
		return desync.NewChunk(datas[idIdx[id]-1]), nil
	case "missing":
		return nil, desync.ChunkMissing{ID: id}
	}
	return nil, errUp
}
func (u *upstream) HasChunk(id desync.ChunkID) (bool, error) {
	u.s.Hook("up.enter", "kind", "has", "id", id)
	o := u.outcome("has")
	u.s.Hook("up.exit", "kind", "has", "id", id, "out", o)
	switch o {
	case "true":
		return true, nil
	case "false":
		return false, nil
	}
	return false, errUp
}
func (u *upstream) StoreChunk(c *desync.Chunk) error {
	id := c.ID()
	u.s.Hook("up.enter", "kind", "store", "id", id)
	o := u.outcome("store")
	u.s.Hook("up.exit", "kind", "store", "id", id, "out", o)
	if o == "ok" {
		return nil
	}
	return errUp
}
func (u *upstream) Close() error   { return nil }
func (u *upstream) String() string { return "fake" }

func classGet(c *desync.Chunk, err error, id int) string {
	if err != nil {
		// by dynamic type, as desync's consumers (router, cache, failover group, handlers) recognise it
		if _, ok := err.(desync.ChunkMissing); ok {
			return "missing"
		}
		return "error"
	}
	if c == nil {
		return "nil"
	}
	d, derr := c.Data()
	if derr != nil {
		return "baddata"
	}
	if !bytes.Equal(d, datas[id-1]) {
		return "otherdata"
	}
	return "data"
}

func project(e sched.Event) map[string]interface{} {
	m := map[string]interface{}{"ev": e.Point, "g": e.G}
	for i := 0; i+1 < len(e.KV); i += 2 {
		k := e.KV[i].(string)
		switch v := e.KV[i+1].(type) {
		case desync.ChunkID:
			m[k] = idIdx[v]
		default:
			m[k] = v
		}
	}
	return m
}

func genScenario(r *rand.Rand, callers, nids, maxCalls int, kinds []string) scenario {
	sc := scenario{Calls: map[string][]call{}}
	for c := 1; c <= callers; c++ {
		n := 1 + r.Intn(maxCalls)
		var cs []call
		for j := 0; j < n; j++ {
			k := kinds[r.Intn(len(kinds))]
			via := "write"
			if k == "get" && r.Intn(4) == 0 {
				via = "plain"
			}
			// favour collisions: most calls go to id 1
			id := 1
			if r.Intn(3) == 0 {
				id = 1 + r.Intn(nids)
			}
			cs = append(cs, call{Kind: k, ID: id, Via: via})
		}
		sc.Calls[fmt.Sprintf("c%d", c)] = cs
	}
	return sc
}

func runScenario(num int, sc scenario, seed int64, policyName string, w *trace.Writer) (hang *sched.HangError, stats sched.Stats) {
	r := rand.New(rand.NewSource(seed))
	var pol sched.Policy
	switch policyName {
	case "pct":
		pol = sched.NewPCT(r, 3, 60)
	default:
		pol = &sched.Random{R: r}
	}
	if len(sc.Order) > 0 {
		pol = &sched.Replay{Order: sc.Order, Then: pol}
	}
	s := sched.New(pol, map[string]sched.Kind{"dq.wait": sched.Block})
	up := &upstream{s: s, r: rand.New(rand.NewSource(seed + 7)), outs: sc.Outs}
	wq := desync.NewWriteDedupQueue(up)
	desync.VerifHook = s.Hook
	log, err := s.Run(func() {
		var wg sync.WaitGroup
		for name, calls := range sc.Calls {
			wg.Add(1)
			go func(name string, calls []call) {
				defer wg.Done()
				s.Name(name)
				for _, c := range calls {
					s.Hook("call", "kind", c.Kind, "id", ids[c.ID-1], "via", c.Via)
					var res string
					switch c.Kind {
					case "get":
						var ch *desync.Chunk
						var err error
						if c.Via == "plain" {
							ch, err = wq.DedupQueue.GetChunk(ids[c.ID-1])
						} else {
							ch, err = wq.GetChunk(ids[c.ID-1])
						}
						res = classGet(ch, err, c.ID)
					case "has":
						ok, err := wq.HasChunk(ids[c.ID-1])
						res = fmt.Sprint(ok)
						if err != nil {
							res = "error"
						}
					case "store":
						err := wq.StoreChunk(desync.NewChunk(datas[c.ID-1]))
						res = "ok"
						if err != nil {
							res = "error"
						}
					}
					s.Hook("ret", "res", res)
				}
				s.Leave()
			}(name, calls)
		}
		wg.Wait()
	})
	desync.VerifHook = nil
	w.Emit(trace.M("ev", "reset", "scen", num))
	for _, e := range log {
		w.Emit(project(e))
	}
	if err != nil {
		h := err.(*sched.HangError)
		w.Emit(trace.M("ev", "hang", "scen", num))
		return h, s.Stats
	}
	w.Emit(trace.M("ev", "end", "scen", num))
	return nil, s.Stats
}

func main() {
	seed := flag.Int64("seed", 1, "seed")
	n := flag.Int("n", 100, "number of generated scenarios")
	callers := flag.Int("callers", 4, "max callers per scenario")
	maxCalls := flag.Int("calls", 2, "max calls per caller")
	nids := flag.Int("ids", 2, "id universe")
	kindsF := flag.String("kinds", "get,has,store", "kinds")
	out := flag.String("out", "", "trace output (ndjson)")
	sfile := flag.String("scenarios", "", "file with prescribed scenarios (ndjson), replayed before the generated ones")
	meta := flag.String("meta", "", "summary output (json)")
	flag.Parse()
	initChunks(8)
	w, err := trace.Create(*out)
	if err != nil {
		fmt.Fprintln(os.Stderr, err)
		os.Exit(2)
	}
	r := rand.New(rand.NewSource(*seed))
	var scs []scenario
	if *sfile != "" {
		b, err := os.ReadFile(*sfile)
		if err != nil {
			fmt.Fprintln(os.Stderr, err)
			os.Exit(2)
		}
		for _, line := range bytes.Split(b, []byte("\n")) {
			if len(bytes.TrimSpace(line)) == 0 {
				continue
			}
			var sc scenario
			if err := json.Unmarshal(line, &sc); err != nil {
				fmt.Fprintln(os.Stderr, err)
				os.Exit(2)
			}
			scs = append(scs, sc)
		}
	}
	nReplay := len(scs)
	for i := 0; i < *n; i++ {
		k := 2 + r.Intn(*callers-1)
		scs = append(scs, genScenario(r, k, *nids, *maxCalls, strings.Split(*kindsF, ",")))
	}
	hangs := []map[string]interface{}{}
	tot := sched.Stats{}
	distinct := map[string]bool{}
	for i, sc := range scs {
		pol := "random"
		if i%2 == 1 {
			pol = "pct"
		}
		h, st := runScenario(i+1, sc, *seed*1000003+int64(i), pol, w)
		tot.Steps += st.Steps
		tot.Unannounced += st.Unannounced
		tot.Diverged += st.Diverged
		if h != nil {
			hangs = append(hangs, map[string]interface{}{"scen": i + 1, "parked": h.Parked, "stacks": h.Stacks, "scenario": sc})
		}
		b, _ := json.Marshal(sc.Calls)
		distinct[string(b)] = true
	}
	if err := w.Close(); err != nil {
		fmt.Fprintln(os.Stderr, err)
		os.Exit(2)
	}
	summary := map[string]interface{}{"scenarios": len(scs), "replayed": nReplay, "events": w.N, "hangs": hangs,
		"steps": tot.Steps, "unannounced": tot.Unannounced, "diverged": tot.Diverged, "distinct_call_sets": len(distinct)}
	b, _ := json.MarshalIndent(summary, "", " ")
	if *meta != "" {
		os.WriteFile(*meta, b, 0644)
	}
	fmt.Printf("scenarios=%d events=%d hangs=%d steps=%d unannounced=%d diverged=%d\n", len(scs), w.N, len(hangs), tot.Steps, tot.Unannounced, tot.Diverged)
}
