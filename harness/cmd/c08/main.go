// c08 observes the real code at process-death points and records NDJSON for Trace_ChunkWrite.tla:
//
//	sched    concurrent LocalStore.StoreChunk calls (same / different IDs, a pruner) under the gate scheduler; the store
//	         directory is snapshotted at every step = the state a death at that instant leaves behind
//	die      a child process stores a chunk and kills itself (SIGKILL) at the k-th step, or runs into RLIMIT_FSIZE = k
//	         (a write really cut short after k bytes); the directory is examined afterwards
//	strace   the real desync binary (chop, extract) under strace -f; the file-system calls touching the store / the
//	         destination are projected to events; every prefix of the sequence is a death point
//	xkill    the real desync binary killed on entry to the k-th call of a syscall group (strace fault injection)
//	inplace  `desync extract -k` against a counting HTTP store, killed at the k-th chunk request, then re-run
package main

import (
	"bufio"
	"bytes"
	"context"
	"crypto/sha512"
	"encoding/hex"
	"flag"
	"fmt"
	"io"
	"math/rand"
	"net"
	"net/http"
	"os"
	"os/exec"
	"path/filepath"
	"regexp"
	"sort"
	"strconv"
	"strings"
	"sync"
	"syscall"
	"time"

	"github.com/folbricht/desync"
	"github.com/klauspost/compress/zstd"

	"verif/harness/sched"
	"verif/harness/trace"
)

type J = map[string]interface{}

var (
	w      *trace.Writer
	zdec   *zstd.Decoder
	scen   int
	binary string
)

func must(err error) {
	if err != nil {
		fmt.Fprintln(os.Stderr, "c08:", err)
		os.Exit(2)
	}
}

func sum(b []byte) string { h := sha512.Sum512_256(b); return hex.EncodeToString(h[:]) }

var chunkNameRe = regexp.MustCompile(`^([0-9a-f]{64})(\.cacnk)?$`)

// snapshot lists the store directory: one entry per file. Class C = chunk name (of either format), T = temporary name,
// O = anything else. full: a C file decodes (zstd for .cacnk, raw otherwise) to bytes that hash to its name.
func snapshot(store string, ids map[string]int, tmps map[string]int) []J {
	out := []J{}
	filepath.Walk(store, func(p string, info os.FileInfo, err error) error {
		if err != nil || info.IsDir() {
			return nil
		}
		base := filepath.Base(p)
		e := J{"c": "O", "id": 0, "full": false, "size": int(info.Size())}
		if m := chunkNameRe.FindStringSubmatch(base); m != nil && filepath.Base(filepath.Dir(p)) == m[1][:4] {
			e["c"] = "C"
			e["id"] = ids[m[1]]
			b, rerr := os.ReadFile(p)
			if rerr == nil {
				if m[2] != "" {
					b, rerr = zdec.DecodeAll(b, nil)
				}
				e["full"] = rerr == nil && sum(b) == m[1]
			}
		} else if strings.HasPrefix(base, ".tmp-cacnk") {
			e["c"] = "T"
			e["id"] = tmps[p]
		}
		out = append(out, e)
		return nil
	})
	sort.Slice(out, func(i, j int) bool {
		return fmt.Sprint(out[i]["c"], out[i]["id"]) < fmt.Sprint(out[j]["c"], out[j]["id"])
	})
	return out
}

func mkChunks(r *rand.Rand, n int) ([][]byte, map[string]int) {
	var datas [][]byte
	ids := map[string]int{}
	for i := 1; i <= n; i++ {
		d := make([]byte, 1500+r.Intn(1000))
		r.Read(d[:len(d)/2]) // half random, half zero: compresses
		datas = append(datas, d)
		ids[sum(d)] = i
	}
	return datas, ids
}

func newStore(dir string, uncompressed bool) desync.LocalStore {
	os.MkdirAll(dir, 0755)
	s, err := desync.NewLocalStore(dir, desync.StoreOptions{Uncompressed: uncompressed})
	must(err)
	return s
}

// ------------------------------------------------------------------------------------------------ sched

func runSched(r *rand.Rand, dir string, n int) {
	for i := 0; i < n; i++ {
		scen++
		sdir := filepath.Join(dir, fmt.Sprintf("s%d", scen))
		unc := r.Intn(2) == 0
		st := newStore(sdir, unc)
		datas, ids := mkChunks(r, 2)
		nw := 2 + r.Intn(2)
		idOf := map[string]int{"w1": 1, "w2": 1} // as in ChunkWriteMC: w1 and w2 store the same chunk, w3 another one
		if nw == 3 {
			idOf["w3"] = 2
		}
		withPrune := r.Intn(3) == 0
		var pol sched.Policy = &sched.Random{R: rand.New(rand.NewSource(r.Int63()))}
		if r.Intn(2) == 0 {
			pol = sched.NewPCT(rand.New(rand.NewSource(r.Int63())), 3, 30)
		}
		s := sched.New(pol, map[string]sched.Kind{})
		s.StoreSteps = true
		tmps := map[string]int{}
		var snaps = map[int][]J{}
		s.OnEvent = func(e sched.Event) []sched.Event {
			if e.Point == "ls.tmp" {
				tmps[e.Get("name").(string)] = 101 + len(tmps)
			}
			snaps[e.Seq] = snapshot(sdir, ids, tmps)
			return nil
		}
		desync.VerifHook = s.Hook
		log, err := s.Run(func() {
			var wg sync.WaitGroup
			for name, id := range idOf {
				wg.Add(1)
				go func(name string, id int) {
					defer wg.Done()
					s.Name(name)
					s.Hook("call", "id", id)
					err := st.StoreChunk(desync.NewChunk(datas[id-1]))
					s.Hook("ret", "err", err != nil)
					s.Leave()
				}(name, id)
			}
			if withPrune {
				wg.Add(1)
				go func() {
					defer wg.Done()
					s.Name("pruner")
					for k := 0; k < 2; k++ {
						s.Hook("pr.enter")
						keep := map[desync.ChunkID]struct{}{}
						for _, d := range datas {
							keep[desync.NewChunk(d).ID()] = struct{}{}
						}
						perr := st.Prune(context.Background(), keep)
						s.Hook("pr.exit", "err", perr != nil)
					}
					s.Leave()
				}()
			}
			wg.Wait()
		})
		desync.VerifHook = nil
		ws := []string{}
		for k := range idOf {
			ws = append(ws, k)
		}
		sort.Strings(ws)
		w.Emit(J{"ev": "reset", "scen": scen, "kind": "sched", "writers": ws, "idof": idOf, "uncompressed": unc})
		for _, e := range log {
			rec := J{"ev": e.Point, "g": e.G, "dir": snaps[e.Seq]}
			for k := 0; k+1 < len(e.KV); k += 2 {
				key := e.KV[k].(string)
				if key == "name" {
					rec["tmp"] = tmps[e.KV[k+1].(string)]
				} else if key != "path" {
					rec[key] = e.KV[k+1]
				}
			}
			w.Emit(rec)
		}
		if err != nil {
			w.Emit(J{"ev": "hang", "scen": scen})
		} else {
			w.Emit(J{"ev": "end", "scen": scen, "dir": snapshot(sdir, ids, tmps)})
		}
		os.RemoveAll(sdir)
	}
}

// ------------------------------------------------------------------------------------------------ die (child + parent)

func childStore(dir string, unc bool, seed int64, id int, dieAt int, limit int64) {
	r := rand.New(rand.NewSource(seed))
	datas, _ := mkChunks(r, 2)
	st := newStore(dir, unc)
	if limit >= 0 {
		must(syscall.Setrlimit(syscall.RLIMIT_FSIZE, &syscall.Rlimit{Cur: uint64(limit), Max: uint64(limit)}))
	}
	step := 0
	if dieAt > 0 {
		desync.VerifHook = func(point string, kv ...interface{}) {
			step++
			if step == dieAt {
				syscall.Kill(os.Getpid(), syscall.SIGKILL)
				time.Sleep(time.Hour)
			}
		}
	}
	if err := st.StoreChunk(desync.NewChunk(datas[id-1])); err != nil {
		fmt.Println("error:", err)
		os.Exit(1)
	}
}

func runDie(r *rand.Rand, dir string, thorough bool) {
	for _, unc := range []bool{false, true} {
		seed := r.Int63()
		datas, ids := mkChunks(rand.New(rand.NewSource(seed)), 2)
		// size of the stored object, to sweep RLIMIT_FSIZE over every byte count
		probe := filepath.Join(dir, "probe")
		st := newStore(probe, unc)
		must(st.StoreChunk(desync.NewChunk(datas[0])))
		var stored int64
		filepath.Walk(probe, func(p string, info os.FileInfo, err error) error {
			if err == nil && !info.IsDir() {
				stored = info.Size()
			}
			return nil
		})
		os.RemoveAll(probe)
		type variant struct {
			dieAt int
			limit int64
		}
		var vs []variant
		for k := 1; k <= 5; k++ {
			vs = append(vs, variant{k, -1})
		}
		stride := int64(37)
		if thorough {
			stride = 1
		}
		for k := int64(0); k <= stored+1; k += stride {
			vs = append(vs, variant{0, k})
		}
		vs = append(vs, variant{0, 1}, variant{0, stored - 1}, variant{0, stored})
		for _, v := range vs {
			for _, pre := range []bool{false, true} {
				if pre && v.limit >= 0 && v.limit%5 != 0 {
					continue
				}
				scen++
				sdir := filepath.Join(dir, fmt.Sprintf("d%d", scen))
				if pre { // another process has stored the same chunk before: the death must not damage it
					must(newStore(sdir, unc).StoreChunk(desync.NewChunk(datas[0])))
				}
				cmd := exec.Command(os.Args[0], "-mode", "childstore", "-dir", sdir, fmt.Sprintf("-unc=%v", unc), "-seed", fmt.Sprint(seed),
					"-dieat", fmt.Sprint(v.dieAt), "-limit", fmt.Sprint(v.limit))
				out, err := cmd.CombinedOutput()
				died := false
				if ee, ok := err.(*exec.ExitError); ok {
					if ws, ok := ee.Sys().(syscall.WaitStatus); ok && ws.Signaled() {
						died = true
					}
				}
				w.Emit(J{"ev": "kill", "scen": scen, "how": map[bool]string{true: "step", false: "fsize"}[v.dieAt > 0], "k": maxi(int64(v.dieAt), v.limit),
					"uncompressed": unc, "pre": pre, "died": died, "failed": err != nil, "out": firstLine(string(out)), "dir": snapshot(sdir, ids, map[string]int{})})
				os.RemoveAll(sdir)
			}
		}
	}
}

func maxi(a, b int64) int64 {
	if a > b {
		return a
	}
	return b
}

func firstLine(s string) string {
	s = strings.TrimSpace(s)
	if i := strings.IndexByte(s, '\n'); i >= 0 {
		s = s[:i]
	}
	if len(s) > 160 {
		s = s[:160]
	}
	return s
}

// ------------------------------------------------------------------------------------------------ fixtures for the CLI modes

type fixture struct {
	dir, blob, index, store, cfg string
	data                         []byte
	idx                          desync.Index
	ids                          map[string]int
}

// a blob with repeated sections (duplicate chunks) and a run of zeros, chunked with small parameters
func mkFixture(r *rand.Rand, dir string, unc bool) *fixture {
	os.MkdirAll(dir, 0755)
	f := &fixture{dir: dir, blob: filepath.Join(dir, "blob"), index: filepath.Join(dir, "blob.caibx"), store: filepath.Join(dir, "store"), cfg: filepath.Join(dir, "config.json")}
	sec := make([]byte, 6000)
	r.Read(sec)
	var b []byte
	b = append(b, sec...)
	x := make([]byte, 9000)
	r.Read(x)
	b = append(b, x...)
	b = append(b, sec...)
	b = append(b, make([]byte, 5000)...)
	y := make([]byte, 7000)
	r.Read(y)
	b = append(b, y...)
	b = append(b, sec...)
	f.data = b
	must(os.WriteFile(f.blob, b, 0644))
	cfg := fmt.Sprintf(`{"store-options": {"%s": {"uncompressed": %v}}}`, f.store, unc)
	must(os.WriteFile(f.cfg, []byte(cfg), 0644))
	// index + store made by the library (the CLI runs under observation later use their own store directories)
	st := newStore(f.store, unc)
	ck, err := desync.NewChunker(bytes.NewReader(b), 512, 2048, 8192)
	must(err)
	idx, err := desync.ChunkStream(context.Background(), ck, st, 2)
	must(err)
	f.idx = idx
	fo, err := os.Create(f.index)
	must(err)
	_, err = idx.WriteTo(fo)
	must(err)
	fo.Close()
	f.ids = map[string]int{}
	for _, c := range idx.Chunks {
		if _, ok := f.ids[c.ID.String()]; !ok {
			f.ids[c.ID.String()] = len(f.ids) + 1
		}
	}
	return f
}

// ------------------------------------------------------------------------------------------------ strace projection

var (
	reLine    = regexp.MustCompile(`^(\d+)\s+(.*)$`)
	reUnfin   = regexp.MustCompile(`^(.*) <unfinished \.\.\.>$`)
	reResumed = regexp.MustCompile(`^<\.\.\. (\w+) resumed>(.*)$`)
	reCall    = regexp.MustCompile(`^(\w+)\((.*)\)\s+= (-?\d+|\?)(.*)$`)
	reFdPath  = regexp.MustCompile(`^(\d+)<([^>]*)>`)
	reQuoted  = regexp.MustCompile(`"((?:[^"\\]|\\.)*)"`)
)

type sysEvent struct {
	op          string
	path, to    string
	n, off      int64
	trunc, excl bool
}

// parseStrace returns the successful file-system calls in completion order.
func parseStrace(file string) []sysEvent {
	f, err := os.Open(file)
	must(err)
	defer f.Close()
	var out []sysEvent
	pending := map[string]string{}
	sc := bufio.NewScanner(f)
	sc.Buffer(make([]byte, 1<<20), 1<<24)
	for sc.Scan() {
		m := reLine.FindStringSubmatch(sc.Text())
		if m == nil {
			continue
		}
		pid, rest := m[1], m[2]
		if u := reUnfin.FindStringSubmatch(rest); u != nil {
			pending[pid] = u[1]
			continue
		}
		if rs := reResumed.FindStringSubmatch(rest); rs != nil {
			rest = pending[pid] + rs[2]
			delete(pending, pid)
		}
		c := reCall.FindStringSubmatch(rest)
		if c == nil {
			continue
		}
		name, args, ret, tail := c[1], c[2], c[3], c[4]
		if ret == "?" || strings.HasPrefix(ret, "-") {
			continue
		}
		rv, _ := strconv.ParseInt(ret, 10, 64)
		qs := reQuoted.FindAllStringSubmatch(args, -1)
		q := func(i int) string {
			if i < len(qs) {
				return qs[i][1]
			}
			return ""
		}
		fdp := func() string {
			if m := reFdPath.FindStringSubmatch(args); m != nil {
				return m[2]
			}
			return ""
		}
		switch name {
		case "openat", "open", "creat":
			p := q(0)
			if m := regexp.MustCompile(`^<([^>]*)>`).FindStringSubmatch(tail); m != nil {
				p = m[1] // the resolved path of the new descriptor
			}
			if strings.Contains(args, "O_CREAT") || strings.Contains(args, "O_TRUNC") || name == "creat" {
				out = append(out, sysEvent{op: "create", path: p, trunc: strings.Contains(args, "O_TRUNC") || name == "creat", excl: strings.Contains(args, "O_EXCL")})
			} else if strings.Contains(args, "O_WRONLY") || strings.Contains(args, "O_RDWR") {
				out = append(out, sysEvent{op: "openw", path: p})
			}
		case "write":
			out = append(out, sysEvent{op: "write", path: fdp(), n: rv, off: -1})
		case "pwrite64":
			parts := strings.Split(args, ",")
			off, _ := strconv.ParseInt(strings.TrimSpace(parts[len(parts)-1]), 10, 64)
			out = append(out, sysEvent{op: "write", path: fdp(), n: rv, off: off})
		case "close":
			out = append(out, sysEvent{op: "close", path: fdp()})
		case "rename", "renameat", "renameat2":
			out = append(out, sysEvent{op: "rename", path: q(0), to: q(1)})
		case "unlink", "unlinkat":
			out = append(out, sysEvent{op: "unlink", path: q(0)})
		case "truncate":
			parts := strings.Split(args, ",")
			l, _ := strconv.ParseInt(strings.TrimSpace(parts[len(parts)-1]), 10, 64)
			out = append(out, sysEvent{op: "truncate", path: q(0), n: l})
		case "ftruncate":
			parts := strings.Split(args, ",")
			l, _ := strconv.ParseInt(strings.TrimSpace(parts[len(parts)-1]), 10, 64)
			out = append(out, sysEvent{op: "truncate", path: fdp(), n: l})
		case "link", "linkat", "symlink", "symlinkat":
			out = append(out, sysEvent{op: "link", path: q(0), to: q(1)})
		}
	}
	return out
}

const straceSet = "openat,open,creat,write,pwrite64,close,rename,renameat,renameat2,unlink,unlinkat,truncate,ftruncate,link,linkat,symlink,symlinkat"

func straceRun(logf string, args ...string) error {
	a := append([]string{"-f", "-y", "-s", "0", "-o", logf, "-e", "trace=" + straceSet, "--"}, args...)
	cmd := exec.Command("strace", a...)
	cmd.Env = append(os.Environ(), "HOME=/nonexistent")
	out, err := cmd.CombinedOutput()
	if err != nil {
		return fmt.Errorf("%v: %s", err, firstLine(string(out)))
	}
	return nil
}

// classify a path relative to a store directory
func classify(store, p string, ids map[string]int, tmps map[string]int) (string, int, bool) {
	if !strings.HasPrefix(p, store+"/") {
		return "", 0, false
	}
	base := filepath.Base(p)
	if m := chunkNameRe.FindStringSubmatch(base); m != nil && filepath.Base(filepath.Dir(p)) == m[1][:4] {
		return "C", ids[m[1]], true
	}
	if strings.HasPrefix(base, ".tmp-cacnk") {
		if _, ok := tmps[p]; !ok {
			tmps[p] = 101 + len(tmps)
		}
		return "T", tmps[p], true
	}
	if _, ok := tmps[p]; !ok {
		tmps[p] = 101 + len(tmps)
	}
	return "O", tmps[p], true
}

func runStrace(r *rand.Rand, dir string) {
	for _, unc := range []bool{false, true} {
		fx := mkFixture(r, filepath.Join(dir, fmt.Sprintf("fx%v", unc)), unc)
		// ---- chop into a fresh store with 4 workers (duplicate chunks are stored concurrently)
		for _, n := range []string{"1", "4"} {
			scen++
			store2 := filepath.Join(fx.dir, "store-chop"+n)
			os.MkdirAll(store2, 0755)
			cfg := filepath.Join(fx.dir, "config-chop.json")
			must(os.WriteFile(cfg, []byte(fmt.Sprintf(`{"store-options": {"%s": {"uncompressed": %v}}}`, store2, unc)), 0644))
			logf := filepath.Join(fx.dir, "strace.log")
			must(straceRun(logf, binary, "--config", cfg, "chop", "-n", n, "-s", store2, fx.index, fx.blob))
			evs := parseStrace(logf)
			// sizes of the final, validated chunk files
			final := snapshot(store2, fx.ids, map[string]int{})
			sizes := map[string]int{}
			okFinal := true
			for _, e := range final {
				if e["c"] == "C" {
					sizes[fmt.Sprint(e["id"])] = e["size"].(int)
					okFinal = okFinal && e["full"].(bool)
				}
			}
			w.Emit(J{"ev": "reset", "scen": scen, "kind": "sys", "cmd": "chop -n " + n, "uncompressed": unc, "sizes": sizes, "final_valid": okFinal, "nchunks": len(fx.ids)})
			tmps := map[string]int{}
			for _, e := range evs {
				c, id, ok := classify(store2, e.path, fx.ids, tmps)
				rec := J{"ev": "sys", "op": e.op, "c": c, "id": id, "n": int(e.n), "off": int(e.off), "trunc": e.trunc, "excl": e.excl, "c2": "", "id2": 0}
				if e.op == "rename" || e.op == "link" {
					c2, id2, ok2 := classify(store2, e.to, fx.ids, tmps)
					if !ok && !ok2 {
						continue
					}
					rec["c2"], rec["id2"] = c2, id2
				} else if !ok {
					continue
				}
				w.Emit(rec)
			}
			w.Emit(J{"ev": "end", "scen": scen})
			os.RemoveAll(store2)
		}
		// ---- extract through a temporary file onto an existing destination
		for _, n := range []string{"1", "4", "1a", "4a"} {
			scen++
			ddir := filepath.Join(fx.dir, "dest"+n)
			os.MkdirAll(ddir, 0755)
			dest := filepath.Join(ddir, "out")
			if strings.HasSuffix(n, "a") { // the destination does not exist before: "previous state" = absent
				n = strings.TrimSuffix(n, "a")
			} else {
				must(os.WriteFile(dest, []byte("previous content"), 0644))
			}
			logf := filepath.Join(fx.dir, "strace.log")
			must(straceRun(logf, binary, "--config", fx.cfg, "extract", "-n", n, "-s", fx.store, fx.index, dest))
			evs := parseStrace(logf)
			got, _ := os.ReadFile(dest)
			w.Emit(J{"ev": "reset", "scen": scen, "kind": "xsys", "cmd": "extract -n " + n, "uncompressed": unc, "final_ok": bytes.Equal(got, fx.data)})
			cls := func(p string) string {
				if p == dest {
					return "D"
				}
				if strings.HasPrefix(p, ddir+"/") {
					return "X"
				}
				return ""
			}
			for _, e := range evs {
				c, c2 := cls(e.path), cls(e.to)
				if c == "" && c2 == "" {
					continue
				}
				w.Emit(J{"ev": "xsys", "op": e.op, "c": c, "c2": c2, "trunc": e.trunc})
			}
			w.Emit(J{"ev": "end", "scen": scen})
			os.RemoveAll(ddir)
		}
		os.RemoveAll(fx.dir)
	}
}

// ------------------------------------------------------------------------------------------------ xkill

func runXkill(r *rand.Rand, dir string, thorough bool) {
	fx := mkFixture(r, filepath.Join(dir, "fxk"), r.Intn(2) == 0)
	groups := []string{"rename,renameat,renameat2", "unlink,unlinkat", "truncate,ftruncate", "pwrite64,write", "openat", "close"}
	for _, n := range []string{"1", "4", "1a", "4a", "1L"} {
		absent := strings.HasSuffix(n, "a")
		long := strings.HasSuffix(n, "L") // a destination name so long that no temporary file can be created next to it
		n = strings.TrimSuffix(strings.TrimSuffix(n, "a"), "L")
		for _, g := range groups {
			if long && !(strings.HasPrefix(g, "pwrite64") || strings.HasPrefix(g, "truncate") || g == "openat") {
				continue
			}
			maxK := 400
			for k := 1; k <= maxK; k++ {
				scen++
				ddir := filepath.Join(fx.dir, "xk")
				os.RemoveAll(ddir)
				os.MkdirAll(ddir, 0755)
				dest := filepath.Join(ddir, "out")
				if long {
					dest = filepath.Join(ddir, strings.Repeat("o", 250))
				}
				prev := []byte("previous content of the destination")
				if !absent {
					must(os.WriteFile(dest, prev, 0644))
				}
				cmd := exec.Command("strace", "-f", "-o", "/dev/null", "-e", "trace="+g, "-e", fmt.Sprintf("inject=%s:signal=SIGKILL:when=%d", g, k), "--",
					binary, "--config", fx.cfg, "extract", "-n", n, "-s", fx.store, fx.index, dest)
				cmd.Env = append(os.Environ(), "HOME=/nonexistent")
				out, err := cmd.CombinedOutput()
				got, rerr := os.ReadFile(dest)
				state := "other"
				switch {
				case rerr != nil && absent:
					state = "prev" // it did not exist before either
				case rerr != nil:
					state = "gone"
				case bytes.Equal(got, prev):
					state = "prev"
				case bytes.Equal(got, fx.data):
					state = "new"
				}
				left, _ := filepath.Glob(filepath.Join(ddir, ".out*"))
				w.Emit(J{"ev": "xkill", "scen": scen, "n": n, "absent": absent, "longname": long, "sys": g, "k": k, "survived": err == nil, "dest": state, "leftover_tmp": len(left), "out": firstLine(string(out))})
				// strace exits with 128+9 when the traced command was killed by the injected SIGKILL; any other non-zero status
				// means the command ended by itself with an error (e.g. it refused the over-long destination name)
				killedBySig := false
				if ee, ok := err.(*exec.ExitError); ok {
					if ws, ok := ee.Sys().(syscall.WaitStatus); ok && (ws.Signaled() || ws.ExitStatus() == 137) {
						killedBySig = true
					}
				}
				if err == nil || !killedBySig { // the k-th call never happened: the sweep of this group is complete
					// the same sweep with the signals that ASK the process to die (it cancels its work and exits): the destination
					// is its previous state, or - when the signal came too late to matter - the complete blob with exit status 0
					if !long && (strings.HasPrefix(g, "pwrite64") || g == "openat") {
						step := 1
						if !thorough && k > 24 {
							step = k / 24
						}
						for kk := 1; kk < k; kk += step {
							scen++
							os.RemoveAll(ddir)
							os.MkdirAll(ddir, 0755)
							if !absent {
								must(os.WriteFile(dest, prev, 0644))
							}
							sg := []string{"SIGTERM", "SIGINT"}[kk%2]
							cmd := exec.Command("strace", "-f", "-o", "/dev/null", "-e", "trace="+g, "-e", fmt.Sprintf("inject=%s:signal=%s:when=%d", g, sg, kk), "--",
								binary, "--config", fx.cfg, "extract", "-n", n, "-s", fx.store, fx.index, dest)
							cmd.Env = append(os.Environ(), "HOME=/nonexistent")
							out, err := cmd.CombinedOutput()
							got, rerr := os.ReadFile(dest)
							state := "other"
							switch {
							case rerr != nil && absent:
								state = "prev"
							case rerr != nil:
								state = "gone"
							case bytes.Equal(got, prev):
								state = "prev"
							case bytes.Equal(got, fx.data):
								state = "new"
							}
							w.Emit(J{"ev": "xkill", "scen": scen, "n": n, "absent": absent, "longname": false, "sys": g + " " + sg, "k": kk, "survived": err == nil, "dest": state, "leftover_tmp": 0, "out": firstLine(string(out))})
						}
					}
					break
				}
			}
		}
	}
	// an index of one or two chunks, the signal at an early call (while the index is read, before the workers start, between the two
	// chunks): the destination keeps its previous content unless the command reports success with the complete blob
	for _, nchunks := range []int{1, 2} {
		small := make([]byte, 700*nchunks)
		r.Read(small)
		sst := newStore(filepath.Join(fx.dir, "smallstore"), false)
		var sidx desync.Index
		var pos uint64
		for c := 0; c < nchunks; c++ {
			ch := desync.NewChunk(small[c*700 : (c+1)*700])
			must(sst.StoreChunk(ch))
			sidx.Chunks = append(sidx.Chunks, desync.IndexChunk{ID: ch.ID(), Start: pos, Size: 700})
			pos += 700
		}
		sidx.Index = desync.FormatIndex{FeatureFlags: desync.CaFormatExcludeNoDump | desync.CaFormatSHA512256, ChunkSizeMin: 512, ChunkSizeAvg: 2048, ChunkSizeMax: 8192}
		sindex := filepath.Join(fx.dir, "small.caibx")
		fo, err := os.Create(sindex)
		must(err)
		_, err = sidx.WriteTo(fo)
		must(err)
		fo.Close()
		for _, n := range []string{"1", "3"} {
			for _, g := range []string{"openat", "read,pread64", "futex"} {
				top := 25
				if thorough {
					top = 120
				}
				for k := 1; k <= top; k++ {
					scen++
					ddir := filepath.Join(fx.dir, "xs")
					os.RemoveAll(ddir)
					os.MkdirAll(ddir, 0755)
					dest := filepath.Join(ddir, "out")
					prev := []byte("previous content of the destination")
					must(os.WriteFile(dest, prev, 0644))
					sg := []string{"SIGTERM", "SIGINT"}[k%2]
					cmd := exec.Command("strace", "-f", "-o", "/dev/null", "-e", "trace="+g, "-e", fmt.Sprintf("inject=%s:signal=%s:when=%d", g, sg, k), "--",
						binary, "extract", "-n", n, "-s", filepath.Join(fx.dir, "smallstore"), sindex, dest)
					cmd.Env = append(os.Environ(), "HOME=/nonexistent")
					out, err := cmd.CombinedOutput()
					got, rerr := os.ReadFile(dest)
					state := "other"
					switch {
					case rerr != nil:
						state = "gone"
					case bytes.Equal(got, prev):
						state = "prev"
					case bytes.Equal(got, small):
						state = "new"
					}
					w.Emit(J{"ev": "xkill", "scen": scen, "n": n, "absent": false, "longname": false, "sys": fmt.Sprintf("%d-chunk index, %s %s", nchunks, g, sg), "k": k, "survived": err == nil, "dest": state,
						"leftover_tmp": 0, "out": firstLine(string(out))})
				}
			}
		}
	}
	// chop killed at the k-th call: the store must hold only complete chunks
	for _, g := range []string{"rename,renameat,renameat2", "write", "close", "openat", "rename,renameat,renameat2/1", "write/1"} {
		nw := "4"
		if strings.HasSuffix(g, "/1") {
			nw, g = "1", strings.TrimSuffix(g, "/1")
		}
		for k := 1; k <= 600; k++ {
			scen++
			store2 := filepath.Join(fx.dir, "store-k")
			os.RemoveAll(store2)
			os.MkdirAll(store2, 0755)
			cfg := filepath.Join(fx.dir, "config-k.json")
			must(os.WriteFile(cfg, []byte(fmt.Sprintf(`{"store-options": {"%s": {"uncompressed": %v}}}`, store2, k%2 == 0)), 0644))
			cmd := exec.Command("strace", "-f", "-o", "/dev/null", "-e", "trace="+g, "-e", fmt.Sprintf("inject=%s:signal=SIGKILL:when=%d", g, k), "--",
				binary, "--config", cfg, "chop", "-n", nw, "-s", store2, fx.index, fx.blob)
			cmd.Env = append(os.Environ(), "HOME=/nonexistent")
			_, err := cmd.CombinedOutput()
			w.Emit(J{"ev": "kill", "scen": scen, "how": "strace chop -n " + nw + " " + g, "k": k, "uncompressed": k%2 == 0, "pre": false, "died": err != nil, "failed": err != nil, "out": "",
				"dir": snapshot(store2, fx.ids, map[string]int{})})
			if err == nil {
				break
			}
		}
	}
	os.RemoveAll(fx.dir)
}

// ------------------------------------------------------------------------------------------------ inplace

type countingStore struct {
	desync.Store
	mu     sync.Mutex
	n      int
	killAt int
	pid    func() int
	ids    []string
}

func (c *countingStore) GetChunk(id desync.ChunkID) (*desync.Chunk, error) {
	c.mu.Lock()
	c.n++
	k := c.n
	c.ids = append(c.ids, id.String())
	c.mu.Unlock()
	if c.killAt > 0 && k >= c.killAt {
		if k == c.killAt {
			syscall.Kill(c.pid(), syscall.SIGKILL)
		}
		time.Sleep(50 * time.Millisecond)
		return nil, desync.ChunkMissing{ID: id}
	}
	return c.Store.GetChunk(id)
}

func serve(st desync.Store) (string, func()) {
	l, err := net.Listen("tcp", "127.0.0.1:0")
	must(err)
	srv := &http.Server{Handler: desync.NewHTTPHandler(st, false, false, desync.Converters{desync.Compressor{}}, "")}
	go srv.Serve(l)
	return "http://" + l.Addr().String() + "/", func() { srv.Close() }
}

func runInplace(r *rand.Rand, dir string, thorough bool) {
	fx := mkFixture(r, filepath.Join(dir, "fxi"), false)
	base, err := desync.NewLocalStore(fx.store, desync.StoreOptions{})
	must(err)
	npos := len(fx.idx.Chunks)
	ks := []int{1, 2, 3, 5, 8, 12, npos / 2, npos - 1}
	if thorough {
		ks = nil
		for k := 1; k <= npos; k++ {
			ks = append(ks, k)
		}
	}
	posIDs := []int{}
	for _, c := range fx.idx.Chunks {
		posIDs = append(posIDs, fx.ids[c.ID.String()])
	}
	for _, n := range []string{"1", "3"} {
		for _, start := range []string{"absent", "old"} {
			for _, k := range ks {
				if k < 1 {
					continue
				}
				scen++
				ddir := filepath.Join(fx.dir, "ip")
				os.RemoveAll(ddir)
				os.MkdirAll(ddir, 0755)
				dest := filepath.Join(ddir, "out")
				if start == "old" { // an older version: the first half is the same, the rest differs
					old := append([]byte{}, fx.data...)
					for i := len(old) / 2; i < len(old); i++ {
						old[i] ^= 0x5a
					}
					must(os.WriteFile(dest, old[:len(old)-3000], 0644))
				}
				var cmd *exec.Cmd
				cs := &countingStore{Store: base, killAt: k, pid: func() int { return cmd.Process.Pid }}
				url, stop := serve(cs)
				cmd = exec.Command(binary, "extract", "-k", "-n", n, "-s", url, fx.index, dest)
				cmd.Env = append(os.Environ(), "HOME=/nonexistent")
				err1 := cmd.Run()
				stop()
				killed := false
				if ee, ok := err1.(*exec.ExitError); ok {
					if ws, ok := ee.Sys().(syscall.WaitStatus); ok && ws.Signaled() {
						killed = true
					}
				}
				// what the death left behind
				valid := []int{}
				got, _ := os.ReadFile(dest)
				for i, c := range fx.idx.Chunks {
					if int(c.Start+c.Size) <= len(got) && sum(got[c.Start:c.Start+c.Size]) == c.ID.String() {
						valid = append(valid, i+1)
					}
				}
				// the re-run
				cs2 := &countingStore{Store: base}
				url2, stop2 := serve(cs2)
				cmd2 := exec.Command(binary, "extract", "-k", "-n", n, "-s", url2, fx.index, dest)
				cmd2.Env = append(os.Environ(), "HOME=/nonexistent")
				out2, err2 := cmd2.CombinedOutput()
				stop2()
				got2, _ := os.ReadFile(dest)
				ref := []int{}
				for _, id := range cs2.ids {
					ref = append(ref, fx.ids[id])
				}
				// the chunks the killed run had been given before the request at which it was killed
				answered := []int{}
				for i, id := range cs.ids {
					if i < k-1 {
						answered = append(answered, fx.ids[id])
					}
				}
				w.Emit(J{"ev": "inplace", "scen": scen, "n": n, "start": start, "k": k, "killed": killed, "requests_before_kill": cs.n, "ids": posIDs, "valid": valid, "refetched": ref, "answered": answered,
					"rerun_ok": err2 == nil, "final_ok": bytes.Equal(got2, fx.data), "out": firstLine(string(out2))})
			}
		}
	}
	os.RemoveAll(fx.dir)
}

func main() {
	mode := flag.String("mode", "all", "sched | die | strace | xkill | inplace | all | childstore")
	seed := flag.Int64("seed", 1, "seed")
	n := flag.Int("n", 150, "sched scenarios")
	out := flag.String("out", "", "trace output")
	dir := flag.String("dir", "", "scratch dir (absolute)")
	bin := flag.String("desync", "", "path of the desync binary built from the tree under test")
	thorough := flag.Bool("thorough", false, "larger sweeps")
	unc := flag.Bool("unc", false, "(child) uncompressed store")
	dieAt := flag.Int("dieat", 0, "(child) die at the k-th step")
	limit := flag.Int64("limit", -1, "(child) RLIMIT_FSIZE")
	flag.Parse()
	var err error
	zdec, err = zstd.NewReader(nil)
	must(err)
	if !filepath.IsAbs(*dir) {
		must(fmt.Errorf("-dir must be absolute"))
	}
	if *mode == "childstore" {
		childStore(*dir, *unc, *seed, 1, *dieAt, *limit)
		return
	}
	binary = *bin
	os.MkdirAll(*dir, 0755)
	w, err = trace.Create(*out)
	must(err)
	r := rand.New(rand.NewSource(*seed))
	all := *mode == "all"
	if all || *mode == "sched" {
		runSched(r, *dir, *n)
	}
	if all || *mode == "die" {
		runDie(r, *dir, *thorough)
	}
	if all || *mode == "strace" {
		runStrace(r, *dir)
	}
	if all || *mode == "xkill" {
		runXkill(r, *dir, *thorough)
	}
	if all || *mode == "inplace" {
		runInplace(r, *dir, *thorough)
	}
	must(w.Close())
	fmt.Printf("scenarios=%d records=%d\n", scen, w.N)
	_ = io.EOF
}
