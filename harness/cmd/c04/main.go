// c04 writes random indexes with the real Index.WriteTo, tokenises the bytes with an independent tokeniser, and
// feeds valid, truncated, field-substituted and digest-mismatched files to the real readers (IndexFromReader,
// LocalIndexStore, RemoteHTTPIndex against the real handler, PUT to the handler). Records for Trace_IndexCodec.tla.
package main

import (
	"bytes"
	"encoding/binary"
	"errors"
	"flag"
	"fmt"
	"io"
	"math/rand"
	"net/http"
	"net/http/httptest"
	"net/url"
	"os"
	"path/filepath"
	"time"

	"github.com/folbricht/desync"

	"verif/harness/trace"
)

type J = map[string]interface{}

const (
	magicIndex = 0x96824d9c7b129ff9
	magicTable = 0xe75b9e112f17417d
	magicTail  = 0x4b4f050e5549ecd1
	sha512bit  = 0x2000000000000000
)

var idTable = map[desync.ChunkID]int{}

func tok(k string, v int) J { return J{"k": k, "v": v} }

func field(v uint64, pos int) J {
	switch {
	case pos == 3:
		if v&sha512bit != 0 {
			return tok("flags", 1)
		}
		return tok("flags", 0)
	case v == magicIndex:
		return tok("magic", 1)
	case v == magicTable:
		return tok("magic", 2)
	case v == magicTail:
		return tok("magic", 3)
	case v == ^uint64(0):
		return tok("maxu", 0)
	case v < 1<<31:
		return tok("n", int(v))
	}
	return tok("big", int(v>>40)&0xffff)
}

// independent tokeniser of a caibx byte string
func tokenise(b []byte) []J {
	out := []J{}
	pos := 0
	next8 := func() (uint64, bool) {
		if len(b)-pos < 8 {
			if len(b)-pos > 0 {
				out = append(out, tok("part", len(b)-pos))
			}
			pos = len(b)
			return 0, false
		}
		v := binary.LittleEndian.Uint64(b[pos:])
		pos += 8
		return v, true
	}
	for i := 1; i <= 8; i++ {
		v, ok := next8()
		if !ok {
			return out
		}
		out = append(out, field(v, i))
	}
	for {
		v, ok := next8()
		if !ok {
			return out
		}
		out = append(out, field(v, 0))
		if v == 0 { // tail: zero fill 2, index offset, size, marker, then whatever follows
			for {
				v, ok := next8()
				if !ok {
					return out
				}
				out = append(out, field(v, 0))
			}
		}
		if len(b)-pos < 32 {
			if len(b)-pos > 0 {
				out = append(out, tok("part", len(b)-pos))
			}
			return out
		}
		var id desync.ChunkID
		copy(id[:], b[pos:pos+32])
		pos += 32
		n, ok := idTable[id]
		if !ok {
			n = 1000 + len(idTable)
			idTable[id] = n
		}
		out = append(out, tok("id", n))
	}
}

type frag struct {
	b   []byte
	pos int
	n   int
}

func (f *frag) Read(p []byte) (int, error) {
	if f.pos >= len(f.b) {
		return 0, io.EOF
	}
	n := f.n
	if n > len(p) {
		n = len(p)
	}
	if n > len(f.b)-f.pos {
		n = len(f.b) - f.pos
	}
	copy(p, f.b[f.pos:f.pos+n])
	f.pos += n
	return n, nil
}

func idFor(n int) desync.ChunkID {
	var id desync.ChunkID
	binary.LittleEndian.PutUint64(id[:], uint64(n)*0x9E3779B97F4A7C15+1)
	id[31] = byte(n)
	idTable[id] = n
	return id
}

func indexJ(ix desync.Index) J {
	chunks := []J{}
	for _, c := range ix.Chunks {
		n, ok := idTable[c.ID]
		if !ok {
			n = 1000 + len(idTable)
			idTable[c.ID] = n
		}
		chunks = append(chunks, J{"size": c.Size, "id": n})
	}
	return J{"sha512": ix.Index.FeatureFlags&sha512bit != 0, "min": field(ix.Index.ChunkSizeMin, 0), "avg": field(ix.Index.ChunkSizeAvg, 0),
		"max": field(ix.Index.ChunkSizeMax, 0), "chunks": chunks}
}

// limitedWriter accepts a number of bytes and fails from then on
type limitedWriter struct{ left int }

func (l *limitedWriter) Write(p []byte) (int, error) {
	if len(p) <= l.left {
		l.left -= len(p)
		return len(p), nil
	}
	n := l.left
	l.left = 0
	return n, errors.New("no space left on device")
}

func main() {
	seed := flag.Int64("seed", 1, "seed")
	n := flag.Int("n", 100, "indexes")
	out := flag.String("out", "", "trace output")
	dir := flag.String("dir", "", "scratch dir")
	repo := flag.String("repo", "/repo", "repository (fixtures)")
	flag.Parse()
	w, err := trace.Create(*out)
	if err != nil {
		fmt.Fprintln(os.Stderr, err)
		os.Exit(2)
	}
	os.MkdirAll(*dir, 0755)
	r := rand.New(rand.NewSource(*seed))
	lis, _ := desync.NewLocalIndexStore(*dir)
	srv := httptest.NewServer(desync.NewHTTPIndexHandler(lis, true, ""))
	defer srv.Close()
	u, _ := url.Parse(srv.URL + "/")
	ris, err := desync.NewRemoteHTTPIndexStore(u, desync.StoreOptions{})
	if err != nil {
		panic(err)
	}
	// the same handler behind a front that fails the first attempt of every upload after reading its body: the client's retry
	// has to send the index again, complete
	flakyFirst := map[string]bool{}
	flaky := httptest.NewServer(http.HandlerFunc(func(rw http.ResponseWriter, rq *http.Request) {
		if rq.Method == "PUT" && !flakyFirst[rq.URL.Path] {
			flakyFirst[rq.URL.Path] = true
			io.Copy(io.Discard, rq.Body)
			http.Error(rw, "try again", http.StatusServiceUnavailable)
			return
		}
		delete(flakyFirst, rq.URL.Path)
		desync.NewHTTPIndexHandler(lis, true, "").ServeHTTP(rw, rq)
	}))
	defer flaky.Close()
	fu, _ := url.Parse(flaky.URL + "/")
	risRetry, err := desync.NewRemoteHTTPIndexStore(fu, desync.StoreOptions{ErrorRetry: 2, ErrorRetryBaseInterval: time.Nanosecond})
	if err != nil {
		panic(err)
	}
	decode := func(b []byte, digest512 bool, via string) {
		if digest512 {
			desync.Digest = desync.SHA512256{}
		} else {
			desync.Digest = desync.SHA256{}
		}
		var ix desync.Index
		var err error
		switch via {
		case "reader":
			ix, err = desync.IndexFromReader(bytes.NewReader(b))
		case "frag": // a source that delivers a few bytes per Read (pipe, network body)
			ix, err = desync.IndexFromReader(&frag{b: b, n: []int{1, 3, 5, 7, 13, 1000}[r.Intn(6)]})
		case "file":
			os.WriteFile(filepath.Join(*dir, "x.caibx"), b, 0644)
			ix, err = lis.GetIndex("x.caibx")
		case "http":
			os.WriteFile(filepath.Join(*dir, "x.caibx"), b, 0644)
			ix, err = ris.GetIndex("x.caibx")
		case "put": // upload through the handler: accepted iff stored
			os.Remove(filepath.Join(*dir, "put.caibx"))
			req, _ := http.NewRequest("PUT", srv.URL+"/put.caibx", bytes.NewReader(b))
			resp, e := http.DefaultClient.Do(req)
			if e != nil {
				err = e
			} else {
				resp.Body.Close()
				if resp.StatusCode != 200 {
					err = fmt.Errorf("status %d", resp.StatusCode)
				} else {
					ix, err = lis.GetIndex("put.caibx")
				}
			}
		}
		desync.Digest = desync.SHA512256{}
		rec := trace.M("ev", "dec", "via", via, "digest512", digest512, "tokens", tokenise(b), "accepted", err == nil)
		if err == nil {
			rec["index"] = indexJ(ix)
		} else {
			rec["index"] = J{"sha512": false, "min": tok("n", 0), "avg": tok("n", 0), "max": tok("n", 0), "chunks": []J{}}
		}
		w.Emit(rec)
	}
	vias := []string{"reader", "frag", "frag", "file", "http", "put"}
	for i := 0; i < *n; i++ {
		sha512 := r.Intn(4) != 0
		max := uint64(50 + r.Intn(200))
		ix := desync.Index{Index: desync.FormatIndex{ChunkSizeMin: uint64(1 + r.Intn(40)), ChunkSizeAvg: uint64(40 + r.Intn(10)), ChunkSizeMax: max}}
		ix.Index.FeatureFlags = desync.CaFormatExcludeNoDump
		if sha512 {
			ix.Index.FeatureFlags |= sha512bit
		}
		k := r.Intn(9)
		var pos uint64
		for j := 0; j < k; j++ {
			sz := uint64(1 + r.Intn(int(max)))
			ix.Chunks = append(ix.Chunks, desync.IndexChunk{ID: idFor(1 + r.Intn(6)), Start: pos, Size: sz})
			pos += sz
		}
		var buf bytes.Buffer
		if _, err := ix.WriteTo(&buf); err != nil {
			panic(err)
		}
		b := buf.Bytes()
		w.Emit(trace.M("ev", "enc", "index", indexJ(ix), "tokens", tokenise(b)))
		// a destination that takes only part of the file (disk full, closed pipe): the write is reported as failed
		for _, accept := range []int{0, r.Intn(len(b)), len(b) - 1, len(b) - 8} {
			if accept < 0 {
				continue
			}
			lw := &limitedWriter{left: accept}
			_, werr := ix.WriteTo(lw)
			w.Emit(trace.M("ev", "wfault", "via", "WriteTo", "accept", accept, "size", len(b), "err", werr != nil))
		}
		if _, serr := os.Stat("/dev/full"); serr == nil {
			os.Remove(filepath.Join(*dir, "full.caibx"))
			if os.Symlink("/dev/full", filepath.Join(*dir, "full.caibx")) == nil {
				werr := lis.StoreIndex("full.caibx", ix)
				w.Emit(trace.M("ev", "wfault", "via", "LocalIndexStore onto /dev/full", "accept", 0, "size", len(b), "err", werr != nil))
				os.Remove(filepath.Join(*dir, "full.caibx"))
			}
		}
		// the same index through the local index store and through a PUT, onto names that hold an earlier (longer or shorter) index
		if sha512 {
			if err := lis.StoreIndex("stored.caibx", ix); err == nil {
				fb, _ := os.ReadFile(filepath.Join(*dir, "stored.caibx"))
				w.Emit(trace.M("ev", "enc", "index", indexJ(ix), "tokens", tokenise(fb)))
			}
			os.Remove(filepath.Join(*dir, "retried.caibx"))
			if err := risRetry.StoreIndex("retried.caibx", ix); err == nil {
				fb, _ := os.ReadFile(filepath.Join(*dir, "retried.caibx"))
				w.Emit(trace.M("ev", "enc", "index", indexJ(ix), "tokens", tokenise(fb)))
			} else {
				// one transient failure is within the budget: the upload has to succeed
				w.Emit(trace.M("ev", "enc", "index", indexJ(ix), "tokens", []J{}))
			}
			if req, e := http.NewRequest("PUT", srv.URL+"/reput.caibx", bytes.NewReader(b)); e == nil {
				if resp, e := http.DefaultClient.Do(req); e == nil {
					resp.Body.Close()
					if resp.StatusCode == 200 {
						fb, _ := os.ReadFile(filepath.Join(*dir, "reput.caibx"))
						w.Emit(trace.M("ev", "enc", "index", indexJ(ix), "tokens", tokenise(fb)))
					}
				}
			}
		}
		// the valid file through every reader, and with the other digest configured
		for _, v := range []string{"reader", "frag", "frag", "file", "http", "put"} {
			decode(b, sha512, v)
		}
		decode(b, !sha512, "reader")
		// truncations: every field boundary, and random byte positions
		for cut := 0; cut < len(b); cut += 8 {
			decode(b[:cut], sha512, vias[r.Intn(len(vias))])
		}
		for c := 0; c < 6; c++ {
			decode(b[:r.Intn(len(b))], sha512, vias[r.Intn(len(vias))])
		}
		// single-field substitutions
		fields := len(b) / 8
		for c := 0; c < 25; c++ {
			f := r.Intn(fields)
			m := append([]byte{}, b...)
			old := binary.LittleEndian.Uint64(m[f*8:])
			var nv uint64
			switch r.Intn(9) {
			case 0:
				nv = 0
			case 1:
				nv = 1
			case 2:
				nv = old - 1
			case 3:
				nv = old + 1
			case 4:
				nv = ^uint64(0)
			case 5:
				nv = magicTail
			case 6:
				nv = magicTable
			case 7:
				nv = old / 2
			case 8:
				nv = old + uint64(r.Intn(300))
			}
			binary.LittleEndian.PutUint64(m[f*8:], nv)
			decode(m, sha512, vias[r.Intn(len(vias))])
		}
		// trailing bytes after a complete file
		decode(append(append([]byte{}, b...), make([]byte, 1+r.Intn(20))...), sha512, "reader")
	}
	// casync / desync produced fixtures
	for _, f := range []string{"testdata/blob1.caibx", "testdata/blob2.caibx", "testdata/index.caibx", "cmd/desync/testdata/blob1.caibx",
		"cmd/desync/testdata/blob2.caibx", "cmd/desync/testdata/tree.caidx", "testdata/blob2_corrupted.caibx"} {
		b, err := os.ReadFile(filepath.Join(*repo, f))
		if err != nil {
			continue
		}
		ix, err := desync.IndexFromReader(bytes.NewReader(b))
		var buf bytes.Buffer
		if err == nil {
			ix.WriteTo(&buf)
		}
		w.Emit(trace.M("ev", "fixture", "file", f, "tokens", tokenise(b), "accepted", err == nil, "identical", bytes.Equal(buf.Bytes(), b)))
	}
	if err := w.Close(); err != nil {
		fmt.Fprintln(os.Stderr, err)
		os.Exit(2)
	}
	fmt.Printf("indexes=%d events=%d\n", *n, w.N)
}
