// x05 prepares a local cache whose chunk files are old, runs real commands (`desync cat`, `desync extract`) and the
// library's Cache over a LocalStore with UpdateTimes through it, and records which chunks each run used and the time
// class of every cache file afterwards, for Trace_CacheAge.tla. Not one of the listed properties.
package main

import (
	"bytes"
	"flag"
	"fmt"
	"math/rand"
	"os"
	"os/exec"
	"path/filepath"
	"time"

	"github.com/folbricht/desync"

	"verif/harness/trace"
)

func must(err error) {
	if err != nil {
		fmt.Fprintln(os.Stderr, "x05:", err)
		os.Exit(2)
	}
}

func run(bin string, args ...string) int {
	cmd := exec.Command(bin, args...)
	cmd.Env = append(os.Environ(), "HOME=/nonexistent")
	var se bytes.Buffer
	cmd.Stdout, cmd.Stderr = nil, &se
	must(cmd.Start())
	done := make(chan error, 1)
	go func() { done <- cmd.Wait() }()
	select {
	case err := <-done:
		if err != nil {
			return 1
		}
		return 0
	case <-time.After(60 * time.Second):
		cmd.Process.Kill()
		<-done
		return 99
	}
}

const K = 6

func main() {
	seed := flag.Int64("seed", 1, "seed")
	n := flag.Int("n", 60, "scenarios")
	out := flag.String("out", "", "trace output")
	dir := flag.String("dir", "", "scratch directory (absolute)")
	bin := flag.String("desync", "", "desync binary")
	flag.Parse()
	if !filepath.IsAbs(*dir) || *bin == "" {
		fmt.Fprintln(os.Stderr, "x05: -dir must be absolute, -desync is required")
		os.Exit(2)
	}
	w, err := trace.Create(*out)
	must(err)
	r := rand.New(rand.NewSource(*seed))
	old := time.Date(2001, 1, 1, 0, 0, 0, 0, time.UTC)
	for sc := 1; sc <= *n; sc++ {
		os.RemoveAll(*dir)
		src, cache := filepath.Join(*dir, "src"), filepath.Join(*dir, "cache")
		must(os.MkdirAll(src, 0755))
		must(os.MkdirAll(cache, 0755))
		ss, err := desync.NewLocalStore(src, desync.StoreOptions{})
		must(err)
		cs, err := desync.NewLocalStore(cache, desync.StoreOptions{})
		must(err)
		var data [K + 1][]byte
		var ids [K + 1]desync.ChunkID
		cached := []int{}
		for c := 1; c <= K; c++ {
			b := make([]byte, 100+r.Intn(300))
			r.Read(b)
			b[0] = byte(c) // never the null chunk, never equal
			data[c] = b
			ch := desync.NewChunk(b)
			ids[c] = ch.ID()
			must(ss.StoreChunk(ch))
			if r.Intn(2) == 0 {
				must(cs.StoreChunk(desync.NewChunk(b)))
				s := ids[c].String()
				must(os.Chtimes(filepath.Join(cache, s[:4], s+".cacnk"), old, old))
				cached = append(cached, c)
			}
		}
		w.Emit(trace.M("ev", "reset", "scen", sc, "cached", cached))
		starts := []time.Time{}
		for k, runs := 0, 1+r.Intn(3); k < runs; k++ {
			time.Sleep(30 * time.Millisecond)
			start := time.Now()
			starts = append(starts, start)
			// the index of this run
			var seq []int
			for i, m := 0, 1+r.Intn(5); i < m; i++ {
				seq = append(seq, 1+r.Intn(K))
			}
			idx := desync.Index{Index: desync.FormatIndex{FeatureFlags: desync.CaFormatSHA512256 | desync.CaFormatExcludeNoDump, ChunkSizeMin: 16, ChunkSizeAvg: 64, ChunkSizeMax: 4096}}
			var pos uint64
			usedSet := map[int]bool{}
			for _, c := range seq {
				idx.Chunks = append(idx.Chunks, desync.IndexChunk{ID: ids[c], Start: pos, Size: uint64(len(data[c]))})
				pos += uint64(len(data[c]))
				usedSet[c] = true
			}
			used := []int{}
			for c := 1; c <= K; c++ {
				if usedSet[c] {
					used = append(used, c)
				}
			}
			ip := filepath.Join(*dir, "blob.caibx")
			f, err := os.Create(ip)
			must(err)
			_, err = idx.WriteTo(f)
			must(err)
			must(f.Close())
			how := []string{"cat", "extract", "library"}[r.Intn(3)]
			exit := 0
			switch how {
			case "cat":
				exit = run(*bin, "cat", "-s", src, "-c", cache, ip)
			case "extract":
				target := filepath.Join(*dir, "out.bin")
				os.Remove(target)
				exit = run(*bin, "extract", "-s", src, "-c", cache, ip, target)
			case "library":
				ls, err := desync.NewLocalStore(cache, desync.StoreOptions{})
				must(err)
				ls.UpdateTimes = true
				st := desync.NewCache(ss, ls)
				for _, c := range seq {
					if _, err := st.GetChunk(ids[c]); err != nil {
						exit = 1
					}
				}
			}
			// time class of every cache file: 0 absent, 1 aged, j + 1 = touched or created during run j
			after := make([]int, K)
			for c := 1; c <= K; c++ {
				s := ids[c].String()
				fi, err := os.Stat(filepath.Join(cache, s[:4], s+".cacnk"))
				if err != nil {
					continue
				}
				after[c-1] = 1
				for j, t := range starts {
					if !fi.ModTime().Before(t.Add(-15 * time.Millisecond)) {
						after[c-1] = j + 2
					}
				}
			}
			w.Emit(trace.M("ev", "run", "scen", sc, "how", how, "used", used, "exit", exit, "after", after))
		}
	}
	must(w.Close())
	fmt.Printf("scenarios=%d records=%d\n", *n, w.N)
}
