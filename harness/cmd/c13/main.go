// c13 builds random directory trees on disk (as root), packs them with the real Tar from disk and from an independent tar
// stream of the same tree, tokenises the archives with the independent tokeniser, and unpacks them with the real UnTar,
// UnTarIndex (through ChunkStream and a LocalStore) and the tar writer. Records for Trace_Catar.tla (C13, C05).
package main

import (
	"archive/tar"
	"bytes"
	"context"
	"flag"
	"fmt"
	"io"
	"math/rand"
	"os"
	"path/filepath"
	"sort"
	"strings"
	"time"

	"github.com/folbricht/desync"

	"verif/harness/fstree"
	"verif/harness/oracle"
	"verif/harness/trace"
)

type J = map[string]interface{}

func kindOfMode(m uint64) string {
	switch m & 0170000 {
	case 0040000:
		return "dir"
	case 0100000:
		return "file"
	case 0120000:
		return "symlink"
	case 0020000:
		return "dev"
	case 0060000:
		return "blk"
	}
	return "other"
}

// emit the element tokens of an archive
func emitElements(w *trace.Writer, t *fstree.Intern, b []byte) error {
	els, err := oracle.Tokenise(b)
	// hash ranks: order of all distinct 64-bit hash values in this archive
	hs := map[uint64]bool{}
	for _, e := range els {
		if e.T == "filename" {
			hs[oracle.CasyncNameHash(e.Name)] = true
		}
		for _, it := range e.Items {
			hs[it[2]] = true
		}
	}
	var sorted []uint64
	for h := range hs {
		sorted = append(sorted, h)
	}
	sort.Slice(sorted, func(i, j int) bool { return sorted[i] < sorted[j] })
	rank := map[uint64]int{}
	for i, h := range sorted {
		rank[h] = i + 1
	}
	// name ranks per directory are global byte-order ranks of all names in the archive (order is what matters)
	var names []string
	for _, e := range els {
		if e.T == "filename" || e.T == "xattr" {
			names = append(names, string(e.Name))
		}
	}
	sort.Strings(names)
	nrank := map[string]int{}
	for _, n := range names {
		if _, ok := nrank[n]; !ok {
			nrank[n] = len(nrank) + 1
		}
	}
	for i, e := range els {
		adv := e.Size
		if i+1 < len(els) {
			adv = els[i+1].Off - e.Off
		} else {
			adv = uint64(len(b)) - e.Off
		}
		m := J{"ev": "el", "t": e.T, "off": e.Off, "size": e.Size, "adv": adv, "sizeok": e.SizeOK || e.T == "unknown"}
		switch e.T {
		case "entry":
			m["kind"] = kindOfMode(e.Mode)
			m["mode"] = e.Mode & 07777
			m["uid"], m["gid"] = e.UID, e.GID
			ns := int64(e.MTime) // signed nanoseconds since the epoch
			sec, nsec := ns/1000000000, ns%1000000000
			if nsec < 0 {
				sec, nsec = sec-1, nsec+1000000000
			}
			m["msec"], m["mnsec"] = sec, nsec
		case "filename":
			m["hash"] = rank[oracle.CasyncNameHash(e.Name)]
			m["hashok"] = true
			m["name"] = t.ID([]byte("n:" + string(e.Name)))
			m["nrank"] = nrank[string(e.Name)]
		case "xattr":
			m["key"], m["val"] = t.ID(e.Name), t.ID(e.Value)
			m["krank"] = nrank[string(e.Name)]
		case "payload":
			m["content"] = t.ID(append([]byte("c:"), e.Data...))
		case "symlink":
			m["target"] = t.ID([]byte("t:" + string(e.Name)))
		case "device":
			m["major"], m["minor"] = e.Major, e.Minor
		case "goodbye":
			items := [][]uint64{}
			for _, it := range e.Items {
				items = append(items, []uint64{it[0], it[1], uint64(rank[it[2]])})
			}
			m["items"], m["tailoff"], m["tailsize"], m["marker"] = items, e.TailOffset, e.TailSize, e.TailMarkerOK
		}
		w.Emit(m)
	}
	return err
}

func nodesJ(t *fstree.Intern, ns []fstree.Node) []J {
	out := []J{}
	for _, n := range ns {
		out = append(out, n.J(t))
	}
	return out
}

// an independent tar stream (PAX) of the snapshot
func tarStream(ns []fstree.Node) []byte {
	var buf bytes.Buffer
	tw := tar.NewWriter(&buf)
	var stack []string
	for _, n := range ns {
		if n.Depth == 0 {
			continue
		}
		stack = append(stack[:n.Depth-1], n.Name)
		h := &tar.Header{Name: strings.Join(stack, "/"), Uid: n.UID, Gid: n.GID, Mode: int64(n.Mode), ModTime: time.Unix(n.Sec, n.NSec), Format: tar.FormatPAX}
		if len(n.Xattrs) > 0 {
			h.PAXRecords = map[string]string{}
			for _, x := range n.Xattrs {
				h.PAXRecords["SCHILY.xattr."+x[0]] = x[1]
			}
		}
		switch n.Kind {
		case "dir":
			h.Typeflag = tar.TypeDir
			h.Name += "/"
		case "file":
			h.Typeflag = tar.TypeReg
			h.Size = int64(len(n.Content))
		case "symlink":
			h.Typeflag = tar.TypeSymlink
			h.Linkname = n.Target
		case "dev":
			h.Typeflag, h.Devmajor, h.Devminor = tar.TypeChar, int64(n.Major), int64(n.Minor)
		case "blk":
			h.Typeflag, h.Devmajor, h.Devminor = tar.TypeBlock, int64(n.Major), int64(n.Minor)
		}
		if err := tw.WriteHeader(h); err != nil {
			return nil
		}
		if n.Kind == "file" {
			tw.Write(n.Content)
		}
	}
	tw.Close()
	return buf.Bytes()
}

// nodes described by a tar stream written by the real tar writer
func nodesFromTar(b []byte) ([]fstree.Node, error) {
	tr := tar.NewReader(bytes.NewReader(b))
	var out []fstree.Node
	for {
		h, err := tr.Next()
		if err == io.EOF {
			return out, nil
		}
		if err != nil {
			return out, err
		}
		name := strings.TrimSuffix(strings.TrimPrefix(h.Name, "./"), "/")
		n := fstree.Node{UID: h.Uid, GID: h.Gid, Mode: uint32(h.Mode) & 07777, Sec: h.ModTime.Unix(), NSec: int64(h.ModTime.Nanosecond())}
		if name == "." || name == "" {
			n.Depth = 0
		} else {
			parts := strings.Split(name, "/")
			n.Depth, n.Name = len(parts), parts[len(parts)-1]
		}
		keys := []string{}
		for k := range h.Xattrs {
			keys = append(keys, k)
		}
		sort.Strings(keys)
		for _, k := range keys {
			n.Xattrs = append(n.Xattrs, [2]string{k, h.Xattrs[k]})
		}
		switch h.Typeflag {
		case tar.TypeDir:
			n.Kind = "dir"
		case tar.TypeReg:
			n.Kind = "file"
			n.Content, _ = io.ReadAll(tr)
		case tar.TypeSymlink:
			n.Kind, n.Target, n.Mode = "symlink", h.Linkname, 0777
		case tar.TypeChar:
			n.Kind, n.Major, n.Minor = "dev", uint64(h.Devmajor), uint64(h.Devminor)
		case tar.TypeBlock:
			n.Kind, n.Major, n.Minor = "blk", uint64(h.Devmajor), uint64(h.Devminor)
		}
		out = append(out, n)
	}
}

func main() {
	seed := flag.Int64("seed", 1, "seed")
	n := flag.Int("n", 50, "random trees")
	fanout := flag.Int("fanout", 60, "directories with every fan-out 0..fanout")
	out := flag.String("out", "", "trace output")
	dir := flag.String("dir", "", "scratch dir")
	repo := flag.String("repo", "/repo", "repository (fixtures)")
	unpack := flag.Bool("unpack", true, "also unpack every archive (C05)")
	flag.Parse()
	w, err := trace.Create(*out)
	if err != nil {
		fmt.Fprintln(os.Stderr, err)
		os.Exit(2)
	}
	r := rand.New(rand.NewSource(*seed))
	os.MkdirAll(*dir, 0755)
	// does this filesystem take user xattrs / device nodes? (otherwise those dimensions are dropped and reported)
	probe := filepath.Join(*dir, "probe")
	os.RemoveAll(probe)
	xok := fstree.Build(rand.New(rand.NewSource(1)), probe, fstree.Opts{MaxNodes: 30, MaxFanout: 6, Xattrs: true, Devices: true}) == nil
	scen := 0
	pack := func(fs desync.FilesystemReader) ([]byte, error) {
		var buf bytes.Buffer
		err := desync.Tar(context.Background(), &buf, fs)
		return buf.Bytes(), err
	}
	doTree := func(root string, full bool) {
		t := fstree.NewIntern()
		src, err := fstree.Snapshot(root)
		if err != nil {
			panic(err)
		}
		// ---- from disk
		scen++
		a1, err1 := pack(desync.NewLocalFS(root, desync.LocalFSOptions{}))
		w.Emit(trace.M("ev", "archive", "scen", scen, "source", "disk", "expect", nodesJ(t, src), "nodes", len(src)))
		terr := emitElements(w, t, a1)
		w.Emit(trace.M("ev", "end", "check", err1 == nil && terr == nil, "tarerr", err1 != nil, "tokerr", terr != nil))
		a2, _ := pack(desync.NewLocalFS(root, desync.LocalFSOptions{}))
		w.Emit(trace.M("ev", "packtwice", "identical", bytes.Equal(a1, a2)))
		if !full || err1 != nil {
			return
		}
		if *unpack {
			// ---- unpack: disk writer
			dst := filepath.Join(*dir, "dst")
			os.RemoveAll(dst)
			os.MkdirAll(dst, 0700)
			uerr := desync.UnTar(context.Background(), bytes.NewReader(a1), desync.NewLocalFS(dst, desync.LocalFSOptions{}))
			got, serr := fstree.Snapshot(dst)
			w.Emit(trace.M("ev", "unpacked", "via", "untar", "ok", uerr == nil && serr == nil, "nodes", nodesJ(t, got)))
			// ---- unpack through a chunked index and a store
			sdir := filepath.Join(*dir, "cstore")
			os.RemoveAll(sdir)
			os.MkdirAll(sdir, 0755)
			st, _ := desync.NewLocalStore(sdir, desync.StoreOptions{})
			ck, _ := desync.NewChunker(bytes.NewReader(a1), 64, 128, 512)
			idx, cerr := desync.ChunkStream(context.Background(), ck, st, 3)
			os.RemoveAll(dst)
			os.MkdirAll(dst, 0700)
			var ierr error
			if cerr == nil {
				ierr = desync.UnTarIndex(context.Background(), desync.NewLocalFS(dst, desync.LocalFSOptions{}), idx, st, 3, desync.NewProgressBar(""))
			}
			got, serr = fstree.Snapshot(dst)
			w.Emit(trace.M("ev", "unpacked", "via", "untarindex", "ok", cerr == nil && ierr == nil && serr == nil, "nodes", nodesJ(t, got)))
			// ---- unpack into a tar stream
			var tb bytes.Buffer
			twr := desync.NewTarWriter(&tb)
			gerr := desync.UnTar(context.Background(), bytes.NewReader(a1), twr)
			twr.Close()
			gn, perr := nodesFromTar(tb.Bytes())
			w.Emit(trace.M("ev", "unpacked", "via", "gnutar", "ok", gerr == nil && perr == nil, "nodes", nodesJ(t, gn)))
		}
		// ---- the same tree from an independent tar stream
		ts := tarStream(src)
		if ts != nil {
			scen++
			a3, err3 := pack(desync.NewTarReader(bytes.NewReader(ts), desync.TarReaderOptions{AddRoot: true}))
			// the synthetic root of a tar stream has fixed attributes
			exp := append([]fstree.Node{}, src...)
			exp[0] = fstree.Node{Depth: 0, Kind: "dir", Mode: 0755}
			w.Emit(trace.M("ev", "archive", "scen", scen, "source", "tarstream", "expect", nodesJ(t, exp), "nodes", len(src)))
			terr := emitElements(w, t, a3)
			w.Emit(trace.M("ev", "end", "check", err3 == nil && terr == nil, "tarerr", err3 != nil, "tokerr", terr != nil))
		}
	}
	for i := 0; i < *n; i++ {
		root := filepath.Join(*dir, "src")
		os.RemoveAll(root)
		if err := fstree.Build(r, root, fstree.Opts{MaxNodes: 5 + r.Intn(40), MaxFanout: 1 + r.Intn(8), Xattrs: xok, Devices: xok}); err != nil {
			fmt.Fprintln(os.Stderr, "build:", err)
			os.Exit(2)
		}
		doTree(root, true)
	}
	// every directory fan-out: every shape of the goodbye BST
	for k := 0; k <= *fanout; k++ {
		root := filepath.Join(*dir, "src")
		os.RemoveAll(root)
		os.MkdirAll(root, 0755)
		for j := 0; j < k; j++ {
			os.WriteFile(filepath.Join(root, fmt.Sprintf("f%d-%d", r.Intn(1000000), j)), []byte{byte(j)}, 0644)
		}
		doTree(root, false)
	}
	// casync-made fixtures guard the grammar against over-strictness
	for _, f := range []string{"testdata/flat.catar", "testdata/nested.catar", "testdata/complex.catar", "testdata/flatdir.catar"} {
		b, err := os.ReadFile(filepath.Join(*repo, f))
		if err != nil {
			continue
		}
		scen++
		t := fstree.NewIntern()
		w.Emit(trace.M("ev", "archive", "scen", scen, "source", "fixture", "expect", []J{}, "file", f))
		terr := emitElements(w, t, b)
		w.Emit(trace.M("ev", "end", "check", false, "tarerr", false, "tokerr", terr != nil))
	}
	if err := w.Close(); err != nil {
		fmt.Fprintln(os.Stderr, err)
		os.Exit(2)
	}
	fmt.Printf("archives=%d events=%d xattrs_and_devices=%v\n", scen, w.N, xok)
}
