// s3 drives the real S3Store (minio client) against an in-memory S3 endpoint with scripted responses and records
//   - outcome records (get / has / store x response script x retry budget x verify) for Trace_S3Store.tla
//   - layout records (object key and content of stored chunks: <prefix><id[0:4]>/<id>[.cacnk], one zstd frame / raw bytes)
//   - prune records (bucket contents before / after, in the format of the C16 records) for Trace_LocalStoreFS.tla
package main

import (
	"bytes"
	"context"
	"errors"
	"flag"
	"fmt"
	"math/rand"
	"net/url"
	"os"
	"sort"
	"strings"

	"github.com/folbricht/desync"
	"github.com/klauspost/compress/zstd"
	minio "github.com/minio/minio-go/v6"
	"github.com/minio/minio-go/v6/pkg/credentials"

	"verif/harness/fakes"
	"verif/harness/trace"
)

type J = map[string]interface{}

var w *trace.Writer

func must(err error) {
	if err != nil {
		fmt.Fprintln(os.Stderr, "s3:", err)
		os.Exit(2)
	}
}

func newStore(f *fakes.FakeS3, bucketPath string, opt desync.StoreOptions) desync.S3Store {
	u, _ := url.Parse("s3+http://" + f.Addr + "/" + bucketPath)
	s, err := desync.NewS3Store(u, credentials.NewStaticV4("", "", ""), "us-east-1", opt, minio.BucketLookupPath)
	must(err)
	return s
}

func keyOf(prefix string, id desync.ChunkID, unc bool) string {
	k := "bkt/" + prefix + id.String()[:4] + "/" + id.String()
	if !unc {
		k += ".cacnk"
	}
	return k
}

func stored(data []byte, unc bool) []byte {
	if unc {
		return data
	}
	b, _ := desync.Compress(data)
	return b
}

func classify(err error) string {
	if err == nil {
		return "ok"
	}
	if _, ok := err.(desync.ChunkMissing); ok { // by dynamic type, as desync's consumers recognise it
		return "missing"
	}
	var iv desync.ChunkInvalid
	if errors.As(err, &iv) {
		return "invalid"
	}
	return "error"
}

func scripts(classes []string, maxLen int) [][]string {
	var out [][]string
	var rec func(cur []string)
	rec = func(cur []string) {
		if len(cur) > 0 {
			out = append(out, append([]string{}, cur...))
		}
		if len(cur) == maxLen {
			return
		}
		for _, c := range classes {
			rec(append(cur, c))
		}
	}
	rec(nil)
	return out
}

func main() {
	seed := flag.Int64("seed", 1, "seed")
	out := flag.String("out", "", "trace for Trace_S3Store")
	outPrune := flag.String("outprune", "", "trace for Trace_LocalStoreFS (prune records)")
	maxLen := flag.Int("len", 3, "max script length")
	nPrune := flag.Int("prune", 60, "prune scenarios")
	flag.Parse()
	var err error
	w, err = trace.Create(*out)
	must(err)
	r := rand.New(rand.NewSource(*seed))
	zdec, _ := zstd.NewReader(nil)
	f := fakes.NewFakeS3()
	defer f.Close()

	data := make([]byte, 3000)
	r.Read(data[:1500])
	chunk := desync.NewChunk(data)
	id := chunk.ID()
	otherData := append([]byte("other"), data...)

	// ---- outcome records
	for _, unc := range []bool{false, true} {
		for _, prefix := range []string{"", "pfx/sub/"} {
			key := keyOf(prefix, id, unc)
			good := stored(data, unc)
			bad := stored(otherData, unc)
			for _, R := range []int{0, 1, 2, 3} {
				for _, verify := range []bool{true, false} {
					st := newStore(f, "bkt/"+strings.TrimSuffix(prefix, "/"), desync.StoreOptions{ErrorRetry: R, Uncompressed: unc, SkipVerify: !verify})
					// GET and HEAD
					for _, sc := range scripts([]string{"ok", "bad", "nokey", "denied", "fail"}, *maxLen) {
						for _, op := range []string{"get", "has"} {
							if op == "has" && (len(sc) > 1 || !verify) {
								continue
							}
							method := map[string]string{"get": "GET", "has": "HEAD"}[op]
							attempts := scripted(f, method, key, sc, good, bad, func() string {
								if op == "get" {
									c, err := st.GetChunk(id)
									if err != nil {
										return classify(err)
									}
									b, derr := c.Data()
									if derr != nil {
										return "invalid"
									}
									if bytes.Equal(b, data) {
										return "data"
									}
									return "baddata"
								}
								ok, err := st.HasChunk(id)
								if err != nil {
									return "error"
								}
								return fmt.Sprint(ok)
							})
							w.Emit(J{"ev": "s3op", "op": op, "script": sc, "R": R, "verify": verify, "res": attempts.res, "attempts": attempts.n, "stored": false,
								"unc": unc, "prefix": prefix, "ok": true, "what": ""})
						}
					}
					if !verify {
						continue
					}
					// PUT
					for _, sc := range scripts([]string{"ok", "denied", "fail"}, *maxLen) {
						delete(f.Objects, key)
						a := scripted(f, "PUT", key, sc, nil, nil, func() string { return classify(st.StoreChunk(desync.NewChunk(data))) })
						got, ok := f.Get(key)
						w.Emit(J{"ev": "s3op", "op": "store", "script": sc, "R": R, "verify": true, "res": a.res, "attempts": a.n, "stored": ok && bytes.Equal(got, good) || (ok && !unc && decodes(zdec, got, data)),
							"unc": unc, "prefix": prefix, "ok": true, "what": ""})
					}
				}
			}
			// ---- layout: what a store leaves in the bucket
			f.ClearFaults()
			for k := range f.Objects {
				delete(f.Objects, k)
			}
			st := newStore(f, "bkt/"+strings.TrimSuffix(prefix, "/"), desync.StoreOptions{Uncompressed: unc})
			distinct := map[desync.ChunkID]bool{}
			for i := 0; i < 12; i++ {
				d := make([]byte, []int{1, 100, 4000, 70000}[i%4])
				if i%3 != 0 {
					r.Read(d)
				}
				c := desync.NewChunk(d)
				distinct[c.ID()] = true // two of the one-byte chunks may be equal
				must(st.StoreChunk(c))
				k := keyOf(prefix, c.ID(), unc)
				got, ok := f.Get(k)
				okc := ok
				what := "stored chunk is not under <prefix><id[0:4]>/<id>" + map[bool]string{false: ".cacnk", true: ""}[unc]
				if ok {
					if unc {
						okc = bytes.Equal(got, d)
						what = "uncompressed object differs from the chunk's bytes"
					} else {
						okc = decodes(zdec, got, d)
						what = "compressed object is not one zstd frame of the chunk"
					}
				}
				w.Emit(J{"ev": "s3op", "op": "layout", "script": []string{}, "R": 0, "verify": true, "res": "", "attempts": 0, "stored": ok, "unc": unc, "prefix": prefix, "ok": okc && len(f.Keys()) == len(distinct), "what": what})
			}
		}
	}
	must(w.Close())
	n1 := w.N

	// ---- prune records
	w, err = trace.Create(*outPrune)
	must(err)
	for sc := 0; sc < *nPrune; sc++ {
		f.ClearFaults()
		for k := range f.Objects {
			delete(f.Objects, k)
		}
		unc := r.Intn(2) == 0
		prefix := []string{"", "pfx/"}[r.Intn(2)]
		f.PageMax = []int{0, 3, 7}[r.Intn(3)]
		fm := map[bool]string{false: "comp", true: "raw"}[unc]
		type file struct {
			Kind  string
			ID    int
			Fmt   string
			Valid bool
			key   string
		}
		var files []file
		ids := []desync.ChunkID{}
		datas := [][]byte{}
		nids := 2 + r.Intn(8)
		for i := 0; i < nids; i++ {
			d := make([]byte, 200+r.Intn(2000))
			r.Read(d)
			datas = append(datas, d)
			ids = append(ids, desync.NewChunk(d).ID())
		}
		for i, cid := range ids {
			for _, u := range []bool{false, true} {
				if r.Intn(3) == 0 {
					continue
				}
				ff := map[bool]string{false: "comp", true: "raw"}[u]
				k := keyOf(prefix, cid, u)
				f.Put(k, stored(datas[i], u))
				files = append(files, file{"chunk", i + 1, ff, true, k})
			}
		}
		// junk: objects that are not chunks of this store
		junk := []string{"bkt/" + prefix + "README", "bkt/" + prefix + "abcd/notachunk.cacnk", "bkt/" + prefix + "abcd/abcd.tmp", "bkt/outside/" + ids[0].String()[:4] + "/" + ids[0].String() + ".cacnk",
			"bkt/" + prefix + "sub/" + ids[0].String()[:4] + "/" + ids[0].String() + ".cacnk"}
		if prefix == "" {
			junk = junk[:3]
		}
		for j, k := range junk {
			if r.Intn(2) == 0 {
				f.Put(k, []byte("junk"))
				files = append(files, file{"junk", 100 + j, "comp", true, k})
			}
		}
		keep := map[desync.ChunkID]struct{}{}
		keepN := []int{}
		for i, cid := range ids {
			if r.Intn(2) == 0 {
				keep[cid] = struct{}{}
				keepN = append(keepN, i+1)
			}
		}
		if r.Intn(3) == 0 {
			keep[desync.ChunkID{9, 9}] = struct{}{}
			keepN = append(keepN, 99)
		}
		// a delete that the service refuses
		fault := ""
		if r.Intn(3) == 0 {
			for _, fl := range files {
				if fl.Kind == "chunk" && fl.Fmt == fm && !contains(keepN, fl.ID) {
					f.Fault("DELETE", fl.key, []string{"403", "507"}[r.Intn(2)], -1)
					fault = fl.key
					break
				}
			}
		}
		// a listing request that the service refuses: the first one, or a later page
		f.OnRequest = nil
		if fault == "" && r.Intn(4) == 0 {
			failFrom, seen := 1+r.Intn(3), 0
			f.OnRequest = func(method, key string) string {
				if method != "LIST" {
					return ""
				}
				seen++
				if seen >= failFrom {
					return "403"
				}
				return ""
			}
			fault = "LIST"
		}
		st := newStore(f, "bkt/"+strings.TrimSuffix(prefix, "/"), desync.StoreOptions{Uncompressed: unc, ErrorRetry: r.Intn(2)})
		perr := st.Prune(context.Background(), keep)
		f.OnRequest = nil
		res := "ok"
		if perr != nil {
			res = "error"
		}
		fj := []J{}
		removed := []J{}
		for _, fl := range files {
			rec := J{"kind": fl.Kind, "id": fl.ID, "fmt": fl.Fmt, "valid": fl.Valid}
			fj = append(fj, rec)
			if _, ok := f.Get(fl.key); !ok {
				removed = append(removed, rec)
			}
		}
		sort.Ints(keepN)
		w.Emit(J{"ev": "prune", "scen": sc, "fmt": fm, "files": fj, "keep": keepN, "removed": removed, "res": res, "backend": "s3", "fault": fault != "", "page": f.PageMax})
	}
	must(w.Close())
	fmt.Printf("s3 records=%d prune records=%d\n", n1, w.N)
}

func contains(a []int, x int) bool {
	for _, v := range a {
		if v == x {
			return true
		}
	}
	return false
}

func decodes(d *zstd.Decoder, b, want []byte) bool {
	got, err := d.DecodeAll(b, nil)
	return err == nil && bytes.Equal(got, want)
}

type outcome struct {
	res string
	n   int
}

// scripted runs call() while the endpoint answers successive `method` requests on key with the script's classes.
func scripted(f *fakes.FakeS3, method, key string, script []string, good, bad []byte, call func() string) outcome {
	f.ClearFaults()
	// the response to attempt i is selected by a per-request callback
	i := 0
	f.OnRequest = func(m, k string) string {
		if m != method || k != key {
			return ""
		}
		c := script[len(script)-1]
		if i < len(script) {
			c = script[i]
		}
		i++
		switch c {
		case "ok":
			if good != nil {
				f.PutLocked(key, good)
			}
			return ""
		case "bad":
			f.PutLocked(key, bad)
			return ""
		case "nokey":
			f.DeleteLocked(key)
			return ""
		case "denied":
			return "403"
		default:
			return "507"
		}
	}
	res := call()
	f.OnRequest = nil
	return outcome{res, i}
}
