//go:build datadog

package main

import (
	"bytes"
	"crypto/sha512"
	"encoding/hex"
	"os"
	"path/filepath"

	"github.com/DataDog/zstd"
)

// writeStream stores the chunk contents as casync does: with libzstd's STREAMING compressor (ZSTD_compressStream without a
// pledged source size), which writes frames without a content size and with the window of the compression level (2 MiB at
// the default level) whatever the chunk's size - unlike the one-shot API desync's own writers use.
func writeStream(dir string, seed int64) error {
	for _, c := range contents(seed) {
		var buf bytes.Buffer
		zw := zstd.NewWriterLevel(&buf, zstd.DefaultCompression)
		// feed in pieces so that the source size is unknown to the encoder when the header is written
		for i := 0; i < len(c); i += 1000 {
			j := i + 1000
			if j > len(c) {
				j = len(c)
			}
			if _, err := zw.Write(c[i:j]); err != nil {
				return err
			}
		}
		if err := zw.Close(); err != nil {
			return err
		}
		sum := sha512.Sum512_256(c)
		id := hex.EncodeToString(sum[:])
		d := filepath.Join(dir, id[:4])
		os.MkdirAll(d, 0755)
		if err := os.WriteFile(filepath.Join(d, id+".cacnk"), buf.Bytes(), 0644); err != nil {
			return err
		}
	}
	return nil
}
