//go:build !datadog

package main

import "errors"

func writeStream(dir string, seed int64) error {
	return errors.New("streaming libzstd frames need the libzstd build of this helper")
}
