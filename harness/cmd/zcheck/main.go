// zcheck is built twice: with the default (klauspost) and with the libzstd (-tags datadog) implementation behind
// desync.Compress / Decompress. "read <dir>" decodes every .cacnk under dir and checks that it hashes to its name;
// "write <dir> <seed>" stores a fixed set of chunk contents compressed with this build's encoder.
package main

import (
	"bytes"
	"crypto/sha512"
	"encoding/hex"
	"encoding/json"
	"fmt"
	"math/rand"
	"os"
	"path/filepath"
	"strconv"
	"strings"

	"github.com/folbricht/desync"
)

func contents(seed int64) [][]byte {
	r := rand.New(rand.NewSource(seed))
	out := [][]byte{{7}, make([]byte, 65536), bytes.Repeat([]byte("some text, some text. "), 500)}
	for i := 0; i < 12; i++ {
		b := make([]byte, 1+r.Intn(70000))
		r.Read(b)
		if i%3 == 0 {
			for j := range b {
				b[j] = byte(r.Intn(3))
			}
		}
		out = append(out, b)
	}
	return out
}

func main() {
	switch os.Args[1] {
	case "read":
		res := map[string]interface{}{"total": 0, "bad": []string{}}
		bad := []string{}
		total := 0
		filepath.Walk(os.Args[2], func(p string, info os.FileInfo, err error) error {
			if err != nil || info.IsDir() || !strings.HasSuffix(p, ".cacnk") {
				return nil
			}
			total++
			b, _ := os.ReadFile(p)
			d, err := desync.Decompress(nil, b)
			sum := sha512.Sum512_256(d)
			if err != nil || hex.EncodeToString(sum[:]) != strings.TrimSuffix(filepath.Base(p), ".cacnk") {
				bad = append(bad, filepath.Base(p))
			}
			return nil
		})
		res["total"], res["bad"] = total, bad
		json.NewEncoder(os.Stdout).Encode(res)
	case "writestream":
		seed, _ := strconv.ParseInt(os.Args[3], 10, 64)
		if err := writeStream(os.Args[2], seed); err != nil {
			fmt.Fprintln(os.Stderr, err)
			os.Exit(2)
		}
	case "write":
		seed, _ := strconv.ParseInt(os.Args[3], 10, 64)
		st, err := desync.NewLocalStore(os.Args[2], desync.StoreOptions{})
		if err != nil {
			fmt.Fprintln(os.Stderr, err)
			os.Exit(2)
		}
		for _, c := range contents(seed) {
			if err := st.StoreChunk(desync.NewChunk(c)); err != nil {
				fmt.Fprintln(os.Stderr, err)
				os.Exit(2)
			}
		}
	}
}
