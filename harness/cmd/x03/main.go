// x03 starts the real `desync chunk-server` / `index-server` with every combination of --cert/--key (two server
// identities), --mutual-tls and --client-ca, and runs the real client commands (`desync cat`, `desync chop`) with every
// combination of URL scheme, --ca-cert, --trust-insecure and --client-cert/--client-key against each. One record per
// pair for Trace_TlsAccess.tla. Not one of the listed properties: coverage of the servers' transport access control.
package main

import (
	"bytes"
	"crypto/ecdsa"
	"crypto/elliptic"
	"crypto/rand"
	"crypto/x509"
	"crypto/x509/pkix"
	"encoding/pem"
	"flag"
	"fmt"
	"math/big"
	mrand "math/rand"
	"net"
	"os"
	"os/exec"
	"path/filepath"
	"time"

	"github.com/folbricht/desync"

	"verif/harness/trace"
)

func must(err error) {
	if err != nil {
		fmt.Fprintln(os.Stderr, "x03:", err)
		os.Exit(2)
	}
}

type ident struct {
	cert *x509.Certificate
	key  *ecdsa.PrivateKey
	pem  string // certificate file
	kpem string // key file
}

var serial int64 = 1

func mkCert(dir, name string, parent *ident, ca bool, usage x509.ExtKeyUsage) *ident {
	key, err := ecdsa.GenerateKey(elliptic.P256(), rand.Reader)
	must(err)
	serial++
	tpl := &x509.Certificate{SerialNumber: big.NewInt(serial), Subject: pkix.Name{CommonName: name}, NotBefore: time.Now().Add(-time.Hour), NotAfter: time.Now().Add(24 * time.Hour),
		BasicConstraintsValid: true, IsCA: ca}
	if ca {
		tpl.KeyUsage = x509.KeyUsageCertSign | x509.KeyUsageDigitalSignature
	} else {
		tpl.KeyUsage = x509.KeyUsageDigitalSignature
		tpl.ExtKeyUsage = []x509.ExtKeyUsage{usage}
		tpl.IPAddresses = []net.IP{net.ParseIP("127.0.0.1")}
		tpl.DNSNames = []string{"localhost"}
	}
	signer, skey := tpl, key
	if parent != nil {
		signer, skey = parent.cert, parent.key
	}
	der, err := x509.CreateCertificate(rand.Reader, tpl, signer, &key.PublicKey, skey)
	must(err)
	c, err := x509.ParseCertificate(der)
	must(err)
	id := &ident{cert: c, key: key, pem: filepath.Join(dir, name+".pem"), kpem: filepath.Join(dir, name+".key")}
	must(os.WriteFile(id.pem, pem.EncodeToMemory(&pem.Block{Type: "CERTIFICATE", Bytes: der}), 0644))
	kb, err := x509.MarshalECPrivateKey(key)
	must(err)
	must(os.WriteFile(id.kpem, pem.EncodeToMemory(&pem.Block{Type: "EC PRIVATE KEY", Bytes: kb}), 0600))
	return id
}

func run(bin string, args ...string) (int, []byte) {
	cmd := exec.Command(bin, args...)
	cmd.Env = append(os.Environ(), "HOME=/nonexistent")
	var so, se bytes.Buffer
	cmd.Stdout, cmd.Stderr = &so, &se
	must(cmd.Start())
	done := make(chan error, 1)
	go func() { done <- cmd.Wait() }()
	select {
	case err := <-done:
		if err != nil {
			if ee, ok := err.(*exec.ExitError); ok && ee.ExitCode() > 0 {
				return ee.ExitCode(), so.Bytes()
			}
			return 1, so.Bytes()
		}
		return 0, so.Bytes()
	case <-time.After(60 * time.Second):
		cmd.Process.Kill()
		<-done
		return 99, so.Bytes()
	}
}

func main() {
	seed := flag.Int64("seed", 1, "seed")
	out := flag.String("out", "", "trace output")
	dir := flag.String("dir", "", "scratch directory (absolute)")
	bin := flag.String("desync", "", "desync binary")
	frac := flag.Int("every", 1, "run every k-th client configuration per server (a seeded residue class)")
	flag.Parse()
	if !filepath.IsAbs(*dir) || *bin == "" {
		fmt.Fprintln(os.Stderr, "x03: -dir must be absolute, -desync is required")
		os.Exit(2)
	}
	w, err := trace.Create(*out)
	must(err)
	r := mrand.New(mrand.NewSource(*seed))
	os.RemoveAll(*dir)
	pki := filepath.Join(*dir, "pki")
	must(os.MkdirAll(pki, 0755))
	caS, caO := mkCert(pki, "caS", nil, true, 0), mkCert(pki, "caO", nil, true, 0)
	caA, caB := mkCert(pki, "caA", nil, true, 0), mkCert(pki, "caB", nil, true, 0)
	srv := map[string]*ident{"S": mkCert(pki, "serverS", caS, false, x509.ExtKeyUsageServerAuth), "O": mkCert(pki, "serverO", caO, false, x509.ExtKeyUsageServerAuth)}
	cl := map[string]*ident{"a": mkCert(pki, "clienta", caA, false, x509.ExtKeyUsageClientAuth), "b": mkCert(pki, "clientb", caB, false, x509.ExtKeyUsageClientAuth)}
	cas := map[string]*ident{"S": caS, "O": caO, "A": caA}

	must(os.MkdirAll(filepath.Join(*dir, "scratchstore"), 0755))
	data := make([]byte, 3000)
	r.Read(data)
	rows := 0
	nth := 0
	for _, kind := range []string{"chunk", "index"} {
		for _, stls := range []bool{false, true} {
			for _, signer := range []string{"S", "O"} {
				if !stls && signer == "O" {
					continue
				}
				for _, mutual := range []bool{false, true} {
					for _, clientCA := range []string{"none", "A"} {
						served := filepath.Join(*dir, "served")
						os.RemoveAll(served)
						must(os.MkdirAll(served, 0755))
						ls, err := desync.NewLocalStore(served, desync.StoreOptions{})
						must(err)
						ch := desync.NewChunk(data)
						must(ls.StoreChunk(ch))
						idx := desync.Index{Index: desync.FormatIndex{FeatureFlags: desync.CaFormatSHA512256 | desync.CaFormatExcludeNoDump, ChunkSizeMin: 16, ChunkSizeAvg: 64, ChunkSizeMax: 256 * 1024},
							Chunks: []desync.IndexChunk{{ID: ch.ID(), Start: 0, Size: uint64(len(data))}}}
						var ib bytes.Buffer
						idx.WriteTo(&ib)
						must(os.WriteFile(filepath.Join(served, "x.caibx"), ib.Bytes(), 0644))
						localIdx := filepath.Join(*dir, "x.caibx")
						must(os.WriteFile(localIdx, ib.Bytes(), 0644))
						// what `chop` uploads: another blob
						up := make([]byte, 2000)
						r.Read(up)
						upFile := filepath.Join(*dir, "up.bin")
						must(os.WriteFile(upFile, up, 0644))
						upc := desync.NewChunk(up)
						upid := upc.ID()
						upIdx := filepath.Join(*dir, "up.caibx")
						ui := desync.Index{Index: idx.Index, Chunks: []desync.IndexChunk{{ID: upid, Start: 0, Size: uint64(len(up))}}}
						var ub bytes.Buffer
						ui.WriteTo(&ub)
						must(os.WriteFile(upIdx, ub.Bytes(), 0644))

						l, err := net.Listen("tcp", "127.0.0.1:0")
						must(err)
						addr := l.Addr().String()
						l.Close()
						args := []string{kind + "-server", "-s", served, "-l", addr, "-w"}
						if stls {
							args = append(args, "--cert", srv[signer].pem, "--key", srv[signer].kpem)
						}
						if mutual {
							args = append(args, "--mutual-tls")
						}
						if clientCA != "none" {
							args = append(args, "--client-ca", cas[clientCA].pem)
						}
						cmd := exec.Command(*bin, args...)
						cmd.Env = append(os.Environ(), "HOME=/nonexistent")
						must(cmd.Start())
						upOK := false
						for i := 0; i < 300 && !upOK; i++ {
							c, err := net.Dial("tcp", addr)
							if err == nil {
								c.Close()
								upOK = true
							} else {
								time.Sleep(20 * time.Millisecond)
							}
						}
						if !upOK {
							cmd.Process.Kill()
							fmt.Fprintln(os.Stderr, "x03: server did not come up:", args)
							os.Exit(2)
						}
						for _, chttps := range []bool{false, true} {
							for _, cacert := range []string{"none", "S", "O"} {
								for _, trust := range []bool{false, true} {
									for _, ccert := range []string{"none", "a", "b"} {
										nth++
										if nth%*frac != int(*seed)%*frac {
											continue
										}
										scheme := "http"
										if chttps {
											scheme = "https"
										}
										var opts []string
										if cacert != "none" {
											opts = append(opts, "--ca-cert", cas[cacert].pem)
										}
										if trust {
											opts = append(opts, "--trust-insecure")
										}
										if ccert != "none" {
											opts = append(opts, "--client-cert", cl[ccert].pem, "--client-key", cl[ccert].kpem)
										}
										opts = append(opts, "--error-retry", "0")
										for _, op := range []string{"get", "put"} {
											var exit int
											var so []byte
											dataok, stored := false, false
											switch {
											case kind == "chunk" && op == "get":
												exit, so = run(*bin, append([]string{"cat", "-s", scheme + "://" + addr + "/"}, append(opts, localIdx)...)...)
												dataok = len(so) > 0 && bytes.Equal(so, data)
											case kind == "chunk" && op == "put":
												exit, _ = run(*bin, append([]string{"chop", "-s", scheme + "://" + addr + "/"}, append(opts, upIdx, upFile)...)...)
												s := upid.String()
												_, err := os.Stat(filepath.Join(served, s[:4], s+".cacnk"))
												stored = err == nil
												os.Remove(filepath.Join(served, s[:4], s+".cacnk"))
											case kind == "index" && op == "get":
												exit, so = run(*bin, append([]string{"cat", "-s", served}, append(opts, scheme+"://"+addr+"/x.caibx")...)...)
												dataok = len(so) > 0 && bytes.Equal(so, data)
											case kind == "index" && op == "put":
												exit, _ = run(*bin, append([]string{"make", "-s", filepath.Join(*dir, "scratchstore")}, append(opts, scheme+"://"+addr+"/new.caibx", upFile)...)...)
												_, err := os.Stat(filepath.Join(served, "new.caibx"))
												stored = err == nil
												os.Remove(filepath.Join(served, "new.caibx"))
											}
											w.Emit(trace.M("ev", "tls", "kind", kind, "op", op, "stls", stls, "ssigner", signer, "smutual", mutual, "sclientca", clientCA,
												"chttps", chttps, "ccacert", cacert, "ctrust", trust, "ccert", ccert, "exit", exit, "dataok", dataok, "stored", stored))
											rows++
										}
									}
								}
							}
						}
						cmd.Process.Kill()
						cmd.Wait()
					}
				}
			}
		}
	}
	must(w.Close())
	fmt.Printf("rows=%d\n", rows)
}
