// c18 builds hostile catar archives with an independent encoder and unpacks them with the real UnTar and UnTarIndex into a
// sandboxed destination; everything in the sandbox outside the destination is snapshotted before and after.
package main

import (
	"bytes"
	"context"
	"crypto/sha256"
	"flag"
	"fmt"
	"math/rand"
	"os"
	"path/filepath"
	"sort"
	"strings"
	"syscall"

	"github.com/folbricht/desync"
	"github.com/pkg/xattr"

	"verif/harness/oracle"
	"verif/harness/trace"
)

type J = map[string]interface{}

type entry struct {
	Name   string
	Kind   string // dir, file, link, goodbye
	Target string
}

// abstract component form of a name for the model: ".." -> "U", leading "/" -> "R", other components kept (a, b, x, abs)
func comps(s string) []string {
	out := []string{}
	if strings.HasPrefix(s, "/") {
		out = append(out, "R")
	}
	for _, c := range strings.Split(s, "/") {
		switch c {
		case "", ".":
		case "..":
			out = append(out, "U")
		default:
			out = append(out, c)
		}
	}
	return out
}

func snapshot(root, skip string) map[string]string {
	out := map[string]string{}
	filepath.Walk(root, func(p string, info os.FileInfo, err error) error {
		if err != nil {
			return nil
		}
		if p == skip { // the destination itself (a directory, or whatever the archive made of it) is not "outside"
			if info.IsDir() {
				return filepath.SkipDir
			}
			return nil
		}
		rel, _ := filepath.Rel(root, p)
		var st syscall.Stat_t
		syscall.Lstat(p, &st)
		desc := fmt.Sprintf("%o:%d:%d:%d.%d", st.Mode, st.Uid, st.Gid, st.Mtim.Sec, st.Mtim.Nsec)
		switch {
		case info.Mode()&os.ModeSymlink != 0:
			t, _ := os.Readlink(p)
			desc += ":->" + t
		case info.Mode().IsRegular():
			b, _ := os.ReadFile(p)
			desc += fmt.Sprintf(":%x", sha256.Sum256(b))
		}
		if names, xerr := xattr.LList(p); xerr == nil {
			sort.Strings(names)
			for _, n := range names {
				v, _ := xattr.LGet(p, n)
				desc += fmt.Sprintf(":%s=%x", n, v)
			}
		}
		if rel == "." { // the sandbox root's own mtime changes when dst is created inside it: compare its entries only
			desc = "root"
		}
		out[rel] = desc
		return nil
	})
	return out
}

func diff(a, b map[string]string) []string {
	seen := map[string]bool{}
	for k, v := range a {
		if b[k] != v {
			seen[k] = true
		}
	}
	for k, v := range b {
		if a[k] != v {
			seen[k] = true
		}
	}
	out := []string{}
	for k := range seen {
		out = append(out, k)
	}
	sort.Strings(out)
	return out
}

// arch: the nameless root entry (a directory in every well-formed archive), whether the destination exists, the entries
type arch struct {
	Root     entry
	Absent   bool
	Es       []entry
	Modelled bool
}

func rootTarget(t string) []string {
	switch t {
	case "OUT":
		return []string{"out"}
	case "DST":
		return []string{"dst"}
	}
	return []string{}
}

func build(root entry, es []entry) []byte {
	var e oracle.Enc
	switch root.Kind {
	case "file":
		e.Entry(0100644, 0, 0, 1000000000)
		e.Payload([]byte("the root is a file"))
	case "link":
		e.Entry(0120777, 0, 0, 1000000000)
		e.Symlink(root.Target)
	default:
		e.Entry(0040755, 0, 0, 1000000000)
	}
	for _, x := range es {
		switch x.Kind {
		case "goodbye":
			e.Goodbye()
		case "dir":
			e.Filename(x.Name)
			e.Entry(0040755, 0, 0, 1000000000)
		case "file":
			e.Filename(x.Name)
			e.Entry(0100644, 0, 0, 1000000000)
			e.Payload([]byte("written by the archive"))
		case "link":
			e.Filename(x.Name)
			e.Entry(0120777, 0, 0, 1000000000)
			e.Symlink(x.Target)
		case "filex": // entries without a filename element (only the first entry of an archive has none)
			e.Entry(0100644, 0, 0, 1000000000)
			e.Payload([]byte("written by the archive"))
		case "dirx":
			e.Entry(0040755, 0, 0, 1000000000)
		case "linknx":
			e.Entry(0120777, 0, 0, 1000000000)
			e.Symlink(x.Target)
		case "linkx": // a symlink entry that carries extended attributes
			e.Filename(x.Name)
			e.Entry(0120777, 0, 0, 1000000000)
			e.Raw(16+uint64(len("user.planted\x00by-the-archive\x00")), 0xb8157091f80bc486, []byte("user.planted\x00by-the-archive\x00"))
			e.Raw(16+uint64(len("trusted.planted\x00by-the-archive\x00")), 0xb8157091f80bc486, []byte("trusted.planted\x00by-the-archive\x00"))
			e.Symlink(x.Target)
		}
	}
	e.Goodbye()
	return e.Bytes()
}

func main() {
	seed := flag.Int64("seed", 1, "seed")
	n := flag.Int("n", 500, "random archives (in addition to the enumerated ones)")
	maxEnum := flag.Int("enum", 2, "enumerate all archives with up to this many entries")
	out := flag.String("out", "", "trace output")
	dir := flag.String("dir", "", "scratch dir")
	flag.Parse()
	if !filepath.IsAbs(*dir) {
		fmt.Fprintln(os.Stderr, "-dir must be an absolute scratch directory")
		os.Exit(2)
	}
	w, err := trace.Create(*out)
	if err != nil {
		fmt.Fprintln(os.Stderr, err)
		os.Exit(2)
	}
	r := rand.New(rand.NewSource(*seed))
	sb := filepath.Join(*dir, "l1", "l2", "l3", "sandbox")
	names := []string{"a", "b", "..", "../x", "a/b", "/abs", "", "a/../../x"}
	// names beyond the model's alphabet (not run through the model)
	extra := []string{".", "../../out/secret", "../out/planted", "a/..", "./a", strings.Repeat("a", 200), "..\x00", "out", "dst/../../out/secret", "//abs", "a//b", "...", ".. ", " .."}
	var alphabet []entry
	for _, nm := range names {
		alphabet = append(alphabet, entry{nm, "dir", ""}, entry{nm, "file", ""}, entry{nm, "link", "OUT"}, entry{nm, "link", "DST"})
	}
	alphabet = append(alphabet, entry{"", "goodbye", ""})
	var archives []arch
	dirRoot := entry{"", "dir", ""}
	roots := []entry{dirRoot, {"", "file", ""}, {"", "link", "OUT"}, {"", "link", "DST"}}
	var rec func(cur []entry)
	rec = func(cur []entry) {
		archives = append(archives, arch{dirRoot, false, append([]entry{}, cur...), true})
		if len(cur) <= 1 { // every kind of root entry, destination present or absent, for the shortest archives
			for _, rt := range roots {
				for _, ab := range []bool{false, true} {
					if rt.Kind != "dir" || ab {
						archives = append(archives, arch{rt, ab, append([]entry{}, cur...), true})
					}
				}
			}
		}
		if len(cur) == *maxEnum {
			return
		}
		for _, e := range alphabet {
			rec(append(cur, e))
		}
	}
	rec(nil)
	for i := 0; i < *n; i++ {
		k := 1 + r.Intn(5)
		var es []entry
		for j := 0; j < k; j++ {
			e := alphabet[r.Intn(len(alphabet))]
			if r.Intn(3) == 0 {
				e.Name = extra[r.Intn(len(extra))]
			}
			if e.Kind == "link" && r.Intn(3) == 0 {
				e.Target = []string{"../out", "..", "/", "../out/secret", "OUT/secret"}[r.Intn(5)]
			}
			es = append(es, e)
		}
		archives = append(archives, arch{roots[[]int{0, 0, 0, 1, 2, 3}[r.Intn(6)]], r.Intn(4) == 0, es, false})
	}
	// a second family: only well-formed names, hostile ORDERS (symlink then directory or file of the same name, entries
	// after surplus goodbyes, links to the outside, nesting)
	for i := 0; i < *n; i++ {
		k := 2 + r.Intn(5)
		var es []entry
		for j := 0; j < k; j++ {
			e := entry{Name: []string{"a", "b", "a", "c"}[r.Intn(4)], Kind: []string{"dir", "file", "link", "link", "goodbye", "linkx"}[r.Intn(6)]}
			if e.Kind == "link" || e.Kind == "linkx" {
				e.Target = []string{"OUT", "DST", "../out", "..", "OUT/secret", "a"}[r.Intn(6)]
			}
			es = append(es, e)
		}
		rt := roots[[]int{0, 0, 1, 2, 2, 3}[r.Intn(6)]]
		if rt.Kind == "link" && r.Intn(3) == 0 {
			rt.Target = []string{"../out", "..", "OUT/secret"}[r.Intn(3)]
		}
		archives = append(archives, arch{rt, r.Intn(2) == 0, es, false})
	}
	// a third family: entries that name the directory they are listed in (or have no name at all), used to swap the open
	// directory for a symlink to the outside while the archive keeps listing entries in it
	{
		selfNames := []string{"/", ".", "", "./", "a/..", "//", "/."}
		for _, inside := range []bool{false, true} {
			for _, rootAbsent := range []bool{false, true} {
				var prefix []entry
				if inside {
					prefix = []entry{{"a", "dir", ""}, {"g", "file", ""}}
				}
				for _, target := range []string{"OUT", "../out", "../../out"} {
					for _, sn := range selfNames {
						for _, first := range []string{"file", "none", "link"} {
							es := append([]entry{}, prefix...)
							if first != "none" {
								es = append(es, entry{sn, first, target})
							}
							es = append(es, entry{sn, "link", target}, entry{"f", "file", ""}, entry{"secret", "file", ""})
							archives = append(archives, arch{dirRoot, rootAbsent, es, false})
						}
					}
					for _, first := range []string{"filex", "none", "dirx"} {
						es := append([]entry{}, prefix...)
						if first != "none" {
							es = append(es, entry{"", first, ""})
						}
						es = append(es, entry{"", "linknx", target}, entry{"f", "file", ""}, entry{"secret", "file", ""})
						archives = append(archives, arch{dirRoot, rootAbsent, es, false})
					}
				}
			}
		}
	}
	count := 0
	for ai, a := range archives {
		es := a.Es
		for _, via := range []string{"untar", "untarindex"} {
			if via == "untarindex" && ai%3 != 0 {
				continue
			}
			os.RemoveAll(sb)
			os.MkdirAll(filepath.Join(sb, "out"), 0755)
			if !a.Absent {
				os.MkdirAll(filepath.Join(sb, "dst"), 0755)
			}
			os.WriteFile(filepath.Join(sb, "out", "secret"), []byte("sentinel"), 0600)
			os.WriteFile(filepath.Join(sb, "sentinel.txt"), []byte("sentinel"), 0600)
			conc := make([]entry, len(es))
			for i, e := range es {
				conc[i] = e
				conc[i].Target = strings.Replace(strings.Replace(e.Target, "OUT", filepath.Join(sb, "out"), 1), "DST", filepath.Join(sb, "dst"), 1)
			}
			croot := a.Root
			croot.Target = strings.Replace(strings.Replace(croot.Target, "OUT", filepath.Join(sb, "out"), 1), "DST", filepath.Join(sb, "dst"), 1)
			b := build(croot, conc)
			before := snapshot(sb, filepath.Join(sb, "dst"))
			var uerr error
			fs := desync.NewLocalFS(filepath.Join(sb, "dst"), desync.LocalFSOptions{})
			if via == "untar" {
				uerr = desync.UnTar(context.Background(), bytes.NewReader(b), fs)
			} else {
				sdir := filepath.Join(*dir, "store")
				os.RemoveAll(sdir)
				os.MkdirAll(sdir, 0755)
				st, _ := desync.NewLocalStore(sdir, desync.StoreOptions{})
				ck, _ := desync.NewChunker(bytes.NewReader(b), 48, 64, 96)
				idx, cerr := desync.ChunkStream(context.Background(), ck, st, 2)
				if cerr != nil {
					panic(cerr)
				}
				uerr = desync.UnTarIndex(context.Background(), fs, idx, st, 2, desync.NewProgressBar(""))
			}
			after := snapshot(sb, filepath.Join(sb, "dst"))
			ej := []J{}
			for _, e := range es {
				t := []string{}
				if e.Target == "OUT" {
					t = []string{"out"}
				} else if e.Target == "DST" {
					t = []string{"dst"}
				}
				ej = append(ej, J{"name": comps(e.Name), "kind": e.Kind, "target": t, "raw": e.Name})
			}
			w.Emit(trace.M("ev", "unpack", "via", via, "entries", ej, "err", fmt.Sprint(uerr), "ok", uerr == nil, "outside", diff(before, after), "modelled", a.Modelled,
				"root", J{"kind": a.Root.Kind, "target": rootTarget(a.Root.Target)}, "dstabsent", a.Absent))
			count++
		}
	}
	if err := w.Close(); err != nil {
		fmt.Fprintln(os.Stderr, err)
		os.Exit(2)
	}
	fmt.Printf("archives=%d unpacks=%d\n", len(archives), count)
}
