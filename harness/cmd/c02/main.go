// c02 drives the real IndexFromFile (parallel chunker) under the gate scheduler and records an NDJSON
// trace for Trace_ParChunker.tla. Every scenario starts with a reset record that carries the instance
// (L, min, max, number of workers, boundary positions and null-chunk positions computed by the independent
// rule oracle). Scenarios with cancel >= 0 cancel the context at that event (C07).
package main

import (
	"bytes"
	"context"
	"crypto/sha512"
	_ "embed"
	"encoding/json"
	"errors"
	"flag"
	"fmt"
	"io"
	"math/rand"
	"os"
	"path/filepath"
	"time"

	"github.com/folbricht/desync"

	"verif/harness/oracle"
	"verif/harness/sched"
	"verif/harness/trace"
)

//go:embed f30.bin
var pinnedF30 []byte

type instance struct {
	Shape         string
	Data          []byte
	Min, Avg, Max uint64
	N             int
}

func genData(r *rand.Rand, shape string, size int, max int) []byte {
	d := make([]byte, size)
	switch shape {
	case "random":
		r.Read(d)
	case "zero":
	case "lowentropy":
		for i := range d {
			d[i] = byte(r.Intn(2))
		}
	case "repetitive":
		pat := make([]byte, 7+r.Intn(120))
		r.Read(pat)
		for i := range d {
			d[i] = pat[i%len(pat)]
		}
	case "zeroruns":
		r.Read(d)
		// long zero runs at arbitrary alignment
		for k := 0; k < 1+r.Intn(3); k++ {
			a := r.Intn(size + 1)
			l := r.Intn(6*max + 1)
			for i := a; i < a+l && i < size; i++ {
				d[i] = 0
			}
		}
	case "zerotail":
		r.Read(d)
		a := r.Intn(size + 1)
		for i := a; i < size; i++ {
			d[i] = 0
		}
	case "zerohead":
		r.Read(d)
		a := r.Intn(size + 1)
		for i := 0; i < a; i++ {
			d[i] = 0
		}
	}
	return d
}

var shapes = []string{"random", "zero", "lowentropy", "repetitive", "zeroruns", "zeroruns", "zerotail", "zerohead", "random"}

func genInstance(r *rand.Rand, big bool) instance {
	mins := []uint64{48, 48, 56, 64}
	mn := mins[r.Intn(len(mins))]
	avg := mn + uint64(r.Intn(48))
	mx := avg + uint64(r.Intn(int(3*avg)))
	n := 1 + r.Intn(6)
	if big {
		n = 1 + r.Intn(16)
	}
	// sizes: 0, tiny, around multiples of min/max and of size/n
	var size int
	switch r.Intn(6) {
	case 0:
		size = r.Intn(3) * r.Intn(int(mn)+2)
	case 1:
		size = int(mx)*(1+r.Intn(8)) + r.Intn(3) - 1
	case 2:
		size = int(mn)*(1+r.Intn(12)) + r.Intn(3) - 1
	case 3:
		size = n*(int(mx)+r.Intn(64)) + r.Intn(n+1)
	default:
		size = r.Intn(int(mx) * 14)
	}
	if big {
		size *= 2
	}
	if size < 0 {
		size = 0
	}
	shape := shapes[r.Intn(len(shapes))]
	return instance{Shape: shape, Data: genData(r, shape, size, int(mx)), Min: mn, Avg: avg, Max: mx, N: n}
}

func workers(size, max uint64, n int) int {
	nn := size/max + 1
	if nn < uint64(n) {
		return int(nn)
	}
	return n
}

type runResult struct {
	hang   *sched.HangError
	events int
	stats  sched.Stats
}

// followersFirst lets every worker but the first run as far as it can (lowest index first) before the first worker moves:
// followers that find the buckets of their successors empty never fall in step and run to the end of the file, so the first
// worker meets finished followers with full buckets - the situation in which it empties and skips them (finding F30).
type followersFirst struct{}

func (followersFirst) Pick(parked []*sched.G, step int, timedOut bool) int {
	best, bestIdx := -1, 1<<30
	w0 := -1
	for i, g := range parked {
		var idx int
		if n, err := fmt.Sscanf(g.Name, "w%d", &idx); n == 1 && err == nil {
			if idx == 0 {
				w0 = i
			} else if idx < bestIdx {
				best, bestIdx = i, idx
			}
		}
	}
	if best >= 0 {
		return best
	}
	if w0 >= 0 {
		return w0
	}
	return 0
}

func runOne(num int, in instance, file string, seed int64, cancelAt int, w *trace.Writer, policy string) runResult {
	r := rand.New(rand.NewSource(seed))
	var pol sched.Policy
	switch policy {
	case "pct":
		pol = sched.NewPCT(r, 3, 200)
	case "followersfirst":
		pol = followersFirst{}
	default:
		pol = &sched.Random{R: r}
	}
	L := uint64(len(in.Data))
	nw := workers(L, in.Max, in.N)
	span := L / uint64(nw)
	widx := func(off interface{}) int {
		o := off.(uint64)
		if span == 0 {
			return 0
		}
		return int(o / span)
	}
	s := sched.New(pol, map[string]sched.Kind{"pc.accept": sched.Log, "pc.drained": sched.Log, "pc.closed": sched.Exit, "result": sched.Log})
	s.NameFn = func(point string, kv []interface{}) string {
		if point == "pc.top" {
			return fmt.Sprintf("w%d", widx(kv[1]))
		}
		return ""
	}
	ctx, cancel := context.WithCancel(context.Background())
	defer cancel()
	nev := 0
	s.OnEvent = func(e sched.Event) []sched.Event {
		nev++
		if cancelAt >= 0 && nev == cancelAt+1 {
			cancel()
			return []sched.Event{{G: "harness", Point: "cancel"}}
		}
		return nil
	}
	if cancelAt == 0 {
		cancel()
	}
	desync.VerifHook = s.Hook
	var idx desync.Index
	var ierr error
	log, herr := s.Run(func() {
		s.Name("main")
		idx, _, ierr = desync.IndexFromFile(ctx, file, in.N, in.Min, in.Avg, in.Max, desync.NewProgressBar(""))
		s.Hook("result")
		s.Leave()
	})
	gone := s.WaitGone(5 * time.Second)
	desync.VerifHook = nil
	// the instance
	w.Emit(trace.M("ev", "reset", "scen", num, "L", len(in.Data), "Mn", in.Min, "Mx", in.Max, "NW", nw,
		"bnd", nonNil(oracle.Boundaries(in.Data, in.Avg)), "nulls", nonNil(oracle.NullStarts(in.Data, int(in.Max))),
		"shape", in.Shape, "n", in.N, "avg", in.Avg, "cancel", cancelAt))
	if cancelAt == 0 {
		w.Emit(trace.M("ev", "cancel", "g", "harness"))
	}
	// drop worker events after the aggregator's final decision (files are closed under the workers then)
	last := -1
	for i, e := range log {
		if e.Point == "pc.drained" {
			last = i
		}
	}
	for i, e := range log {
		if last >= 0 && i > last && e.Point != "result" {
			continue
		}
		if e.Point == "result" {
			continue
		}
		m := map[string]interface{}{"ev": e.Point, "g": e.G}
		for j := 0; j+1 < len(e.KV); j += 2 {
			k := e.KV[j].(string)
			switch k {
			case "w", "from":
				m[k] = widx(e.KV[j+1])
			default:
				m[k] = e.KV[j+1]
			}
		}
		w.Emit(m)
	}
	rr := runResult{events: len(log), stats: s.Stats}
	if herr != nil {
		rr.hang = herr.(*sched.HangError)
		w.Emit(trace.M("ev", "hang", "scen", num))
		return rr
	}
	if !gone {
		w.Emit(trace.M("ev", "stragglers", "scen", num))
	}
	// the result, projected: chunk table, and the leaf checks (ids, parameters) done here
	res := "ok"
	if ierr != nil {
		res = "error"
		if errors.As(ierr, &desync.Interrupted{}) {
			res = "interrupted"
		}
	}
	chunks := [][2]uint64{}
	idsOK, paramsOK := true, true
	if ierr == nil {
		for _, c := range idx.Chunks {
			chunks = append(chunks, [2]uint64{c.Start, c.Start + c.Size})
			if c.Start+c.Size > L {
				idsOK = false
				continue
			}
			sum := sha512.Sum512_256(in.Data[c.Start : c.Start+c.Size])
			if !bytes.Equal(sum[:], c.ID[:]) {
				idsOK = false
			}
		}
		f := idx.Index
		if f.ChunkSizeMin != in.Min || f.ChunkSizeAvg != in.Avg || f.ChunkSizeMax != in.Max ||
			f.FeatureFlags&desync.CaFormatSHA512256 == 0 || f.FeatureFlags&desync.CaFormatExcludeNoDump == 0 {
			paramsOK = false
		}
		if idx.Length() != int64(L) {
			paramsOK = false
		}
	}
	w.Emit(trace.M("ev", "result", "g", "main", "res", res, "chunks", chunks, "idsok", idsOK, "paramsok", paramsOK))
	return rr
}

// fragmenting readers over a byte slice
type fragReader struct {
	data []byte
	pos  int
	kind string
	r    *rand.Rand
}

func (f *fragReader) Read(p []byte) (int, error) {
	if f.pos >= len(f.data) {
		return 0, io.EOF
	}
	if len(p) == 0 {
		return 0, nil
	}
	n := len(p)
	switch f.kind {
	case "onebyte":
		n = 1
	case "half":
		n = (len(p) + 1) / 2
	case "random", "dataerr":
		n = 1 + f.r.Intn(len(p))
		if f.r.Intn(10) == 0 {
			return 0, nil // a reader may return 0, nil
		}
	}
	if n > len(f.data)-f.pos {
		n = len(f.data) - f.pos
	}
	copy(p, f.data[f.pos:f.pos+n])
	f.pos += n
	if f.kind == "dataerr" && f.pos == len(f.data) {
		return n, io.EOF // data together with EOF, as io.Reader allows
	}
	return n, nil
}

func runChunker(num int, r *rand.Rand, w *trace.Writer) {
	in := genInstance(r, false)
	if r.Intn(2) == 0 { // more than one buffer fill (10*max)
		in.Data = genData(r, shapes[r.Intn(len(shapes))], int(in.Max)*(10+r.Intn(25))+r.Intn(50), int(in.Max))
	}
	kind := []string{"full", "onebyte", "half", "random", "dataerr", "dataerr"}[r.Intn(6)]
	fr := &fragReader{data: in.Data, kind: kind, r: r}
	c, err := desync.NewChunker(fr, in.Min, in.Avg, in.Max)
	if err != nil {
		panic(err)
	}
	chunks := [][2]uint64{}
	var kept [][]byte
	dataok, errs := true, "nil"
	for {
		start, b, err := c.Next()
		if err != nil {
			errs = "error"
			break
		}
		if len(b) == 0 {
			break
		}
		chunks = append(chunks, [2]uint64{start, start + uint64(len(b))})
		if start+uint64(len(b)) > uint64(len(in.Data)) || !bytes.Equal(b, in.Data[start:start+uint64(len(b))]) {
			dataok = false
		}
		kept = append(kept, b)
	}
	retained := true
	for i, b := range kept {
		s, e := chunks[i][0], chunks[i][1]
		if e > uint64(len(in.Data)) || !bytes.Equal(b, in.Data[s:e]) {
			retained = false
		}
	}
	w.Emit(trace.M("ev", "chunker", "scen", num, "L", len(in.Data), "Mn", in.Min, "Mx", in.Max, "avg", in.Avg, "reader", kind,
		"bnd", nonNil(oracle.Boundaries(in.Data, in.Avg)), "chunks", chunks, "dataok", dataok, "retainedok", retained, "err", errs, "shape", in.Shape))
}

func nonNil(a []int) []int {
	if a == nil {
		return []int{}
	}
	return a
}

func main() {
	seed := flag.Int64("seed", 1, "seed")
	n := flag.Int("n", 100, "instances")
	per := flag.Int("per", 3, "schedules per instance (one of them cancelled)")
	big := flag.Bool("big", false, "larger instances, up to 16 workers")
	out := flag.String("out", "", "trace output")
	meta := flag.String("meta", "", "summary output")
	dir := flag.String("dir", "", "scratch directory")
	nchunker := flag.Int("chunker", 0, "single-stream Chunker instances with fragmenting readers")
	flag.Parse()
	w, err := trace.Create(*out)
	if err != nil {
		fmt.Fprintln(os.Stderr, err)
		os.Exit(2)
	}
	r := rand.New(rand.NewSource(*seed))
	hangs := []map[string]interface{}{}
	num := 0
	tot := sched.Stats{}
	file := filepath.Join(*dir, "blob")
	shapesSeen := map[string]int{}
	for i := 0; i < *n; i++ {
		in := genInstance(r, *big)
		if i == 0 && len(pinnedF30) > 0 {
			// a pinned instance (found by seed 3): a boundary that the second worker passes by because it lies closer than the minimum
			// size to its previous cut, inside a zero run; with the followers finishing first, the first worker empties the second
			// one's bucket, skips it and falls in step with the third (finding F30). Always run, under every policy.
			in = instance{Shape: "pinned-F30", Data: append([]byte{}, pinnedF30...), Min: 48, Avg: 88, Max: 126, N: 5}
		}
		if os.Getenv("VERIF_C02_DUMP") != "" && in.Shape == "zeroruns" && len(in.Data) == 1009 && in.N == 5 {
			os.WriteFile(os.Getenv("VERIF_C02_DUMP"), in.Data, 0644)
		}
		if err := os.WriteFile(file, in.Data, 0644); err != nil {
			fmt.Fprintln(os.Stderr, err)
			os.Exit(2)
		}
		shapesSeen[in.Shape]++
		events := 0
		for k := 0; k < *per; k++ {
			num++
			cancelAt := -1
			if k == *per-1 && events > 0 {
				cancelAt = r.Intn(events + 1)
			}
			pol := "random"
			if k%2 == 1 {
				pol = "pct"
			} else if k == 0 && (num%2 == 0 || in.Shape == "pinned-F30") {
				pol = "followersfirst"
			}
			rr := runOne(num, in, file, *seed*7919+int64(num), cancelAt, w, pol)
			if cancelAt < 0 {
				events = rr.events
			}
			tot.Steps += rr.stats.Steps
			tot.Unannounced += rr.stats.Unannounced
			if rr.hang != nil {
				hangs = append(hangs, map[string]interface{}{"scen": num, "parked": rr.hang.Parked, "stacks": rr.hang.Stacks})
			}
		}
	}
	for i := 0; i < *nchunker; i++ {
		runChunker(num+i+1, r, w)
	}
	if err := w.Close(); err != nil {
		fmt.Fprintln(os.Stderr, err)
		os.Exit(2)
	}
	b, _ := json.MarshalIndent(map[string]interface{}{"scenarios": num, "instances": *n, "events": w.N, "hangs": hangs,
		"steps": tot.Steps, "unannounced": tot.Unannounced, "shapes": shapesSeen}, "", " ")
	if *meta != "" {
		os.WriteFile(*meta, b, 0644)
	}
	fmt.Printf("instances=%d scenarios=%d events=%d hangs=%d steps=%d unannounced=%d\n", *n, num, w.N, len(hangs), tot.Steps, tot.Unannounced)
}
