// x01 runs the real `desync info` (json and plain), `list-chunks` and `inspect-chunks` on random small indexes with
// seeds, a cache, one or two stores and chunks-info files, and records inputs (as numbered chunks) and outputs for
// Trace_IndexInfo.tla. Not one of the listed properties: coverage of the reporting commands.
package main

import (
	"bytes"
	"encoding/json"
	"flag"
	"fmt"
	"math/rand"
	"os"
	"os/exec"
	"path/filepath"
	"regexp"
	"strconv"
	"strings"
	"time"

	"github.com/folbricht/desync"

	"verif/harness/trace"
)

type J = map[string]interface{}

var binary string

func must(err error) {
	if err != nil {
		fmt.Fprintln(os.Stderr, "x01:", err)
		os.Exit(2)
	}
}

func mkdir(p string) string { os.RemoveAll(p); must(os.MkdirAll(p, 0755)); return p }

var lastErr string

func run(args ...string) (int, []byte) {
	cmd := exec.Command(binary, args...)
	cmd.Env = append(os.Environ(), "HOME=/nonexistent")
	var so, se bytes.Buffer
	cmd.Stdout, cmd.Stderr = &so, &se
	must(cmd.Start())
	done := make(chan error, 1)
	go func() { done <- cmd.Wait() }()
	var err error
	select {
	case err = <-done:
	case <-time.After(60 * time.Second):
		cmd.Process.Kill()
		<-done
		return 99, nil
	}
	lastErr = strings.TrimSpace(se.String())
	if len(lastErr) > 300 {
		lastErr = lastErr[len(lastErr)-300:]
	}
	if err != nil {
		if ee, ok := err.(*exec.ExitError); ok && ee.ExitCode() > 0 {
			return ee.ExitCode(), so.Bytes()
		}
		return 1, so.Bytes()
	}
	return 0, so.Bytes()
}

type chunkT struct {
	num  int
	data []byte
	id   desync.ChunkID
}

func writeIndex(path string, seq []chunkT, min, avg, max uint64) {
	idx := desync.Index{Index: desync.FormatIndex{FeatureFlags: desync.CaFormatSHA512256 | desync.CaFormatExcludeNoDump, ChunkSizeMin: min, ChunkSizeAvg: avg, ChunkSizeMax: max}}
	var pos uint64
	for _, c := range seq {
		idx.Chunks = append(idx.Chunks, desync.IndexChunk{ID: c.id, Start: pos, Size: uint64(len(c.data))})
		pos += uint64(len(c.data))
	}
	f, err := os.Create(path)
	must(err)
	_, err = idx.WriteTo(f)
	must(err)
	must(f.Close())
}

func nums(cs []chunkT) []int {
	out := []int{}
	for _, c := range cs {
		out = append(out, c.num)
	}
	return out
}

var plainKeys = map[string]string{
	"Blob size": "size", "Size of deduplicated chunks not in seed": "szns", "Size of deduplicated chunks not in seed nor cache": "sznsnc",
	"Total chunks": "total", "Unique chunks": "unique", "Chunks in store": "instore", "Chunks in seed": "inseed", "Chunks in cache": "incache",
	"Chunks not in seed nor cache": "nsnc", "Compressed chunks not in seed nor cache": "sznsncc", "Chunk size min": "min", "Chunk size avg": "avg", "Chunk size max": "max",
}
var jsonKeys = map[string]string{
	"total": "total", "unique": "unique", "in-store": "instore", "in-seed": "inseed", "in-cache": "incache", "not-in-seed-nor-cache": "nsnc", "size": "size",
	"dedup-size-not-in-seed": "szns", "dedup-size-not-in-seed-nor-cache": "sznsnc", "dedup-size-not-in-seed-nor-cache-compressed": "sznsncc",
	"chunk-size-min": "min", "chunk-size-avg": "avg", "chunk-size-max": "max",
}

// figures the judge reads; -1: not printed
func blank() J {
	out := J{}
	for _, v := range jsonKeys {
		out[v] = -1
	}
	return out
}

func main() {
	seed := flag.Int64("seed", 1, "seed")
	n := flag.Int("n", 100, "scenarios")
	out := flag.String("out", "", "trace output")
	dir := flag.String("dir", "", "scratch directory (absolute)")
	flag.StringVar(&binary, "desync", "", "desync binary")
	flag.Parse()
	if !filepath.IsAbs(*dir) || binary == "" {
		fmt.Fprintln(os.Stderr, "x01: -dir must be absolute, -desync is required")
		os.Exit(2)
	}
	w, err := trace.Create(*out)
	must(err)
	r := rand.New(rand.NewSource(*seed))
	for sc := 1; sc <= *n; sc++ {
		d := mkdir(filepath.Join(*dir, "sc"))
		// the alphabet: up to 7 numbered chunks, sizes 1..400, compressible and not
		k := 1 + r.Intn(7)
		var alpha []chunkT
		seen := map[desync.ChunkID]bool{}
		for len(alpha) < k {
			b := make([]byte, 1+r.Intn(400))
			if r.Intn(2) == 0 {
				r.Read(b)
			} else {
				for i := range b {
					b[i] = byte(len(alpha))
				}
			}
			c := desync.NewChunk(b)
			if seen[c.ID()] {
				continue
			}
			seen[c.ID()] = true
			alpha = append(alpha, chunkT{num: len(alpha) + 1, data: b, id: c.ID()})
		}
		byID := map[string]chunkT{}
		for _, c := range alpha {
			byID[c.id.String()] = c
		}
		pick := func(max int) []chunkT {
			var seq []chunkT
			for i, m := 0, r.Intn(max+1); i < m; i++ {
				seq = append(seq, alpha[r.Intn(len(alpha))])
			}
			return seq
		}
		subset := func() []chunkT {
			var s []chunkT
			p := []int{0, 1, 2, 3, 4}[r.Intn(5)]
			for _, c := range alpha {
				if r.Intn(4) < p {
					s = append(s, c)
				}
			}
			return s
		}
		seq := pick(12)
		if r.Intn(12) == 0 {
			seq = nil
		}
		ixrec := [][]int{}
		for _, c := range seq {
			ixrec = append(ixrec, []int{c.num, len(c.data)})
		}
		min, avg, max := uint64(16+r.Intn(4)), uint64(64+r.Intn(100)), uint64(400+r.Intn(1000))
		index := filepath.Join(d, "blob.caibx")
		writeIndex(index, seq, min, avg, max)
		args := []string{"info"}
		// seeds
		seedIDs := map[int]bool{}
		for i, m := 0, r.Intn(3); i < m; i++ {
			s := pick(6)
			p := filepath.Join(d, fmt.Sprintf("seed%d.caibx", i))
			writeIndex(p, s, 16, 64, 2048)
			args = append(args, "--seed", p)
			for _, c := range s {
				seedIDs[c.num] = true
			}
		}
		seedRec := []int{}
		for _, c := range alpha {
			if seedIDs[c.num] {
				seedRec = append(seedRec, c.num)
			}
		}
		mkStore := func(name string, cs []chunkT, uncompressed bool) string {
			p := mkdir(filepath.Join(d, name))
			s, err := desync.NewLocalStore(p, desync.StoreOptions{Uncompressed: uncompressed})
			must(err)
			for _, c := range cs {
				must(s.StoreChunk(desync.NewChunk(c.data)))
			}
			return p
		}
		// cache
		hasCache := r.Intn(2) == 0
		cacheSet := []chunkT{}
		if hasCache {
			cacheSet = subset()
			args = append(args, "-c", mkStore("cache", cacheSet, false))
		}
		// stores: none, one, or two (a router: in the store if any member has it)
		nStores := r.Intn(3)
		storeNums := map[int]bool{}
		var firstStore string
		var firstSet []chunkT
		for i := 0; i < nStores; i++ {
			s := subset()
			p := mkStore(fmt.Sprintf("store%d", i), s, false)
			if i == 0 {
				firstStore, firstSet = p, s
			}
			args = append(args, "-s", p)
			for _, c := range s {
				storeNums[c.num] = true
			}
		}
		storeRec := []int{}
		for _, c := range alpha {
			if storeNums[c.num] {
				storeRec = append(storeRec, c.num)
			}
		}
		// inspect-chunks: against the first store (or an uncompressed one, or none)
		{
			mode := r.Intn(3)
			ia := []string{"inspect-chunks"}
			hasStore, compressed := false, true
			var set []chunkT
			sdir := ""
			switch {
			case mode == 0 && firstStore != "":
				hasStore, set, sdir = true, firstSet, firstStore
				ia = append(ia, "-s", firstStore)
			case mode == 1:
				hasStore, compressed = true, false
				set = subset()
				sdir = mkStore("ustore", set, true)
				cfg := filepath.Join(d, "config.json")
				must(os.WriteFile(cfg, []byte(fmt.Sprintf(`{"store-options": {%q: {"uncompressed": true}}}`, sdir)), 0644))
				ia = append(ia, "--config", cfg, "-s", sdir)
			}
			ia = append(ia, index)
			disk := [][]int{}
			for _, c := range set {
				s := c.id.String()
				ext := ".cacnk"
				if !compressed {
					ext = ""
				}
				if fi, err := os.Stat(filepath.Join(sdir, s[:4], s+ext)); err == nil {
					disk = append(disk, []int{c.num, int(fi.Size())})
				}
			}
			exit, so := run(ia...)
			outRec := [][]int{}
			if exit == 0 {
				var got []desync.ChunkAdditionalInfo
				if err := json.Unmarshal(so, &got); err != nil {
					exit = 98
				}
				for _, g := range got {
					outRec = append(outRec, []int{byID[g.ID.String()].num, int(g.UncompressedSize), int(g.CompressedSize)})
				}
			}
			w.Emit(trace.M("ev", "inspect", "scen", sc, "ix", ixrec, "hasStore", hasStore, "compressed", compressed, "disk", disk, "exit", exit, "out", outRec))
		}
		// chunks-info: from the real inspect-chunks against a compressed store with some of the chunks, sometimes with entries removed
		hasInfo := r.Intn(2) == 0
		cinfo := [][]int{}
		if hasInfo {
			set := subset()
			if r.Intn(3) == 0 {
				set = alpha
			}
			p := mkStore("infostore", set, false)
			ci := filepath.Join(d, "chunks.json")
			exit, _ := run("inspect-chunks", "-s", p, index, ci)
			if exit != 0 {
				hasInfo = false
			} else {
				b, err := os.ReadFile(ci)
				must(err)
				var got []desync.ChunkAdditionalInfo
				must(json.Unmarshal(b, &got))
				var keep []desync.ChunkAdditionalInfo
				drop := r.Intn(3) == 0
				dup := map[desync.ChunkID]bool{}
				for _, g := range got {
					if drop && r.Intn(3) == 0 {
						continue
					}
					keep = append(keep, g)
					if !dup[g.ID] {
						dup[g.ID] = true
						cinfo = append(cinfo, []int{byID[g.ID.String()].num, int(g.UncompressedSize), int(g.CompressedSize)})
					}
				}
				if keep == nil {
					keep = []desync.ChunkAdditionalInfo{}
				}
				b, _ = json.Marshal(keep)
				must(os.WriteFile(ci, b, 0644))
				args = append(args, "--chunks-info", ci)
			}
		}
		if nw := []int{0, 1, 3, 10}[r.Intn(4)]; nw > 0 {
			args = append(args, "-n", strconv.Itoa(nw))
		}
		// json
		jexit, so := run(append(append([]string{}, args...), "--format", "json", index)...)
		jrec := blank()
		jerr := lastErr
		if jexit == 0 {
			var m map[string]interface{}
			if err := json.Unmarshal(so, &m); err != nil {
				jexit = 98
			}
			for k, v := range m {
				if f, ok := v.(float64); ok && jsonKeys[k] != "" {
					jrec[jsonKeys[k]] = int(f)
				}
			}
		}
		// plain
		pexit, so := run(append(append([]string{}, args...), "--format", "plain", index)...)
		prec := blank()
		if pexit == 0 {
			re := regexp.MustCompile(`^(.*): (\d+)$`)
			for _, line := range strings.Split(strings.TrimSpace(string(so)), "\n") {
				if m := re.FindStringSubmatch(line); m != nil && plainKeys[m[1]] != "" {
					v, _ := strconv.Atoi(m[2])
					prec[plainKeys[m[1]]] = v
				}
			}
		}
		w.Emit(trace.M("ev", "info", "scen", sc, "ix", ixrec, "seed", seedRec, "hasCache", hasCache, "cache", nums(cacheSet), "hasStore", nStores > 0, "store", storeRec,
			"hasInfo", hasInfo, "cinfo", cinfo, "min", int(min), "avg", int(avg), "max", int(max), "exit", jexit, "json", jrec, "plainexit", pexit, "plain", prec,
			"args", strings.Join(args, " "), "stderr", jerr))
		// list-chunks (from the file, and every third time from stdin)
		lexit, so := run("list-chunks", index)
		lrec := []int{}
		if lexit == 0 {
			for _, line := range strings.Fields(string(so)) {
				lrec = append(lrec, byID[line].num)
			}
		}
		w.Emit(trace.M("ev", "list", "scen", sc, "ix", ixrec, "exit", lexit, "out", lrec))
	}
	must(w.Close())
	fmt.Printf("scenarios=%d records=%d\n", *n, w.N)
}
