// c15 sends every row of the request table (method x path class x authorization class x body class) to the real
// chunk and index handlers in every server configuration, over a sandboxed store with sentinel files in the parent
// and sibling directories; store calls are logged by a wrapper, the sandbox is snapshotted before and after.
package main

import (
	"bytes"
	"crypto/sha256"
	"flag"
	"fmt"
	"io"
	"math/rand"
	"net"
	"net/http"
	"net/http/httptest"
	"net/url"
	"os"
	"os/exec"
	"path/filepath"
	"sort"
	"strings"
	"sync"
	"time"

	"github.com/folbricht/desync"

	"verif/harness/trace"
)

type logStore struct {
	desync.WriteStore
	mu    sync.Mutex
	calls map[string]bool
}

func (l *logStore) mark(s string) { l.mu.Lock(); l.calls[s] = true; l.mu.Unlock() }
func (l *logStore) GetChunk(id desync.ChunkID) (*desync.Chunk, error) {
	l.mark("get")
	return l.WriteStore.GetChunk(id)
}
func (l *logStore) HasChunk(id desync.ChunkID) (bool, error) {
	l.mark("has")
	return l.WriteStore.HasChunk(id)
}
func (l *logStore) StoreChunk(c *desync.Chunk) error {
	l.mark("store")
	return l.WriteStore.StoreChunk(c)
}

type logIndex struct {
	desync.LocalIndexStore
	mu    sync.Mutex
	calls map[string]bool
}

func (l *logIndex) mark(s string) { l.mu.Lock(); l.calls[s] = true; l.mu.Unlock() }
func (l *logIndex) GetIndexReader(n string) (io.ReadCloser, error) {
	l.mark("has")
	return l.LocalIndexStore.GetIndexReader(n)
}
func (l *logIndex) GetIndex(n string) (desync.Index, error) {
	l.mark("get")
	return l.LocalIndexStore.GetIndex(n)
}
func (l *logIndex) StoreIndex(n string, i desync.Index) error {
	l.mark("store")
	return l.LocalIndexStore.StoreIndex(n, i)
}

func snapshot(root string) map[string]string {
	out := map[string]string{}
	filepath.Walk(root, func(p string, info os.FileInfo, err error) error {
		if err != nil {
			return nil
		}
		rel, _ := filepath.Rel(root, p)
		if info.IsDir() {
			out[rel] = "dir"
			return nil
		}
		b, _ := os.ReadFile(p)
		out[rel] = fmt.Sprintf("%x:%o", sha256.Sum256(b), info.Mode().Perm())
		return nil
	})
	return out
}

func diff(a, b map[string]string) []string {
	seen := map[string]bool{}
	for k, v := range a {
		if b[k] != v {
			seen[k] = true
		}
	}
	for k, v := range b {
		if a[k] != v {
			seen[k] = true
		}
	}
	out := []string{}
	for k := range seen {
		out = append(out, k)
	}
	sort.Strings(out)
	return out
}

const sentinel = "SENTINEL-DO-NOT-SERVE-0123456789"

func main() {
	seed := flag.Int64("seed", 1, "seed")
	variants := flag.Int("variants", 1, "concrete strings per class")
	out := flag.String("out", "", "trace output")
	dir := flag.String("dir", "", "scratch dir")
	bin := flag.String("desync", "", "desync binary: also run the real chunk-server / index-server processes")
	flag.Parse()
	w, err := trace.Create(*out)
	if err != nil {
		fmt.Fprintln(os.Stderr, err)
		os.Exit(2)
	}
	r := rand.New(rand.NewSource(*seed))
	rows := 0
	auth := "Bearer s3cr3t-Token"
	authClasses := map[string][]string{"none": {""}, "wrong": {"Bearer other", "x"}, "right": {auth}, "case": {"bearer s3cr3t-token", "BEARER S3CR3T-TOKEN"},
		"space": {" " + auth, auth + " "}, "prefix": {auth + "x", auth[:len(auth)-1]}}
	for _, kind := range []string{"chunk", "index"} {
		for _, authset := range []bool{false, true} {
			for _, writable := range []bool{false, true} {
				for _, verifywrite := range []bool{false, true} {
					for _, compressed := range []bool{false, true} {
						if kind == "index" && (verifywrite || compressed) {
							continue
						}
						for v := 0; v < *variants; v++ {
							// ---- sandbox
							sb := filepath.Join(*dir, "sandbox")
							os.RemoveAll(sb)
							served := filepath.Join(sb, "served")
							os.MkdirAll(filepath.Join(sb, "sibling"), 0755)
							os.MkdirAll(served, 0755)
							os.WriteFile(filepath.Join(sb, "secret.txt"), []byte(sentinel), 0644)
							os.WriteFile(filepath.Join(sb, "sibling", "secret.caibx"), []byte(sentinel), 0644)
							data := make([]byte, 200+r.Intn(200))
							r.Read(data)
							other := make([]byte, 100)
							r.Read(other)
							id := desync.NewChunk(data).ID()
							missing := desync.NewChunk(other).ID()
							ls, _ := desync.NewLocalStore(served, desync.StoreOptions{Uncompressed: !compressed})
							ls.StoreChunk(desync.NewChunk(data))
							// a chunk-named sentinel in the sibling directory
							sib, _ := desync.NewLocalStore(filepath.Join(sb, "sibling"), desync.StoreOptions{Uncompressed: !compressed})
							sib.StoreChunk(desync.NewChunk(other))
							idx := desync.Index{Index: desync.FormatIndex{FeatureFlags: desync.CaFormatExcludeNoDump | desync.CaFormatSHA512256, ChunkSizeMin: 1, ChunkSizeAvg: 2, ChunkSizeMax: 1000},
								Chunks: []desync.IndexChunk{{ID: id, Start: 0, Size: uint64(len(data))}}}
							var ib bytes.Buffer
							idx.WriteTo(&ib)
							os.WriteFile(filepath.Join(served, "x.caibx"), ib.Bytes(), 0644)
							lst := &logStore{WriteStore: ls, calls: map[string]bool{}}
							lis, _ := desync.NewLocalIndexStore(served)
							lix := &logIndex{LocalIndexStore: lis, calls: map[string]bool{}}
							a := ""
							if authset {
								a = auth
							}
							var h http.Handler
							var conv desync.Converters
							if compressed {
								conv = desync.Converters{desync.Compressor{}}
							}
							ext := ""
							if compressed {
								ext = ".cacnk"
							}
							if kind == "chunk" {
								h = desync.NewHTTPHandler(lst, writable, !verifywrite, conv, a)
							} else {
								h = desync.NewHTTPIndexHandler(lix, writable, a)
							}
							sid, smiss := id.String(), missing.String()
							zeroID := strings.Repeat("0", 64)
							name := func(s string) string { return "/" + s[:4] + "/" + s + ext }
							otherExt := ".cacnk"
							if compressed {
								otherExt = ""
							}
							var paths map[string][]string
							if kind == "chunk" {
								paths = map[string][]string{
									// the all-zero ID is what Chunk.ID() yields for an object that cannot be decoded: a well-formed name like any other
									"ok": {name(sid)}, "okmissing": {name(smiss), name(zeroID)},
									"wrongprefix": {"/0000/" + sid + ext, "/" + sid + ext, "/x/" + sid[:4] + "/" + sid + ext},
									"dotdot":      {"/" + sid[:4] + "/../" + sid[:4] + "/" + sid + ext, "/../sibling" + name(smiss), "/" + smiss[:4] + "/../../sibling/" + smiss[:4] + "/" + smiss + ext},
									"encoded":     {"/%2e%2e/sibling" + name(smiss), "/" + sid[:4] + "/%2e%2e/" + sid[:4] + "/" + sid + ext, "/%252e%252e%252fsibling" + name(smiss), "/" + sid[:4] + "/%252e%252e%252f" + sid[:4] + "%252f" + sid + ext},
									"absolute":    {filepath.Join(sb, "sibling", smiss[:4], smiss+ext), "//" + sid[:4] + "/" + sid + ext},
									"empty":       {"/", ""},
									"overlong":    {name(sid + strings.Repeat("a", 300)), "/" + strings.Repeat("a/", 200)},
									"shortid":     {"/ab/ab" + ext, "/" + sid[:4] + "/" + sid[:20] + ext},
									"nothex":      {"/zzzz/" + strings.Repeat("z", 64) + ext},
								}
								if compressed {
									paths["nosuffix"] = []string{"/" + sid[:4] + "/" + sid}
									paths["othersuffix"] = []string{"/" + sid[:4] + "/" + sid + ".tmp", "/" + sid[:4] + "/" + sid + ".cacnk.bak"}
								} else {
									paths["othersuffix"] = []string{"/" + sid[:4] + "/" + sid + otherExt, "/" + sid[:4] + "/" + sid + ".x"}
								}
							} else {
								// an index server reduces every path to its base name
								paths = map[string][]string{
									"ok": {"/x.caibx", "/sub/x.caibx", "/../x.caibx", "/a/../../x.caibx", "//x.caibx"},
									"okmissing": {"/y.caibx", "/../sibling/secret2.caibx", "/%2e%2e/nothing.caibx",
										// doubly encoded: after the one decoding a server does, the base name still contains %2e / %2f
										"/%252e%252e%252fsibling%252fsecret2.caibx", "/%252e%252e%252fsecret2.caibx", "/sub/%252e%252e%252f%252e%252e%252fsibling%252fsecret2.caibx"},
								}
							}
							classes := []string{}
							for c := range paths {
								classes = append(classes, c)
							}
							sort.Strings(classes)
							for _, method := range []string{"GET", "HEAD", "PUT", "DELETE", "POST"} {
								for _, pc := range classes {
									for ac, avals := range authClasses {
										bodies := []string{"valid"}
										if method == "PUT" {
											bodies = []string{"valid", "mismatch", "garbage", "empty"}
										}
										for _, bc := range bodies {
											p := paths[pc][r.Intn(len(paths[pc]))]
											av := avals[r.Intn(len(avals))]
											// target object and body
											target, tid := "", id
											if pc == "okmissing" {
												tid = missing
											}
											if kind == "chunk" && p == name(zeroID) {
												tid = desync.ChunkID{}
												if bc == "valid" { // no data hashes to the all-zero ID
													continue
												}
											}
											var body []byte
											if kind == "chunk" {
												target = filepath.Join(tid.String()[:4], tid.String()+ext)
												src := data
												if pc == "okmissing" {
													src = other
												}
												switch bc {
												case "valid":
													body = src
												case "mismatch":
													body = append([]byte("x"), src...)
												case "garbage":
													body = []byte("\x00\x01garbage")
												}
												if compressed && bc != "garbage" && bc != "empty" {
													body, _ = desync.Compress(body)
												}
											} else {
												target = filepath.Base(p)
												if strings.Contains(p, "%25") {
													target, _ = url.PathUnescape(filepath.Base(p)) // decoded once: a literal name with % signs
												} else if strings.Contains(p, "%2e") {
													target = "nothing.caibx"
												}
												switch bc {
												case "valid":
													body = ib.Bytes()
												case "mismatch":
													body = ib.Bytes()[:ib.Len()-9]
												case "garbage":
													body = []byte("not an index at all")
												}
											}
											lst.calls, lix.calls = map[string]bool{}, map[string]bool{}
											before := snapshot(sb)
											req := httptest.NewRequest(method, "http://server/", bytes.NewReader(body))
											req.URL.Path = p
											if strings.Contains(p, "%") {
												if up, err := urlUnescape(p); err == nil {
													req.URL.Path = up
													req.URL.RawPath = p
												}
											}
											if ac != "none" {
												req.Header.Set("Authorization", av)
											}
											rec := httptest.NewRecorder()
											h.ServeHTTP(rec, req)
											after := snapshot(sb)
											changedAll := diff(before, after)
											changed, outside := []string{}, false
											for _, c := range changedAll {
												if strings.HasPrefix(c, "served/") {
													rel := strings.TrimPrefix(c, "served/")
													if after[c] == "dir" || before[c] == "dir" {
														continue // prefix directories created for a stored chunk
													}
													changed = append(changed, rel)
												} else if c != "served" {
													outside = true
												}
											}
											called := []string{}
											for c := range lst.calls {
												called = append(called, c)
											}
											for c := range lix.calls {
												called = append(called, c)
											}
											resp := rec.Body.Bytes()
											dataok := false
											if method == "GET" && rec.Code == 200 {
												if kind == "chunk" {
													want := data
													if compressed {
														want, _ = desync.Decompress(nil, resp)
														dataok = bytes.Equal(want, data)
													} else {
														dataok = bytes.Equal(resp, want)
													}
												} else {
													dataok = bytes.Equal(resp, ib.Bytes())
												}
											}
											stored := false
											if method == "PUT" && rec.Code == 200 {
												if kind == "chunk" {
													c, err := ls.GetChunk(tid)
													stored = err == nil && c != nil
												} else {
													_, err := os.Stat(filepath.Join(served, target))
													stored = err == nil
												}
											}
											w.Emit(trace.M("ev", "row", "kind", kind, "authset", authset, "writable", writable, "verifywrite", verifywrite, "compressed", compressed,
												"method", method, "pathclass", pc, "path", p, "authclass", ac, "bodyclass", bc, "target", target, "status", rec.Code,
												"called", called, "changed", changed, "outside", outside, "leaked", bytes.Contains(resp, []byte(sentinel)), "dataok", dataok, "stored", stored))
											rows++
											// restore the served store for the next row
											if len(changedAll) > 0 {
												os.RemoveAll(served)
												os.MkdirAll(served, 0755)
												ls.StoreChunk(desync.NewChunk(data))
												os.WriteFile(filepath.Join(served, "x.caibx"), ib.Bytes(), 0644)
											}
										}
									}
								}
							}
						}
					}
				}
			}
		}
	}
	if *bin != "" {
		rows += cliServers(w, *bin, filepath.Join(*dir, "cli"), auth)
	}
	if err := w.Close(); err != nil {
		fmt.Fprintln(os.Stderr, err)
		os.Exit(2)
	}
	fmt.Printf("rows=%d\n", rows)
}

// cliServers starts the real `desync chunk-server` and `desync index-server` with the authorization value configured through
// the flag, through the environment (DESYNC_HTTP_AUTH) or not at all, read-only and writable, and sends requests with no /
// a wrong / the right Authorization header. Store calls cannot be observed in another process: "called" stays empty and the
// served directory is compared before and after instead.
func cliServers(w *trace.Writer, bin, dir, auth string) int {
	rows := 0
	data := bytes.Repeat([]byte("cli server data "), 200)
	for _, kind := range []string{"chunk", "index"} {
		for _, via := range []string{"flag", "env", "none"} {
			for _, writable := range []bool{false, true} {
				os.RemoveAll(dir)
				served := filepath.Join(dir, "served")
				os.MkdirAll(served, 0755)
				ls, err := desync.NewLocalStore(served, desync.StoreOptions{})
				if err != nil {
					panic(err)
				}
				ch := desync.NewChunk(data)
				ls.StoreChunk(ch)
				other := desync.NewChunk(append([]byte("other"), data...))
				var ib bytes.Buffer
				idx := desync.Index{Index: desync.FormatIndex{FeatureFlags: desync.CaFormatSHA512256 | desync.CaFormatExcludeNoDump, ChunkSizeMin: 16, ChunkSizeAvg: 64, ChunkSizeMax: 256 * 1024},
					Chunks: []desync.IndexChunk{{ID: ch.ID(), Start: 0, Size: uint64(len(data))}}}
				idx.WriteTo(&ib)
				os.WriteFile(filepath.Join(served, "x.caibx"), ib.Bytes(), 0644)
				l, _ := net.Listen("tcp", "127.0.0.1:0")
				addr := l.Addr().String()
				l.Close()
				args := []string{kind + "-server", "-s", served, "-l", addr}
				if writable {
					args = append(args, "-w")
				}
				if kind == "chunk" {
					args = append(args, "--skip-verify-write=false")
				}
				if via == "flag" {
					args = append(args, "--authorization", auth)
				}
				cmd := exec.Command(bin, args...)
				cmd.Env = append(os.Environ(), "HOME=/nonexistent")
				if via == "env" {
					cmd.Env = append(cmd.Env, "DESYNC_HTTP_AUTH="+auth)
				}
				if err := cmd.Start(); err != nil {
					panic(err)
				}
				up := false
				for i := 0; i < 200 && !up; i++ {
					c, err := net.Dial("tcp", addr)
					if err == nil {
						c.Close()
						up = true
					} else {
						time.Sleep(20 * time.Millisecond)
					}
				}
				if !up {
					cmd.Process.Kill()
					fmt.Fprintln(os.Stderr, "server did not come up:", args)
					os.Exit(2)
				}
				cid, oid := ch.ID(), other.ID()
				okPath := "/" + cid.String()[:4] + "/" + cid.String() + ".cacnk"
				putPath := "/" + oid.String()[:4] + "/" + oid.String() + ".cacnk"
				if kind == "index" {
					okPath, putPath = "/x.caibx", "/new.caibx"
				}
				for _, method := range []string{"GET", "HEAD", "PUT"} {
					for ac, av := range map[string]string{"none": "", "wrong": "Bearer other", "right": auth, "prefix": auth + "x"} {
						before := listDir(served)
						p, pc, target := okPath, "ok", okPath[1:]
						var body []byte
						if method == "PUT" {
							p, pc, target = putPath, "okmissing", putPath[1:]
							if kind == "chunk" {
								body, _ = desync.Compress(append([]byte("other"), data...))
							} else {
								body = ib.Bytes()
							}
						}
						req, _ := http.NewRequest(method, "http://"+addr+p, bytes.NewReader(body))
						if av != "" {
							req.Header.Set("Authorization", av)
						}
						resp, err := http.DefaultClient.Do(req)
						if err != nil {
							cmd.Process.Kill()
							fmt.Fprintln(os.Stderr, "request failed:", err)
							os.Exit(2)
						}
						rb, _ := io.ReadAll(resp.Body)
						resp.Body.Close()
						after := listDir(served)
						changed := []string{}
						for k, v := range after {
							if before[k] != v {
								changed = append(changed, k)
							}
						}
						for k := range before {
							if _, ok := after[k]; !ok {
								changed = append(changed, k)
							}
						}
						dataok := false
						if method == "GET" && resp.StatusCode == 200 {
							if kind == "chunk" {
								d, _ := desync.Decompress(nil, rb)
								dataok = bytes.Equal(d, data)
							} else {
								dataok = bytes.Equal(rb, ib.Bytes())
							}
						}
						stored := false
						if method == "PUT" && resp.StatusCode == 200 {
							_, err := os.Stat(filepath.Join(served, target))
							stored = err == nil
						}
						w.Emit(trace.M("ev", "row", "kind", kind, "authset", via != "none", "writable", writable, "verifywrite", true, "compressed", true,
							"method", method, "pathclass", pc, "path", "cli:"+via+":"+p, "authclass", ac, "bodyclass", "valid", "target", target, "status", resp.StatusCode,
							"called", []string{}, "changed", changed, "outside", false, "leaked", false, "dataok", dataok, "stored", stored))
						rows++
						if len(changed) > 0 {
							for _, c := range changed {
								os.Remove(filepath.Join(served, c))
							}
						}
					}
				}
				// uploads whose content is not the chunk named in the path: refused, nothing stored (the server was started with --skip-verify-write=false)
				if kind == "chunk" && writable {
					for bc, body := range map[string][]byte{"mismatch": func() []byte { b, _ := desync.Compress(data); return b }(), "garbage": []byte("not a compressed chunk"), "empty": {}} {
						before := listDir(served)
						req, _ := http.NewRequest("PUT", "http://"+addr+putPath, bytes.NewReader(body))
						if via != "none" {
							req.Header.Set("Authorization", auth)
						}
						resp, err := http.DefaultClient.Do(req)
						if err != nil {
							cmd.Process.Kill()
							fmt.Fprintln(os.Stderr, "request failed:", err)
							os.Exit(2)
						}
						io.ReadAll(resp.Body)
						resp.Body.Close()
						after := listDir(served)
						changed := []string{}
						for k, v := range after {
							if before[k] != v {
								changed = append(changed, k)
								os.Remove(filepath.Join(served, k))
							}
						}
						w.Emit(trace.M("ev", "row", "kind", kind, "authset", via != "none", "writable", writable, "verifywrite", true, "compressed", true,
							"method", "PUT", "pathclass", "okmissing", "path", "cli:"+via+":"+putPath+":"+bc, "authclass", "right", "bodyclass", bc, "target", putPath[1:], "status", resp.StatusCode,
							"called", []string{}, "changed", changed, "outside", false, "leaked", false, "dataok", false, "stored", false))
						rows++
					}
				}
				cmd.Process.Kill()
				cmd.Wait()
			}
		}
	}
	return rows
}

func listDir(root string) map[string]string {
	out := map[string]string{}
	filepath.Walk(root, func(p string, info os.FileInfo, err error) error {
		if err == nil && !info.IsDir() {
			rel, _ := filepath.Rel(root, p)
			out[rel] = fmt.Sprint(info.Size(), info.ModTime().UnixNano())
		}
		return nil
	})
	return out
}

// one decoding step, as a server does on the request line: %2e -> ".", %2f -> "/", %25 -> "%" (so that %252e -> %2e)
func urlUnescape(p string) (string, error) {
	var b strings.Builder
	for i := 0; i < len(p); i++ {
		if p[i] == '%' && i+2 < len(p)+0 && i+2 <= len(p)-1 {
			switch strings.ToLower(p[i+1 : i+3]) {
			case "2e":
				b.WriteByte('.')
				i += 2
				continue
			case "2f":
				b.WriteByte('/')
				i += 2
				continue
			case "25":
				b.WriteByte('%')
				i += 2
				continue
			}
		}
		b.WriteByte(p[i])
	}
	return b.String(), nil
}
