// c15 sends every row of the request table (method x path class x authorization class x body class) to the real
// chunk and index handlers in every server configuration, over a sandboxed store with sentinel files in the parent
// and sibling directories; store calls are logged by a wrapper, the sandbox is snapshotted before and after.
package main

import (
	"bytes"
	"crypto/sha256"
	"flag"
	"fmt"
	"io"
	"math/rand"
	"net/http"
	"net/http/httptest"
	"os"
	"path/filepath"
	"sort"
	"strings"
	"sync"

	"github.com/folbricht/desync"

	"verif/harness/trace"
)

type logStore struct {
	desync.WriteStore
	mu    sync.Mutex
	calls map[string]bool
}

func (l *logStore) mark(s string) { l.mu.Lock(); l.calls[s] = true; l.mu.Unlock() }
func (l *logStore) GetChunk(id desync.ChunkID) (*desync.Chunk, error) {
	l.mark("get")
	return l.WriteStore.GetChunk(id)
}
func (l *logStore) HasChunk(id desync.ChunkID) (bool, error) {
	l.mark("has")
	return l.WriteStore.HasChunk(id)
}
func (l *logStore) StoreChunk(c *desync.Chunk) error {
	l.mark("store")
	return l.WriteStore.StoreChunk(c)
}

type logIndex struct {
	desync.LocalIndexStore
	mu    sync.Mutex
	calls map[string]bool
}

func (l *logIndex) mark(s string) { l.mu.Lock(); l.calls[s] = true; l.mu.Unlock() }
func (l *logIndex) GetIndexReader(n string) (io.ReadCloser, error) {
	l.mark("has")
	return l.LocalIndexStore.GetIndexReader(n)
}
func (l *logIndex) GetIndex(n string) (desync.Index, error) {
	l.mark("get")
	return l.LocalIndexStore.GetIndex(n)
}
func (l *logIndex) StoreIndex(n string, i desync.Index) error {
	l.mark("store")
	return l.LocalIndexStore.StoreIndex(n, i)
}

func snapshot(root string) map[string]string {
	out := map[string]string{}
	filepath.Walk(root, func(p string, info os.FileInfo, err error) error {
		if err != nil {
			return nil
		}
		rel, _ := filepath.Rel(root, p)
		if info.IsDir() {
			out[rel] = "dir"
			return nil
		}
		b, _ := os.ReadFile(p)
		out[rel] = fmt.Sprintf("%x:%o", sha256.Sum256(b), info.Mode().Perm())
		return nil
	})
	return out
}

func diff(a, b map[string]string) []string {
	seen := map[string]bool{}
	for k, v := range a {
		if b[k] != v {
			seen[k] = true
		}
	}
	for k, v := range b {
		if a[k] != v {
			seen[k] = true
		}
	}
	out := []string{}
	for k := range seen {
		out = append(out, k)
	}
	sort.Strings(out)
	return out
}

const sentinel = "SENTINEL-DO-NOT-SERVE-0123456789"

func main() {
	seed := flag.Int64("seed", 1, "seed")
	variants := flag.Int("variants", 1, "concrete strings per class")
	out := flag.String("out", "", "trace output")
	dir := flag.String("dir", "", "scratch dir")
	flag.Parse()
	w, err := trace.Create(*out)
	if err != nil {
		fmt.Fprintln(os.Stderr, err)
		os.Exit(2)
	}
	r := rand.New(rand.NewSource(*seed))
	rows := 0
	auth := "Bearer s3cr3t-Token"
	authClasses := map[string][]string{"none": {""}, "wrong": {"Bearer other", "x"}, "right": {auth}, "case": {"bearer s3cr3t-token", "BEARER S3CR3T-TOKEN"},
		"space": {" " + auth, auth + " "}, "prefix": {auth + "x", auth[:len(auth)-1]}}
	for _, kind := range []string{"chunk", "index"} {
		for _, authset := range []bool{false, true} {
			for _, writable := range []bool{false, true} {
				for _, verifywrite := range []bool{false, true} {
					for _, compressed := range []bool{false, true} {
						if kind == "index" && (verifywrite || compressed) {
							continue
						}
						for v := 0; v < *variants; v++ {
							// ---- sandbox
							sb := filepath.Join(*dir, "sandbox")
							os.RemoveAll(sb)
							served := filepath.Join(sb, "served")
							os.MkdirAll(filepath.Join(sb, "sibling"), 0755)
							os.MkdirAll(served, 0755)
							os.WriteFile(filepath.Join(sb, "secret.txt"), []byte(sentinel), 0644)
							os.WriteFile(filepath.Join(sb, "sibling", "secret.caibx"), []byte(sentinel), 0644)
							data := make([]byte, 200+r.Intn(200))
							r.Read(data)
							other := make([]byte, 100)
							r.Read(other)
							id := desync.NewChunk(data).ID()
							missing := desync.NewChunk(other).ID()
							ls, _ := desync.NewLocalStore(served, desync.StoreOptions{Uncompressed: !compressed})
							ls.StoreChunk(desync.NewChunk(data))
							// a chunk-named sentinel in the sibling directory
							sib, _ := desync.NewLocalStore(filepath.Join(sb, "sibling"), desync.StoreOptions{Uncompressed: !compressed})
							sib.StoreChunk(desync.NewChunk(other))
							idx := desync.Index{Index: desync.FormatIndex{FeatureFlags: desync.CaFormatExcludeNoDump | desync.CaFormatSHA512256, ChunkSizeMin: 1, ChunkSizeAvg: 2, ChunkSizeMax: 1000},
								Chunks: []desync.IndexChunk{{ID: id, Start: 0, Size: uint64(len(data))}}}
							var ib bytes.Buffer
							idx.WriteTo(&ib)
							os.WriteFile(filepath.Join(served, "x.caibx"), ib.Bytes(), 0644)
							lst := &logStore{WriteStore: ls, calls: map[string]bool{}}
							lis, _ := desync.NewLocalIndexStore(served)
							lix := &logIndex{LocalIndexStore: lis, calls: map[string]bool{}}
							a := ""
							if authset {
								a = auth
							}
							var h http.Handler
							var conv desync.Converters
							if compressed {
								conv = desync.Converters{desync.Compressor{}}
							}
							ext := ""
							if compressed {
								ext = ".cacnk"
							}
							if kind == "chunk" {
								h = desync.NewHTTPHandler(lst, writable, !verifywrite, conv, a)
							} else {
								h = desync.NewHTTPIndexHandler(lix, writable, a)
							}
							sid, smiss := id.String(), missing.String()
							name := func(s string) string { return "/" + s[:4] + "/" + s + ext }
							otherExt := ".cacnk"
							if compressed {
								otherExt = ""
							}
							var paths map[string][]string
							if kind == "chunk" {
								paths = map[string][]string{
									"ok": {name(sid)}, "okmissing": {name(smiss)},
									"wrongprefix": {"/0000/" + sid + ext, "/" + sid + ext, "/x/" + sid[:4] + "/" + sid + ext},
									"dotdot":      {"/" + sid[:4] + "/../" + sid[:4] + "/" + sid + ext, "/../sibling" + name(smiss), "/" + smiss[:4] + "/../../sibling/" + smiss[:4] + "/" + smiss + ext},
									"encoded":     {"/%2e%2e/sibling" + name(smiss), "/" + sid[:4] + "/%2e%2e/" + sid[:4] + "/" + sid + ext},
									"absolute":    {filepath.Join(sb, "sibling", smiss[:4], smiss+ext), "//" + sid[:4] + "/" + sid + ext},
									"empty":       {"/", ""},
									"overlong":    {name(sid + strings.Repeat("a", 300)), "/" + strings.Repeat("a/", 200)},
									"shortid":     {"/ab/ab" + ext, "/" + sid[:4] + "/" + sid[:20] + ext},
									"nothex":      {"/zzzz/" + strings.Repeat("z", 64) + ext},
								}
								if compressed {
									paths["nosuffix"] = []string{"/" + sid[:4] + "/" + sid}
									paths["othersuffix"] = []string{"/" + sid[:4] + "/" + sid + ".tmp", "/" + sid[:4] + "/" + sid + ".cacnk.bak"}
								} else {
									paths["othersuffix"] = []string{"/" + sid[:4] + "/" + sid + otherExt, "/" + sid[:4] + "/" + sid + ".x"}
								}
							} else {
								// an index server reduces every path to its base name
								paths = map[string][]string{
									"ok":        {"/x.caibx", "/sub/x.caibx", "/../x.caibx", "/a/../../x.caibx", "//x.caibx"},
									"okmissing": {"/y.caibx", "/../sibling/secret2.caibx", "/%2e%2e/nothing.caibx"},
								}
							}
							classes := []string{}
							for c := range paths {
								classes = append(classes, c)
							}
							sort.Strings(classes)
							for _, method := range []string{"GET", "HEAD", "PUT", "DELETE", "POST"} {
								for _, pc := range classes {
									for ac, avals := range authClasses {
										bodies := []string{"valid"}
										if method == "PUT" {
											bodies = []string{"valid", "mismatch", "garbage", "empty"}
										}
										for _, bc := range bodies {
											p := paths[pc][r.Intn(len(paths[pc]))]
											av := avals[r.Intn(len(avals))]
											// target object and body
											target, tid := "", id
											if pc == "okmissing" {
												tid = missing
											}
											var body []byte
											if kind == "chunk" {
												target = filepath.Join(tid.String()[:4], tid.String()+ext)
												src := data
												if pc == "okmissing" {
													src = other
												}
												switch bc {
												case "valid":
													body = src
												case "mismatch":
													body = append([]byte("x"), src...)
												case "garbage":
													body = []byte("\x00\x01garbage")
												}
												if compressed && bc != "garbage" && bc != "empty" {
													body, _ = desync.Compress(body)
												}
											} else {
												target = filepath.Base(p)
												if strings.Contains(p, "%2e") {
													target = "nothing.caibx"
												}
												switch bc {
												case "valid":
													body = ib.Bytes()
												case "mismatch":
													body = ib.Bytes()[:ib.Len()-9]
												case "garbage":
													body = []byte("not an index at all")
												}
											}
											lst.calls, lix.calls = map[string]bool{}, map[string]bool{}
											before := snapshot(sb)
											req := httptest.NewRequest(method, "http://server/", bytes.NewReader(body))
											req.URL.Path = p
											if strings.Contains(p, "%") {
												if up, err := urlUnescape(p); err == nil {
													req.URL.Path = up
													req.URL.RawPath = p
												}
											}
											if ac != "none" {
												req.Header.Set("Authorization", av)
											}
											rec := httptest.NewRecorder()
											h.ServeHTTP(rec, req)
											after := snapshot(sb)
											changedAll := diff(before, after)
											changed, outside := []string{}, false
											for _, c := range changedAll {
												if strings.HasPrefix(c, "served/") {
													rel := strings.TrimPrefix(c, "served/")
													if after[c] == "dir" || before[c] == "dir" {
														continue // prefix directories created for a stored chunk
													}
													changed = append(changed, rel)
												} else if c != "served" {
													outside = true
												}
											}
											called := []string{}
											for c := range lst.calls {
												called = append(called, c)
											}
											for c := range lix.calls {
												called = append(called, c)
											}
											resp := rec.Body.Bytes()
											dataok := false
											if method == "GET" && rec.Code == 200 {
												if kind == "chunk" {
													want := data
													if compressed {
														want, _ = desync.Decompress(nil, resp)
														dataok = bytes.Equal(want, data)
													} else {
														dataok = bytes.Equal(resp, want)
													}
												} else {
													dataok = bytes.Equal(resp, ib.Bytes())
												}
											}
											stored := false
											if method == "PUT" && rec.Code == 200 {
												if kind == "chunk" {
													c, err := ls.GetChunk(tid)
													stored = err == nil && c != nil
												} else {
													_, err := os.Stat(filepath.Join(served, target))
													stored = err == nil
												}
											}
											w.Emit(trace.M("ev", "row", "kind", kind, "authset", authset, "writable", writable, "verifywrite", verifywrite, "compressed", compressed,
												"method", method, "pathclass", pc, "path", p, "authclass", ac, "bodyclass", bc, "target", target, "status", rec.Code,
												"called", called, "changed", changed, "outside", outside, "leaked", bytes.Contains(resp, []byte(sentinel)), "dataok", dataok, "stored", stored))
											rows++
											// restore the served store for the next row
											if len(changedAll) > 0 {
												os.RemoveAll(served)
												os.MkdirAll(served, 0755)
												ls.StoreChunk(desync.NewChunk(data))
												os.WriteFile(filepath.Join(served, "x.caibx"), ib.Bytes(), 0644)
											}
										}
									}
								}
							}
						}
					}
				}
			}
		}
	}
	if err := w.Close(); err != nil {
		fmt.Fprintln(os.Stderr, err)
		os.Exit(2)
	}
	fmt.Printf("rows=%d\n", rows)
}

func urlUnescape(p string) (string, error) {
	p = strings.ReplaceAll(p, "%2e", ".")
	p = strings.ReplaceAll(p, "%2f", "/")
	return p, nil
}
