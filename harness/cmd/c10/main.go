// c10 drives the real SparseFile (handles, save-state, restart with lost / resized cache file, pre-load) and
// the sparse mount's node read on hand-built indexes with a store in which a changing set of chunk IDs fails;
// a second part runs concurrent readers under the gate scheduler. Every result goes to Trace_SparseFile.tla.
package main

import (
	"errors"
	"flag"
	"fmt"
	"io"
	"math/rand"
	"os"
	"path/filepath"
	"sync"
	"time"

	"github.com/folbricht/desync"

	"verif/harness/sched"
	"verif/harness/trace"
)

type store struct {
	mu      sync.Mutex
	chunks  map[desync.ChunkID][]byte
	failing map[desync.ChunkID]bool
	// failFirst: the next k requests for the ID fail, later ones succeed (a transient failure while readers overlap)
	failFirst map[desync.ChunkID]int
	nfail     int
	hook      func(string, ...interface{})
}

var errStore = errors.New("injected store failure")

// a store failure whose chain contains io.EOF (a connection closed without a response looks like this): still a failure
var errStoreEOF = fmt.Errorf("injected store failure: connection closed: %w", io.EOF)

func (s *store) failure() error {
	s.nfail++
	if s.nfail%2 == 0 {
		return errStoreEOF
	}
	return errStore
}

func (s *store) GetChunk(id desync.ChunkID) (*desync.Chunk, error) {
	if s.hook != nil {
		s.hook("st.get.enter")
		defer s.hook("st.get.exit")
	}
	s.mu.Lock()
	defer s.mu.Unlock()
	if s.failing[id] {
		return nil, s.failure()
	}
	if s.failFirst[id] > 0 {
		s.failFirst[id]--
		return nil, s.failure()
	}
	b, ok := s.chunks[id]
	if !ok {
		return nil, desync.ChunkMissing{ID: id}
	}
	return desync.NewChunk(b), nil
}
func (s *store) HasChunk(id desync.ChunkID) (bool, error) { return true, nil }
func (s *store) Close() error                             { return nil }
func (s *store) String() string                           { return "mem" }

func ints(b []byte) []int {
	out := make([]int, len(b))
	for i, x := range b {
		out[i] = int(x)
	}
	return out
}
func errClass(err error) string {
	switch {
	case err == nil:
		return "nil"
	case err == io.EOF:
		return "eof"
	}
	return "error"
}

type inst struct {
	idx    desync.Index
	chunks [][]int
	null   []byte
	st     *store
	L      int
	max    int
}

func gen(r *rand.Rand, big bool) inst {
	max := 3 + r.Intn(4)
	null := make([]byte, max)
	alpha := [][]byte{}
	for i := 0; i < 3; i++ {
		b := make([]byte, 1+r.Intn(max))
		for j := range b {
			b[j] = byte(1 + r.Intn(4))
		}
		alpha = append(alpha, b)
	}
	k := r.Intn(10)
	if big {
		k = 8 + r.Intn(12)
	}
	if r.Intn(12) == 0 {
		k = 0
	}
	in := inst{null: null, max: max, st: &store{chunks: map[desync.ChunkID][]byte{}, failing: map[desync.ChunkID]bool{}}}
	in.idx = desync.Index{Index: desync.FormatIndex{ChunkSizeMax: uint64(max)}}
	var pos uint64
	for i := 0; i < k; i++ {
		b := alpha[r.Intn(len(alpha))]
		if r.Intn(4) == 0 {
			b = null
		}
		c := desync.NewChunk(b)
		in.st.chunks[c.ID()] = b
		in.idx.Chunks = append(in.idx.Chunks, desync.IndexChunk{ID: c.ID(), Start: pos, Size: uint64(len(b))})
		pos += uint64(len(b))
		in.chunks = append(in.chunks, ints(b))
	}
	if in.chunks == nil {
		in.chunks = [][]int{}
	}
	in.L = int(pos)
	return in
}

func guarded(w *trace.Writer, f func()) (ok bool) {
	defer func() {
		if p := recover(); p != nil {
			w.Emit(trace.M("ev", "panic", "what", fmt.Sprint(p)))
			ok = false
		}
	}()
	f()
	return true
}

func main() {
	seed := flag.Int64("seed", 1, "seed")
	n := flag.Int("n", 200, "sequential scenarios")
	ops := flag.Int("ops", 40, "operations per scenario")
	conc := flag.Int("conc", 30, "concurrent scenarios")
	out := flag.String("out", "", "trace output")
	dir := flag.String("dir", "", "scratch directory")
	flag.Parse()
	w, err := trace.Create(*out)
	if err != nil {
		fmt.Fprintln(os.Stderr, err)
		os.Exit(2)
	}
	os.MkdirAll(*dir, 0755)
	r := rand.New(rand.NewSource(*seed))
	cacheFile := filepath.Join(*dir, "cache")
	stateFile := filepath.Join(*dir, "state")
	for sc := 1; sc <= *n; sc++ {
		in := gen(r, false)
		os.Remove(cacheFile)
		os.Remove(stateFile)
		w.Emit(trace.M("ev", "reset", "scen", sc, "chunks", in.chunks, "nullc", ints(in.null)))
		var sf *desync.SparseFile
		var hs []*desync.SparseFileHandle
		var mount func([]byte, int64) ([]byte, int)
		open := func(opt desync.SparseFileOptions) bool {
			var err error
			okp := guarded(w, func() {
				sf, err = desync.NewSparseFile(cacheFile, in.idx, in.st, opt)
				if err != nil {
					return
				}
				hs = nil
				for i := 0; i < 2; i++ {
					h, e := sf.Open()
					if e != nil {
						err = e
						return
					}
					hs = append(hs, h)
				}
				mount, err = desync.VerifSparseFileRead(sf)
			})
			return okp && err == nil
		}
		if !open(desync.SparseFileOptions{StateSaveFile: stateFile}) {
			w.Emit(trace.M("ev", "restart", "kind", "state", "ok", false, "hadstate", false))
			continue
		}
		alive := true
		for o := 0; o < *ops && alive; o++ {
			switch x := r.Intn(14); {
			case x == 0:
				ids := [][]int{}
				in.st.failing = map[desync.ChunkID]bool{}
				for _, c := range in.idx.Chunks {
					if r.Intn(3) == 0 && !in.st.failing[c.ID] && len(in.st.chunks[c.ID]) > 0 && in.st.chunks[c.ID][0] != 0 {
						in.st.failing[c.ID] = true
						ids = append(ids, ints(in.st.chunks[c.ID]))
					}
				}
				w.Emit(trace.M("ev", "failing", "ids", ids))
			case x == 1:
				guarded(w, func() { sf.WriteState() })
				w.Emit(trace.M("ev", "save"))
			case x == 2:
				// restart: a new object on the same files; sometimes the cache file is lost or resized in between,
				// sometimes the state is only used to pre-load
				kind := []string{"state", "state", "lose", "resize", "preload"}[r.Intn(5)]
				if _, err := os.Stat(stateFile); err != nil && kind == "preload" {
					kind = "state"
				}
				for _, h := range hs {
					h.Close()
				}
				// most incarnations end cleanly (state saved on exit), some do not
				if r.Intn(4) != 0 {
					guarded(w, func() { sf.WriteState() })
					w.Emit(trace.M("ev", "save"))
				}
				_, serr := os.Stat(stateFile)
				hadState := serr == nil
				opt := desync.SparseFileOptions{StateSaveFile: stateFile}
				switch kind {
				case "lose":
					os.Remove(cacheFile)
				case "resize":
					os.Truncate(cacheFile, int64(in.L+1+r.Intn(3)))
				case "preload":
					os.Remove(cacheFile)
					initFile := stateFile + ".init"
					b, _ := os.ReadFile(stateFile)
					os.WriteFile(initFile, b, 0644)
					os.Remove(stateFile)
					opt = desync.SparseFileOptions{StateSaveFile: stateFile, StateInitFile: initFile, StateInitConcurrency: 2}
				}
				ok := open(opt)
				if kind == "preload" {
					time.Sleep(2 * time.Millisecond) // let the background pre-load make progress (or not)
				}
				w.Emit(trace.M("ev", "restart", "kind", kind, "ok", ok, "hadstate", hadState && kind != "preload"))
				alive = ok
			default:
				off := r.Intn(in.L + 3)
				m := []int{0, 1, 2, in.max, 2*in.max + 1, in.L + 2, r.Intn(in.L + 2)}[r.Intn(7)]
				buf := make([]byte, m)
				for i := range buf {
					buf[i] = 0xEE
				}
				if x < 12 {
					var nn int
					var err error
					if guarded(w, func() { nn, err = hs[r.Intn(len(hs))].ReadAt(buf, int64(off)) }) {
						w.Emit(trace.M("ev", "read", "off", off, "m", m, "n", nn, "data", ints(buf[:nn]), "err", errClass(err), "via", "handle"))
					} else {
						alive = false
					}
				} else {
					var b []byte
					var errno int
					if guarded(w, func() { b, errno = mount(buf, int64(off)) }) {
						e := "nil"
						if errno != 0 {
							e = "error"
						} else if off+len(b) >= in.L && len(b) < m {
							e = "eof"
						}
						w.Emit(trace.M("ev", "read", "off", off, "m", m, "n", len(b), "data", ints(b), "err", e, "via", "mount"))
					} else {
						alive = false
					}
				}
			}
		}
		for _, h := range hs {
			h.Close()
		}
	}
	// concurrent readers on several handles of one fresh sparse file, store and loader gated
	for c := 1; c <= *conc; c++ {
		in := gen(r, true)
		os.Remove(cacheFile)
		os.Remove(stateFile)
		s := sched.New(&sched.Random{R: rand.New(rand.NewSource(*seed*77 + int64(c)))}, map[string]sched.Kind{})
		s.Watchdog = 20 * time.Millisecond
		in.st.hook = s.Hook
		desync.VerifHook = s.Hook
		sf, err := desync.NewSparseFile(cacheFile, in.idx, in.st, desync.SparseFileOptions{StateSaveFile: stateFile})
		if err != nil {
			fmt.Fprintln(os.Stderr, err)
			os.Exit(2)
		}
		// every second scenario: the first request(s) for one or two chunks fail, later ones succeed
		transient := [][]int{}
		if c%2 == 0 {
			in.st.failFirst = map[desync.ChunkID]int{}
			for k := 0; k < 1+r.Intn(2) && len(in.idx.Chunks) > 0; k++ {
				id := in.idx.Chunks[r.Intn(len(in.idx.Chunks))].ID
				if _, ok := in.st.failFirst[id]; !ok {
					in.st.failFirst[id] = 1 + r.Intn(2)
					transient = append(transient, ints(in.st.chunks[id]))
				}
			}
		}
		nr := 2 + r.Intn(3)
		type rq struct{ off, m int }
		reqs := make([][]rq, nr)
		for i := range reqs {
			for j := 0; j < 2; j++ {
				off := r.Intn(in.L + 1)
				reqs[i] = append(reqs[i], rq{off, 1 + r.Intn(2*in.max)})
			}
		}
		var mu sync.Mutex
		var results []map[string]interface{}
		_, herr := s.Run(func() {
			var wg sync.WaitGroup
			for i := range reqs {
				wg.Add(1)
				go func(i int) {
					defer wg.Done()
					s.Name(fmt.Sprintf("r%d", i+1))
					h, _ := sf.Open()
					defer h.Close()
					for _, q := range reqs[i] {
						s.Hook("read.call")
						buf := make([]byte, q.m)
						var nn int
						var err error
						okp := func() (ok bool) {
							defer func() {
								if recover() != nil {
									ok = false
								}
							}()
							nn, err = h.ReadAt(buf, int64(q.off))
							return true
						}()
						mu.Lock()
						if okp {
							results = append(results, trace.M("ev", "cread", "off", q.off, "m", q.m, "n", nn, "data", ints(buf[:nn]), "err", errClass(err)))
						} else {
							results = append(results, trace.M("ev", "panic", "what", "ReadAt panicked"))
						}
						mu.Unlock()
					}
					s.Leave()
				}(i)
			}
			wg.Wait()
		})
		desync.VerifHook = nil
		w.Emit(trace.M("ev", "reset", "scen", *n+c, "chunks", in.chunks, "nullc", ints(in.null), "concurrent", nr))
		if len(transient) > 0 {
			w.Emit(trace.M("ev", "failing", "ids", transient))
		}
		for _, m := range results {
			w.Emit(m)
		}
		if herr != nil {
			w.Emit(trace.M("ev", "panic", "what", "concurrent readers did not finish (hang)"))
		}
	}
	if err := w.Close(); err != nil {
		fmt.Fprintln(os.Stderr, err)
		os.Exit(2)
	}
	fmt.Printf("scenarios=%d concurrent=%d events=%d\n", *n, *conc, w.N)
}
