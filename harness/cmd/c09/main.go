// c09 drives the real IndexPos (Seek/Read) and the index mount's file handle read on hand-built indexes
// (chunks of 1..5 bytes, the null chunk, repeated IDs) with random operation sequences and a store in which a
// changing set of chunk IDs fails, and records every call with its result for Trace_ReadSeeker.tla.
package main

import (
	"errors"
	"flag"
	"fmt"
	"io"
	"math/rand"
	"os"
	"time"

	"github.com/folbricht/desync"

	"sync"
	"verif/harness/fakes"
	"verif/harness/sched"
	"verif/harness/trace"
)

type store struct {
	chunks  map[desync.ChunkID][]byte
	failing map[desync.ChunkID]bool
}

var errStore = errors.New("injected store failure")

func (s *store) GetChunk(id desync.ChunkID) (*desync.Chunk, error) {
	if s.failing[id] {
		if len(id) > 0 && id[0]%2 == 0 { // for half of the IDs: a failure whose chain contains io.EOF (a dropped connection) - still a failure
			return nil, fmt.Errorf("injected store failure: connection closed: %w", io.EOF)
		}
		return nil, errStore
	}
	b, ok := s.chunks[id]
	if !ok {
		return nil, desync.ChunkMissing{ID: id}
	}
	return desync.NewChunk(b), nil
}
func (s *store) HasChunk(id desync.ChunkID) (bool, error) { _, ok := s.chunks[id]; return ok, nil }
func (s *store) Close() error                             { return nil }
func (s *store) String() string                           { return "mem" }

// gatedRO parks every GetChunk in the scheduler (enter / exit)
type gatedRO struct {
	inner *store
	hook  func(string, ...interface{})
}

func (g *gatedRO) GetChunk(id desync.ChunkID) (*desync.Chunk, error) {
	g.hook("st.get.enter")
	c, err := g.inner.GetChunk(id)
	g.hook("st.get.exit")
	return c, err
}
func (g *gatedRO) HasChunk(id desync.ChunkID) (bool, error) { return g.inner.HasChunk(id) }
func (g *gatedRO) Close() error                             { return nil }
func (g *gatedRO) String() string                           { return "gated" }

func ints(b []byte) []int {
	out := make([]int, len(b))
	for i, x := range b {
		out[i] = int(x)
	}
	return out
}

func errClass(err error) string {
	switch {
	case err == nil:
		return "nil"
	case err == io.EOF:
		return "eof"
	}
	return "error"
}

// guard runs one call of the real reader; a call that does not return within 10 s is recorded as a hang and ends the run
// (the spinning goroutine cannot be stopped): exit status 4, the trace so far is complete.
func guard(w *trace.Writer, op string, f func()) {
	done := make(chan struct{})
	go func() { defer close(done); f() }()
	select {
	case <-done:
	case <-time.After(10 * time.Second):
		w.Emit(trace.M("ev", "hang", "op", op))
		w.Close()
		fmt.Fprintln(os.Stderr, "HANG: the reader did not return from", op)
		os.Exit(4)
	}
}

func main() {
	seed := flag.Int64("seed", 1, "seed")
	n := flag.Int("n", 200, "scenarios")
	ops := flag.Int("ops", 40, "operations per scenario")
	out := flag.String("out", "", "trace output")
	conc := flag.Int("conc", 20, "scenarios with concurrent requests on one mount handle")
	flag.Parse()
	w, err := trace.Create(*out)
	if err != nil {
		fmt.Fprintln(os.Stderr, err)
		os.Exit(2)
	}
	r := rand.New(rand.NewSource(*seed))
	for sc := 1; sc <= *n; sc++ {
		max := 3 + r.Intn(4)
		null := make([]byte, max)
		alpha := [][]byte{null}
		for i := 0; i < 3; i++ {
			b := make([]byte, 1+r.Intn(max))
			for j := range b {
				b[j] = byte(r.Intn(4))
			}
			alpha = append(alpha, b)
		}
		alpha = append(alpha, make([]byte, 1+r.Intn(max-1))) // zeros, but shorter than the null chunk
		k := r.Intn(10)
		if r.Intn(10) == 0 {
			k = 0
		}
		st := &store{chunks: map[desync.ChunkID][]byte{}, failing: map[desync.ChunkID]bool{}}
		idx := desync.Index{Index: desync.FormatIndex{ChunkSizeMax: uint64(max)}}
		var chunks [][]int
		var pos uint64
		for i := 0; i < k; i++ {
			var b []byte
			if r.Intn(3) == 0 {
				b = null // runs of null chunks
			} else {
				b = alpha[r.Intn(len(alpha))]
			}
			c := desync.NewChunk(b)
			st.chunks[c.ID()] = b
			idx.Chunks = append(idx.Chunks, desync.IndexChunk{ID: c.ID(), Start: pos, Size: uint64(len(b))})
			pos += uint64(len(b))
			chunks = append(chunks, ints(b))
		}
		if chunks == nil {
			chunks = [][]int{}
		}
		L := int(pos)
		w.Emit(trace.M("ev", "reset", "scen", sc, "chunks", chunks, "max", max))
		// constructing the reader must not panic (also for an empty blob)
		var rs *desync.IndexPos
		var fuse func([]byte, int64) ([]byte, int)
		panicked := func() (p bool) {
			defer func() {
				if recover() != nil {
					p = true
				}
			}()
			rs = desync.NewIndexReadSeeker(idx, st)
			fuse = desync.VerifIndexFileRead(idx, st)
			return false
		}()
		w.Emit(trace.M("ev", "new", "panic", panicked))
		if panicked {
			continue
		}
		for o := 0; o < *ops; o++ {
			switch x := r.Intn(12); {
			case x == 0: // change the failing set
				ids := [][]int{}
				st.failing = map[desync.ChunkID]bool{}
				for _, c := range idx.Chunks {
					if r.Intn(4) == 0 && !st.failing[c.ID] {
						st.failing[c.ID] = true
						ids = append(ids, ints(st.chunks[c.ID]))
					}
				}
				w.Emit(trace.M("ev", "failing", "ids", ids))
			case x == 1: // a new handle
				rs = desync.NewIndexReadSeeker(idx, st)
				fuse = desync.VerifIndexFileRead(idx, st)
				w.Emit(trace.M("ev", "open"))
			case x < 5:
				whence := r.Intn(3)
				d := r.Intn(L+6) - 3
				if whence == 2 {
					d = -r.Intn(L+4) + 2
				}
				if whence == 1 {
					d = r.Intn(2*max+1) - max
				}
				var np int64
				var err error
				guard(w, "seek", func() { np, err = rs.Seek(int64(d), whence) })
				w.Emit(trace.M("ev", "seek", "whence", whence, "d", d, "np", np, "err", errClass(err)))
			case x < 9:
				m := []int{0, 1, 2, max, max + 1, 2 * max, L + 3, r.Intn(L + 2)}[r.Intn(8)]
				buf := make([]byte, m)
				for i := range buf {
					buf[i] = 0xEE
				}
				var nn int
				var err error
				guard(w, "read", func() { nn, err = rs.Read(buf) })
				w.Emit(trace.M("ev", "read", "m", m, "n", nn, "data", ints(buf[:nn]), "err", errClass(err)))
			default: // FUSE handle read(off, size), its own position
				off := r.Intn(L + 3)
				m := []int{0, 1, max, 2*max + 1, L + 2, r.Intn(L + 2)}[r.Intn(6)]
				buf := make([]byte, m)
				var b []byte
				var errno int
				guard(w, "fuse", func() { b, errno = fuse(buf, int64(off)) })
				w.Emit(trace.M("ev", "fuse", "off", off, "m", m, "n", len(b), "data", ints(b), "errno", errno))
			}
		}
	}
	// concurrent requests on ONE mount handle: the store is gated, so a second request can be scheduled while
	// the first one is inside the store
	for c := 1; c <= *conc; c++ {
		max := 4
		st := &store{chunks: map[desync.ChunkID][]byte{}, failing: map[desync.ChunkID]bool{}}
		idx := desync.Index{Index: desync.FormatIndex{ChunkSizeMax: uint64(max)}}
		var chunks [][]int
		var pos uint64
		for i := 0; i < 6; i++ {
			b := make([]byte, 2+r.Intn(3))
			for j := range b {
				b[j] = byte(1 + r.Intn(200))
			}
			ch := desync.NewChunk(b)
			st.chunks[ch.ID()] = b
			idx.Chunks = append(idx.Chunks, desync.IndexChunk{ID: ch.ID(), Start: pos, Size: uint64(len(b))})
			pos += uint64(len(b))
			chunks = append(chunks, ints(b))
		}
		L := int(pos)
		s := sched.New(&sched.Random{R: rand.New(rand.NewSource(*seed*31 + int64(c)))}, map[string]sched.Kind{})
		s.Watchdog = 20 * 1000 * 1000 // 20ms: the second request blocks on the handle's mutex without telling us
		gs := &gatedRO{inner: st, hook: s.Hook}
		fuse := desync.VerifIndexFileRead(idx, gs)
		// every second scenario: each request comes in on a handle of its own, opened on the same file node
		open := desync.VerifIndexFileOpen(idx, gs)
		perHandle := c%2 == 0
		type req struct{ off, m int }
		reqs := []req{{r.Intn(L), 1 + r.Intn(2*max)}, {r.Intn(L), 1 + r.Intn(2*max)}, {r.Intn(L), 1 + r.Intn(2*max)}}
		results := make([]map[string]interface{}, len(reqs))
		s.Run(func() {
			var wg sync.WaitGroup
			for i, q := range reqs {
				wg.Add(1)
				go func(i int, q req) {
					defer wg.Done()
					s.Name(fmt.Sprintf("r%d", i+1))
					read := fuse
					if perHandle {
						read = open()
					}
					s.Hook("fuse.call")
					b, errno := read(make([]byte, q.m), int64(q.off))
					results[i] = trace.M("ev", "fuse", "off", q.off, "m", q.m, "n", len(b), "data", ints(b), "errno", errno)
					s.Leave()
				}(i, q)
			}
			wg.Wait()
		})
		w.Emit(trace.M("ev", "reset", "scen", *n+c, "chunks", chunks, "max", max, "concurrent", true))
		for _, m := range results {
			w.Emit(m)
		}
	}
	_ = fakes.ErrInjected
	if err := w.Close(); err != nil {
		fmt.Fprintln(os.Stderr, err)
		os.Exit(2)
	}
	fmt.Printf("scenarios=%d concurrent=%d events=%d\n", *n, *conc, w.N)
}
