// c19 feeds the real decoders (FormatDecoder.Next, ArchiveDecoder.Next, IndexFromReader, Protocol.ReadMessage/RecvHello/
// RequestChunk, ProtocolServer.Serve, the index handler's PUT, IndexFromFile's header sniffing) with enumerated element
// classes (every element type x size-field class x availability), element-order sequences, every truncation of valid files
// and random/mutated byte strings, and records outcome, panic and bytes allocated per case for Trace_FormatDecoder.tla.
//
// The parent process runs the cases in a child with a bounded address space; a child that dies (fatal out-of-memory cannot
// be recovered in Go) is attributed to the case it had begun, and the run continues after it.
package main

import (
	"bufio"
	"bytes"
	"context"
	"encoding/binary"
	"encoding/hex"
	"encoding/json"
	"flag"
	"fmt"
	"io"
	"math/rand"
	"net/http"
	"net/http/httptest"
	"os"
	"os/exec"
	"path/filepath"
	"runtime"
	"strings"
	"syscall"
	"time"

	"github.com/folbricht/desync"

	"verif/harness/oracle"
	"verif/harness/trace"
)

type J = map[string]interface{}

const (
	tEntry       = 0x1396fabcea5bbb51
	tUser        = 0xf453131aaeeaccb3
	tGroup       = 0x25eb6ac969396a52
	tXAttr       = 0xb8157091f80bc486
	tACLUser     = 0x297dc88b2ef12faf
	tACLGroup    = 0x36f2acb56cb3dd0b
	tACLGroupObj = 0x23047110441f38f3
	tACLDefault  = 0xfe3eeda6823c8cd0
	tACLDefUser  = 0xbdf03df9bd010a91
	tACLDefGroup = 0xa0cb1168782d1f51
	tFCaps       = 0xf7267db0afed0629
	tSELinux     = 0x46faf0602fd26c59
	tSymlink     = 0x664a6fb6830e0d6c
	tDevice      = 0xac3dace369dfe643
	tPayload     = 0x8b9e1d93d6dcffc9
	tFilename    = 0x6dbb6ebcb3161f0b
	tGoodbye     = 0xdfd35c5e8327c403
	tGbTail      = 0x57446fa533702943
	tIndex       = 0x96824d9c7b129ff9
	tTable       = 0xe75b9e112f17417d
	tTableTail   = 0x4b4f050e5549ecd1
	pHello       = 0x3c71d0948ca5fbee
	pRequest     = 0x8ab427e0f89d9210
	pChunk       = 0x5213dd180a84bc8c
	pMissing     = 0xd010f9fac82b7b6c
	pGoodbye     = 0xad205dbf1a3686c3
	pAbort       = 0xe7d9136b7efea352
	sha512bit    = 0x2000000000000000
	standIn      = 1000000000 // model stand-in for any size >= 2^31
)

var typeCode = map[string]uint64{"entry": tEntry, "user": tUser, "group": tGroup, "xattr": tXAttr, "acluser": tACLUser, "aclgroup": tACLGroup,
	"aclgroupobj": tACLGroupObj, "acldefault": tACLDefault, "acldefuser": tACLDefUser, "acldefgroup": tACLDefGroup, "fcaps": tFCaps,
	"selinux": tSELinux, "symlink": tSymlink, "device": tDevice, "payload": tPayload, "filename": tFilename, "goodbye": tGoodbye,
	"index": tIndex, "table": tTable, "unknown": 0x1234567812345678}

var typeNames = []string{"entry", "user", "group", "xattr", "acluser", "aclgroup", "aclgroupobj", "acldefault", "acldefuser", "acldefgroup",
	"fcaps", "selinux", "symlink", "device", "payload", "filename", "goodbye", "index", "table", "unknown"}

// one element of an element-class stream
type elem struct {
	T     string
	Size  uint64
	Avail int    // bytes present after the header
	Hdr   string // full | partial
	Nul   bool   // string body ends in NUL
	Tail  bool   // goodbye: tail marker in the last item
}

func le(v ...uint64) []byte {
	b := make([]byte, 8*len(v))
	for i, x := range v {
		binary.LittleEndian.PutUint64(b[8*i:], x)
	}
	return b
}

func (e elem) bytes() []byte {
	h := le(e.Size, typeCode[e.T])
	if e.Hdr == "partial" {
		return h[:11]
	}
	if e.Hdr == "partial8" {
		return h[:8]
	}
	body := make([]byte, e.Avail)
	switch e.T {
	case "user", "group", "xattr", "selinux", "filename", "symlink", "acluser", "aclgroup":
		for i := range body {
			body[i] = 'x'
		}
		if e.T == "xattr" && len(body) > 3 {
			body[1] = 0 // name NUL value
		}
		if (e.T == "acluser" || e.T == "aclgroup") && len(body) >= 16 {
			copy(body, le(1000, 7))
		}
		if e.Nul && len(body) > 0 {
			body[len(body)-1] = 0
		}
	case "goodbye":
		if e.Tail && len(body) >= 24 {
			n := len(body) / 24
			copy(body[(n-1)*24:], le(0, uint64(16+n*24), tGbTail))
		}
	case "table":
		// an empty table: zero offset, zero fill, index offset, size, tail marker
		copy(body, le(0, 0, 48, 56, tTableTail))
	case "payload":
		for i := range body {
			body[i] = byte('a' + i%26)
		}
	}
	return append(h, body...)
}

// complete: all the bytes the element declares (and the decoder reads for it) are there, so that another element may follow
func (e elem) complete() bool {
	if e.Hdr != "full" || e.Size < 16 || e.Size >= 1<<12 || uint64(e.Avail) != e.Size-16 {
		return false
	}
	switch e.T {
	case "aclgroupobj":
		return e.Avail == 8
	case "acldefault", "index":
		return e.Avail == 32
	case "entry":
		return e.Avail == 48
	case "device", "acluser", "aclgroup":
		return e.Avail >= 16
	case "table":
		return false
	}
	return true
}

func modelSize(v uint64) int {
	if v >= 1<<31 {
		return standIn
	}
	return int(v)
}

func (e elem) json() J {
	return J{"t": e.T, "sz": modelSize(e.Size), "avail": e.Avail, "hdr": e.Hdr, "nul": e.Nul, "tail": e.Tail}
}

type tcase struct {
	Ep    string // format archive index proto hello request server httpput makefile
	Fam   string
	Elems []elem // format / makefile
	Kinds []string
	Extra J
	Data  []byte
}

// ---------------------------------------------------------------------------------------------------- case generation

var sizeClasses = []uint64{0, 8, 15, 16, 17, 24, 31, 32, 33, 39, 40, 41, 48, 63, 64, 65, 100, 1 << 16, 1 << 20, 1 << 31, 1 << 40, 1 << 62, 1 << 63, ^uint64(0) - 7, ^uint64(0)}

func availClasses(size uint64) []int {
	var need int
	if size >= 16 && size < 1<<12 {
		need = int(size - 16)
		out := []int{need}
		if need > 0 {
			out = append(out, 0)
		}
		if need > 1 {
			out = append(out, need-1)
		}
		if need > 16 {
			out = append(out, 8)
		}
		return out
	}
	return []int{0, 8, 100}
}

func small() elem { return elem{T: "user", Size: 16 + 5, Avail: 5, Hdr: "full", Nul: true, Tail: true} }

func genElementCases(r *rand.Rand, thorough bool) []tcase {
	var out []tcase
	for _, t := range typeNames {
		for _, sz := range sizeClasses {
			for _, av := range availClasses(sz) {
				for _, flag := range []bool{true, false} {
					e := elem{T: t, Size: sz, Avail: av, Hdr: "full", Nul: flag, Tail: flag}
					strKind := t == "user" || t == "group" || t == "xattr" || t == "selinux" || t == "filename" || t == "symlink" || t == "acluser" || t == "aclgroup" || t == "goodbye"
					if !flag && !strKind {
						continue
					}
					// alone, after a valid element, and followed by a valid element
					out = append(out, tcase{Ep: "format", Fam: "elements", Elems: []elem{e}})
					out = append(out, tcase{Ep: "format", Fam: "elements", Elems: []elem{small(), e}})
					if e.complete() {
						out = append(out, tcase{Ep: "format", Fam: "elements", Elems: []elem{e, small()}})
					}
					// the same bytes at the head of a blob handed to IndexFromFile (header sniffing)
					out = append(out, tcase{Ep: "makefile", Fam: "elements", Elems: []elem{e}})
				}
			}
		}
		for _, h := range []string{"partial", "partial8"} {
			out = append(out, tcase{Ep: "format", Fam: "elements", Elems: []elem{{T: t, Size: 64, Hdr: h}}})
			out = append(out, tcase{Ep: "format", Fam: "elements", Elems: []elem{small(), {T: t, Size: 64, Hdr: h}}})
		}
	}
	out = append(out, tcase{Ep: "format", Fam: "elements", Elems: []elem{}})
	// random pairs / triples of classes
	n := 400
	if thorough {
		n = 20000
	}
	for i := 0; i < n; i++ {
		var es []elem
		k := 2 + r.Intn(3)
		for j := 0; j < k; j++ {
			sz := sizeClasses[r.Intn(len(sizeClasses))]
			if r.Intn(2) == 0 {
				sz = uint64(16 + r.Intn(80))
			}
			avs := availClasses(sz)
			av := avs[0]
			if r.Intn(4) == 0 {
				av = avs[r.Intn(len(avs))]
			}
			fl := r.Intn(5) != 0
			es = append(es, elem{T: typeNames[r.Intn(len(typeNames))], Size: sz, Avail: av, Hdr: "full", Nul: fl, Tail: fl})
			if !es[len(es)-1].complete() {
				break // what follows would be read as this element's body
			}
		}
		out = append(out, tcase{Ep: "format", Fam: "elements", Elems: es})
	}
	return out
}

// archive element kinds for the order family
var kinds = []string{"entry_dir", "entry_file", "entry_link", "entry_dev", "attr", "xattr", "xattr_nonul", "payload", "symlink", "device", "filename", "filename_bad", "goodbye"}

func kindBytes(k string, r *rand.Rand) []byte {
	var e oracle.Enc
	switch k {
	case "entry_dir":
		e.Entry(0040755, 0, 0, 1e18)
	case "entry_file":
		e.Entry(0100644, 0, 0, 1e18)
	case "entry_link":
		e.Entry(0120777, 0, 0, 1e18)
	case "entry_dev":
		e.Entry(0020644, 0, 0, 1e18)
	case "attr":
		e.Raw(16+5, tUser, []byte("root\x00"))
	case "xattr":
		e.Raw(16+9, tXAttr, []byte("user.a\x00v\x00"))
	case "xattr_nonul":
		e.Raw(16+7, tXAttr, []byte("user.a\x00")) // the only NUL is the terminator that is stripped: no separator
	case "payload":
		e.Payload([]byte("hello"))
	case "symlink":
		e.Symlink("target")
	case "device":
		e.Raw(32, tDevice, le(1, 3))
	case "filename":
		e.Filename(fmt.Sprintf("f%d", r.Intn(1000)))
	case "filename_bad":
		e.Filename([]string{"..", "a/b", ".", ""}[r.Intn(4)])
	case "goodbye":
		e.Goodbye()
	}
	return e.Bytes()
}

func genOrderCases(r *rand.Rand, thorough bool) []tcase {
	var out []tcase
	maxLen := 3
	if thorough {
		maxLen = 4
	}
	var rec func(prefix []string)
	rec = func(prefix []string) {
		var b []byte
		for _, k := range prefix {
			b = append(b, kindBytes(k, r)...)
		}
		out = append(out, tcase{Ep: "archive", Fam: "order", Kinds: append([]string{}, prefix...), Data: b, Extra: J{"cutmid": false}})
		if len(prefix) == maxLen {
			return
		}
		for _, k := range kinds {
			rec(append(prefix, k))
		}
	}
	rec(nil)
	// longer random sequences biased to the grammar
	n := 1500
	if thorough {
		n = 40000
	}
	for i := 0; i < n; i++ {
		ks := randomKinds(r)
		// mutate: drop, duplicate or swap one element in half of the cases
		if len(ks) > 1 && r.Intn(2) == 0 {
			p := r.Intn(len(ks))
			switch r.Intn(4) {
			case 0:
				ks = append(ks[:p:p], ks[p+1:]...)
			case 1:
				ks = append(ks[:p+1:p+1], ks[p:]...)
			case 2:
				q := r.Intn(len(ks))
				ks[p], ks[q] = ks[q], ks[p]
			case 3:
				ks = ks[:p]
			}
		}
		var b []byte
		for _, k := range ks {
			b = append(b, kindBytes(k, r)...)
		}
		out = append(out, tcase{Ep: "archive", Fam: "order", Kinds: ks, Data: b, Extra: J{"cutmid": false}})
	}
	return out
}

// a random well-formed archive as a kind sequence
func randomKinds(r *rand.Rand) []string {
	var ks []string
	var node func(depth int)
	attrs := func() {
		for r.Intn(3) == 0 {
			ks = append(ks, []string{"attr", "xattr"}[r.Intn(2)])
		}
	}
	node = func(depth int) {
		switch c := r.Intn(6); {
		case c < 2 && depth < 3 || depth == 0:
			ks = append(ks, "entry_dir")
			attrs()
			for i := r.Intn(4); i > 0; i-- {
				ks = append(ks, "filename")
				node(depth + 1)
			}
			ks = append(ks, "goodbye")
		case c < 4:
			ks = append(ks, "entry_file")
			attrs()
			ks = append(ks, "payload")
		case c == 4:
			ks = append(ks, "entry_link")
			attrs()
			ks = append(ks, "symlink")
		default:
			ks = append(ks, "entry_dev")
			attrs()
			ks = append(ks, "device")
		}
	}
	node(0)
	return ks
}

func genTruncCases(r *rand.Rand, thorough bool) []tcase {
	var out []tcase
	n := 6
	if thorough {
		n = 120
	}
	for i := 0; i < n; i++ {
		ks := randomKinds(r)
		for len(ks) > 40 {
			ks = randomKinds(r)
		}
		var full []byte
		var ends []int
		for _, k := range ks {
			full = append(full, kindBytes(k, r)...)
			ends = append(ends, len(full))
		}
		for cut := 0; cut <= len(full); cut++ {
			nk, mid := 0, false
			for nk < len(ends) && ends[nk] <= cut {
				nk++
			}
			prev := 0
			if nk > 0 {
				prev = ends[nk-1]
			}
			mid = cut > prev
			out = append(out, tcase{Ep: "archive", Fam: "trunc", Kinds: ks[:nk], Data: full[:cut], Extra: J{"cutmid": mid}})
			if cut%4 == 0 || cut == len(full) { // the same through an index and a store (untar -i)
				out = append(out, tcase{Ep: "untarindex", Fam: "trunc", Kinds: ks[:nk], Data: full[:cut], Extra: J{"cutmid": mid}})
			}
		}
	}
	// every truncation of valid index files, to IndexFromReader and as the body of a PUT
	for i := 0; i < n; i++ {
		nch := r.Intn(6)
		if i == 0 {
			nch = 0
		}
		full := indexBytes(r, nch)
		for cut := 0; cut <= len(full); cut++ {
			out = append(out, tcase{Ep: "index", Fam: "trunc", Data: full[:cut], Extra: J{"complete": cut == len(full)}})
			if cut%3 == 0 || cut == len(full) {
				out = append(out, tcase{Ep: "httpput", Fam: "trunc", Data: full[:cut], Extra: J{"complete": cut == len(full)}})
			}
		}
	}
	return out
}

func indexBytes(r *rand.Rand, nch int) []byte {
	flags := uint64(0)
	if desync.Digest.Algorithm().String() == "SHA-512/256" {
		flags = sha512bit
	}
	b := le(48, tIndex, flags, 16, 64, 256, ^uint64(0), tTable)
	off := uint64(0)
	for i := 0; i < nch; i++ {
		off += uint64(1 + r.Intn(256))
		b = append(b, le(off)...)
		id := make([]byte, 32)
		r.Read(id)
		b = append(b, id...)
	}
	b = append(b, le(0, 0, 48, uint64(16+40*nch+40), tTableTail)...)
	return b
}

// protocol messages: [len class, avail]
type pmsg struct {
	Len   uint64
	Typ   uint64
	Avail int // bytes after the 16-byte header
	Hdr   string
}

func (m pmsg) bytes() []byte {
	h := le(m.Len, m.Typ)
	if m.Hdr == "partial" {
		return h[:11]
	}
	if m.Hdr == "lenonly" {
		return h[:8]
	}
	return append(h, make([]byte, m.Avail)...)
}
func (m pmsg) json() J {
	name := map[uint64]string{pHello: "hello", pRequest: "request", pChunk: "chunk", pMissing: "missing", pGoodbye: "goodbye", pAbort: "abort"}[m.Typ]
	if name == "" {
		name = "unknown"
	}
	return J{"len": modelSize(m.Len), "typ": name, "avail": m.Avail, "hdr": m.Hdr}
}

func genProtoCases(r *rand.Rand, thorough bool) []tcase {
	var out []tcase
	lens := []uint64{0, 8, 15, 16, 17, 23, 24, 25, 48, 55, 56, 57, 100, 1 << 16, 1 << 20, 1 << 31, 1 << 40, 1 << 62, 1 << 63, ^uint64(0) - 7, ^uint64(0)}
	types := []uint64{pHello, pRequest, pChunk, pMissing, pGoodbye, pAbort, 0x1111}
	for _, l := range lens {
		for _, t := range types {
			for _, av := range availClasses(l) {
				m := pmsg{Len: l, Typ: t, Avail: av, Hdr: "full"}
				for _, ep := range []string{"proto", "hello", "request", "server"} {
					out = append(out, tcase{Ep: ep, Fam: "messages", Extra: J{"msg": m.json()}, Data: m.bytes()})
				}
			}
		}
	}
	for _, h := range []string{"partial", "lenonly"} {
		m := pmsg{Len: 24, Typ: pHello, Hdr: h}
		for _, ep := range []string{"proto", "hello", "request", "server"} {
			out = append(out, tcase{Ep: ep, Fam: "messages", Extra: J{"msg": m.json()}, Data: m.bytes()})
		}
	}
	for _, ep := range []string{"proto", "hello", "request", "server"} {
		out = append(out, tcase{Ep: ep, Fam: "messages", Extra: J{"msg": J{"len": 0, "typ": "none", "avail": 0, "hdr": "none"}}, Data: nil})
	}
	return out
}

func genRandomCases(r *rand.Rand, thorough bool) []tcase {
	var out []tcase
	n := 1500
	if thorough {
		n = 60000
	}
	valid := [][]byte{indexBytes(r, 3)}
	{
		var b []byte
		for _, k := range randomKinds(r) {
			b = append(b, kindBytes(k, r)...)
		}
		valid = append(valid, b)
		valid = append(valid, append(le(24, pHello, 1), le(56, pRequest, 0, 1, 2, 3, 4)...))
	}
	magics := []uint64{}
	for _, v := range typeCode {
		magics = append(magics, v)
	}
	magics = append(magics, tGbTail, tTableTail, pHello, pRequest, pChunk, pMissing, pGoodbye, pAbort, ^uint64(0))
	eps := []string{"format", "archive", "index", "proto", "hello", "request", "server", "httpput", "makefile"}
	for i := 0; i < n; i++ {
		var b []byte
		switch r.Intn(3) {
		case 0: // random fields: magic numbers and small/huge numbers
			for j := r.Intn(12); j >= 0; j-- {
				switch r.Intn(4) {
				case 0:
					b = append(b, le(magics[r.Intn(len(magics))])...)
				case 1:
					b = append(b, le(uint64(r.Intn(100)))...)
				case 2:
					b = append(b, le(r.Uint64())...)
				default:
					x := make([]byte, r.Intn(20))
					r.Read(x)
					b = append(b, x...)
				}
			}
		case 1: // mutate a valid file: overwrite one field
			v := valid[r.Intn(len(valid))]
			b = append([]byte{}, v...)
			if len(b) >= 8 {
				p := r.Intn(len(b)/8) * 8
				x := []uint64{0, 1, 15, 16, 17, 1 << 31, 1 << 40, 1 << 63, ^uint64(0), magics[r.Intn(len(magics))], r.Uint64()}[r.Intn(11)]
				copy(b[p:], le(x))
			}
			if r.Intn(3) == 0 {
				b = b[:r.Intn(len(b)+1)]
			}
		default:
			b = make([]byte, r.Intn(200))
			r.Read(b)
		}
		out = append(out, tcase{Ep: eps[r.Intn(len(eps))], Fam: "random", Data: b})
	}
	return out
}

// ---------------------------------------------------------------------------------------------------- running one case

type nullIndexStore struct{}

func (nullIndexStore) GetIndexReader(name string) (io.ReadCloser, error) { return nil, os.ErrNotExist }
func (nullIndexStore) GetIndex(name string) (desync.Index, error) {
	return desync.Index{}, os.ErrNotExist
}
func (nullIndexStore) StoreIndex(name string, idx desync.Index) error { return nil }
func (nullIndexStore) String() string                                 { return "null" }
func (nullIndexStore) Close() error                                   { return nil }

// nullFS accepts every node (a file's data is read to its end, as a real writer does)
type nullFS struct{}

func (nullFS) CreateDir(n desync.NodeDirectory) error { return nil }
func (nullFS) CreateFile(n desync.NodeFile) error {
	_, err := io.Copy(io.Discard, n.Data)
	return err
}
func (nullFS) CreateSymlink(n desync.NodeSymlink) error { return nil }
func (nullFS) CreateDevice(n desync.NodeDevice) error   { return nil }

type emptyStore struct{}

func (emptyStore) GetChunk(id desync.ChunkID) (*desync.Chunk, error) {
	return nil, desync.ChunkMissing{ID: id}
}
func (emptyStore) HasChunk(id desync.ChunkID) (bool, error) { return false, nil }
func (emptyStore) String() string                           { return "empty" }
func (emptyStore) Close() error                             { return nil }

func runCase(c tcase, scratch string) (res []string, panicMsg string, alloc uint64, hung bool) {
	data := c.Data
	if c.Ep == "format" || c.Ep == "makefile" {
		data = nil
		for _, e := range c.Elems {
			data = append(data, e.bytes()...)
		}
	}
	blob := filepath.Join(scratch, "blob")
	if c.Ep == "makefile" {
		pad := make([]byte, 3000)
		rand.New(rand.NewSource(int64(len(data)))).Read(pad)
		os.WriteFile(blob, append(append([]byte{}, data...), pad...), 0644)
	}
	done := make(chan struct{})
	go func() {
		defer close(done)
		defer func() {
			if r := recover(); r != nil {
				panicMsg = fmt.Sprint(r)
				if len(panicMsg) > 200 {
					panicMsg = panicMsg[:200]
				}
			}
		}()
		var m0, m1 runtime.MemStats
		runtime.ReadMemStats(&m0)
		defer func() { runtime.ReadMemStats(&m1); alloc = m1.TotalAlloc - m0.TotalAlloc }()
		switch c.Ep {
		case "format":
			d := desync.NewFormatDecoder(bytes.NewReader(data))
			for i := 0; i < 64; i++ {
				e, err := d.Next()
				if err != nil {
					res = append(res, "error")
					return
				}
				if e == nil {
					res = append(res, "eof")
					return
				}
				if p, ok := e.(desync.FormatPayload); ok {
					n, err := io.Copy(io.Discard, p.Data)
					if err != nil || uint64(n) != p.Size-16 {
						res = append(res, "error")
						return
					}
				}
				res = append(res, "element")
			}
		case "archive":
			d := desync.NewArchiveDecoder(bytes.NewReader(data))
			for i := 0; i < 200; i++ {
				e, err := d.Next()
				if err != nil {
					res = append(res, "error")
					return
				}
				if e == nil {
					res = append(res, "eof")
					return
				}
				if f, ok := e.(desync.NodeFile); ok {
					n, err := io.Copy(io.Discard, f.Data)
					if err != nil || uint64(n) != f.Size {
						res = append(res, "error")
						return
					}
				}
				res = append(res, "node")
			}
		case "untarindex":
			sdir := filepath.Join(scratch, "uti-store")
			os.RemoveAll(sdir)
			os.MkdirAll(sdir, 0755)
			st, serr := desync.NewLocalStore(sdir, desync.StoreOptions{})
			if serr != nil {
				panic(serr)
			}
			ck, _ := desync.NewChunker(bytes.NewReader(data), 48, 64, 96)
			idx, cerr := desync.ChunkStream(context.Background(), ck, st, 2)
			if cerr != nil {
				panic(cerr)
			}
			err := desync.UnTarIndex(context.Background(), nullFS{}, idx, st, 2, desync.NewProgressBar(""))
			res = append(res, okErr(err))
		case "index":
			_, err := desync.IndexFromReader(bytes.NewReader(data))
			res = append(res, okErr(err))
		case "proto":
			p := desync.NewProtocol(bytes.NewReader(data), io.Discard)
			_, err := p.ReadMessage()
			res = append(res, okErr(err))
		case "hello":
			p := desync.NewProtocol(bytes.NewReader(data), io.Discard)
			_, err := p.RecvHello()
			res = append(res, okErr(err))
		case "request":
			// a client whose server answers the handshake properly and then replies with the case's bytes
			in := append(le(24, pHello, 1), data...)
			p := desync.NewProtocol(bytes.NewReader(in), io.Discard)
			if _, err := p.Initialize(2); err != nil {
				res = append(res, "initerror")
				return
			}
			_, err := p.RequestChunk(desync.ChunkID{1})
			res = append(res, okErr(err))
		case "server":
			in := append(le(24, pHello, 0x40), data...) // a client that pulls chunks
			s := desync.NewProtocolServer(bytes.NewReader(in), io.Discard, emptyStore{})
			err := s.Serve(context.Background())
			res = append(res, okErr(err))
		case "httpput":
			h := desync.NewHTTPIndexHandler(nullIndexStore{}, true, "")
			req := httptest.NewRequest("PUT", "/x.caibx", bytes.NewReader(data))
			w := httptest.NewRecorder()
			h.ServeHTTP(w, req)
			if w.Code == http.StatusOK {
				res = append(res, "ok")
			} else {
				res = append(res, "error")
			}
		case "makefile":
			_, _, err := desync.IndexFromFile(context.Background(), blob, 1, 64, 256, 1024, desync.NewProgressBar(""))
			res = append(res, okErr(err))
		}
	}()
	select {
	case <-done:
	case <-time.After(20 * time.Second):
		hung = true
	}
	return
}

func okErr(err error) string {
	if err != nil {
		return "error"
	}
	return "ok"
}

func record(i int, c tcase, res []string, panicMsg string, alloc uint64, hung bool) J {
	data := c.Data
	if c.Ep == "format" || c.Ep == "makefile" {
		data = nil
		for _, e := range c.Elems {
			data = append(data, e.bytes()...)
		}
	}
	ej := []J{}
	for _, e := range c.Elems {
		ej = append(ej, e.json())
	}
	ks := c.Kinds
	if ks == nil {
		ks = []string{}
	}
	if res == nil {
		res = []string{}
	}
	rec := J{"ev": "dec", "i": i, "ep": c.Ep, "fam": c.Fam, "elems": ej, "kinds": ks, "inlen": len(data), "res": res, "panic": panicMsg,
		"alloc": int(min64(alloc, 2000000000)), "hung": hung, "cutmid": false, "complete": false, "msg": J{"len": 0, "typ": "none", "avail": 0, "hdr": "none"}}
	for k, v := range c.Extra {
		rec[k] = v
	}
	if len(data) <= 400 {
		rec["hex"] = hex.EncodeToString(data)
	} else {
		rec["hex"] = hex.EncodeToString(data[:400]) + "..."
	}
	return rec
}

func min64(a, b uint64) uint64 {
	if a < b {
		return a
	}
	return b
}

func allCases(seed int64, thorough bool) []tcase {
	r := rand.New(rand.NewSource(seed))
	var cs []tcase
	cs = append(cs, genElementCases(r, thorough)...)
	cs = append(cs, genOrderCases(r, thorough)...)
	cs = append(cs, genTruncCases(r, thorough)...)
	cs = append(cs, genProtoCases(r, thorough)...)
	cs = append(cs, genRandomCases(r, thorough)...)
	return cs
}

func main() {
	seed := flag.Int64("seed", 1, "seed")
	thorough := flag.Bool("thorough", false, "larger families")
	out := flag.String("out", "", "trace output")
	dir := flag.String("dir", "", "scratch dir (absolute)")
	child := flag.Bool("child", false, "run cases in this process")
	from := flag.Int("from", 0, "first case (child)")
	limit := flag.Uint64("as", 6<<30, "address space limit of the child in bytes")
	flag.Parse()
	if !filepath.IsAbs(*dir) {
		fmt.Fprintln(os.Stderr, "-dir must be absolute")
		os.Exit(2)
	}
	os.MkdirAll(*dir, 0755)
	cases := allCases(*seed, *thorough)
	if *child {
		f, err := os.OpenFile(*out, os.O_CREATE|os.O_WRONLY|os.O_APPEND, 0644)
		if err != nil {
			fmt.Fprintln(os.Stderr, err)
			os.Exit(2)
		}
		w := bufio.NewWriter(f)
		for i := *from; i < len(cases); i++ {
			fmt.Fprintf(w, "{\"ev\":\"begin\",\"i\":%d}\n", i)
			w.Flush()
			res, p, a, hung := runCase(cases[i], *dir)
			b, _ := json.Marshal(record(i, cases[i], res, p, a, hung))
			w.Write(b)
			w.WriteByte('\n')
			w.Flush()
			if hung {
				os.Exit(3) // the stuck goroutine cannot be removed: restart
			}
		}
		return
	}
	// parent
	raw := *out + ".raw"
	os.Remove(raw)
	next, deaths := 0, 0
	retried := map[int]int{}
	for next < len(cases) {
		cmd := exec.Command(os.Args[0], "-child", "-seed", fmt.Sprint(*seed), fmt.Sprintf("-thorough=%v", *thorough), "-out", raw, "-dir", *dir, "-from", fmt.Sprint(next), "-as", fmt.Sprint(*limit))
		var stderr bytes.Buffer
		cmd.Stderr = &stderr
		cmd.Env = append(os.Environ(), "C19_LIMIT=1")
		err := cmd.Run()
		last, begun := lastRecord(raw)
		if err == nil {
			next = len(cases)
			break
		}
		// the child died in case `begun` (or hung there). Only a failed allocation of a stated size is attributed to the case
		// right away; anything else (thread creation failing under the address-space limit, ...) is retried in a fresh child
		if last < begun && !strings.Contains(stderr.String(), "out of memory: cannot allocate") && !strings.Contains(stderr.String(), "goroutine ") && retried[begun] < 2 {
			retried[begun]++
			next = begun
			continue
		}
		deaths++
		if begun < next {
			fmt.Fprintf(os.Stderr, "child made no progress: %v\n%s\n", err, tail(stderr.String(), 2000))
			os.Exit(2)
		}
		if last < begun { // no record for the begun case
			msg := "process died: " + firstLine(stderr.String())
			b, _ := json.Marshal(record(begun, cases[begun], nil, msg, 0, false))
			f, _ := os.OpenFile(raw, os.O_WRONLY|os.O_APPEND, 0644)
			f.Write(append(b, '\n'))
			f.Close()
		}
		next = begun + 1
		if deaths > 2000 {
			fmt.Fprintln(os.Stderr, "too many child deaths")
			os.Exit(2)
		}
	}
	// strip begin lines
	w, err := trace.Create(*out)
	if err != nil {
		fmt.Fprintln(os.Stderr, err)
		os.Exit(2)
	}
	f, _ := os.Open(raw)
	sc := bufio.NewScanner(f)
	sc.Buffer(make([]byte, 1<<20), 1<<24)
	n := 0
	for sc.Scan() {
		var rec J
		if json.Unmarshal(sc.Bytes(), &rec) != nil || rec["ev"] != "dec" {
			continue
		}
		w.Emit(rec)
		n++
	}
	f.Close()
	os.Remove(raw)
	w.Close()
	fmt.Printf("cases=%d records=%d child_deaths=%d\n", len(cases), n, deaths)
}

func init() {
	if os.Getenv("C19_LIMIT") == "1" {
		for i, a := range os.Args {
			if a == "-as" && i+1 < len(os.Args) {
				var v uint64
				fmt.Sscan(os.Args[i+1], &v)
				syscall.Setrlimit(syscall.RLIMIT_AS, &syscall.Rlimit{Cur: v, Max: v})
			}
		}
	}
}

func lastRecord(path string) (lastDec, lastBegin int) {
	lastDec, lastBegin = -1, -1
	f, err := os.Open(path)
	if err != nil {
		return
	}
	defer f.Close()
	sc := bufio.NewScanner(f)
	sc.Buffer(make([]byte, 1<<20), 1<<24)
	for sc.Scan() {
		var rec struct {
			Ev string `json:"ev"`
			I  int    `json:"i"`
		}
		if json.Unmarshal(sc.Bytes(), &rec) != nil {
			continue
		}
		if rec.Ev == "begin" {
			lastBegin = rec.I
		} else if rec.Ev == "dec" {
			lastDec = rec.I
		}
	}
	return
}

func firstLine(s string) string {
	for _, l := range strings.Split(s, "\n") {
		if strings.TrimSpace(l) != "" {
			if len(l) > 200 {
				l = l[:200]
			}
			return l
		}
	}
	return "(no output)"
}

func tail(s string, n int) string {
	if len(s) > n {
		return s[len(s)-n:]
	}
	return s
}
