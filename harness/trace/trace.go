// Package trace writes NDJSON event files consumed by the Trace_*.tla specifications.
package trace

import (
	"bufio"
	"encoding/json"
	"fmt"
	"os"
	"strconv"
	"sync"
	"time"
)

type Writer struct {
	mu     sync.Mutex
	f      *os.File
	w      *bufio.Writer
	N      int
	last   time.Time
	lastB  []byte
	closed bool
}

// Create opens a trace file. A watchdog ends the process with exit status 4 when no record has been written for
// VERIF_HANG_SECS seconds (default 150): a driver that sits in a call of the real code that never returns cannot be
// stopped from inside, and must not keep a check waiting for its whole time limit. The last record written is
// reported on stderr ("HANG: ..."); the check re-runs the driver and only reports a hang that happens again.
func Create(path string) (*Writer, error) {
	f, err := os.Create(path)
	if err != nil {
		return nil, err
	}
	t := &Writer{f: f, w: bufio.NewWriterSize(f, 1<<20), last: time.Now()}
	limit := 150
	if v, err := strconv.Atoi(os.Getenv("VERIF_HANG_SECS")); err == nil && v > 0 {
		limit = v
	}
	go func() {
		for {
			time.Sleep(time.Second)
			t.mu.Lock()
			idle := time.Since(t.last)
			closed := t.closed
			lastB := t.lastB
			n := t.N
			if !closed && idle > time.Duration(limit)*time.Second {
				t.w.Flush()
				t.mu.Unlock()
				if len(lastB) > 600 {
					lastB = lastB[:600]
				}
				fmt.Fprintf(os.Stderr, "HANG: no record for %d s after record %d: %s\n", limit, n, lastB)
				os.Exit(4)
			}
			t.mu.Unlock()
			if closed {
				return
			}
		}
	}()
	return t, nil
}

// Emit writes one record.
func (t *Writer) Emit(rec map[string]interface{}) {
	b, err := json.Marshal(rec)
	if err != nil {
		panic(err)
	}
	t.mu.Lock()
	t.w.Write(b)
	t.w.WriteByte('\n')
	t.N++
	t.last = time.Now()
	t.lastB = b
	t.mu.Unlock()
}

func (t *Writer) Close() error {
	t.mu.Lock()
	defer t.mu.Unlock()
	t.closed = true
	if err := t.w.Flush(); err != nil {
		return err
	}
	return t.f.Close()
}

// M builds a record from alternating key/value pairs.
func M(kv ...interface{}) map[string]interface{} {
	m := make(map[string]interface{}, len(kv)/2)
	for i := 0; i+1 < len(kv); i += 2 {
		m[kv[i].(string)] = kv[i+1]
	}
	return m
}
