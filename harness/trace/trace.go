// Package trace writes NDJSON event files consumed by the Trace_*.tla specifications.
package trace

import (
	"bufio"
	"encoding/json"
	"os"
	"sync"
)

type Writer struct {
	mu sync.Mutex
	f  *os.File
	w  *bufio.Writer
	N  int
}

func Create(path string) (*Writer, error) {
	f, err := os.Create(path)
	if err != nil {
		return nil, err
	}
	return &Writer{f: f, w: bufio.NewWriterSize(f, 1<<20)}, nil
}

// Emit writes one record.
func (t *Writer) Emit(rec map[string]interface{}) {
	b, err := json.Marshal(rec)
	if err != nil {
		panic(err)
	}
	t.mu.Lock()
	t.w.Write(b)
	t.w.WriteByte('\n')
	t.N++
	t.mu.Unlock()
}

func (t *Writer) Close() error {
	t.mu.Lock()
	defer t.mu.Unlock()
	if err := t.w.Flush(); err != nil {
		return err
	}
	return t.f.Close()
}

// M builds a record from alternating key/value pairs.
func M(kv ...interface{}) map[string]interface{} {
	m := make(map[string]interface{}, len(kv)/2)
	for i := 0; i+1 < len(kv); i += 2 {
		m[kv[i].(string)] = kv[i+1]
	}
	return m
}
