// Package fstree builds random directory trees on disk (as root: owners, modes incl. set-id/sticky, symlinks, devices, user
// xattrs, nanosecond mtimes also on directories and symlinks) and takes snapshots of trees as node lists, independent of
// desync's filesystem reader.
package fstree

import (
	"crypto/sha256"
	"fmt"
	"math/rand"
	"os"
	"path/filepath"
	"sort"
	"syscall"

	"github.com/pkg/xattr"
	"golang.org/x/sys/unix"
)

type J = map[string]interface{}

// Intern maps byte strings to small integers (names, contents, targets, xattr keys and values).
type Intern struct {
	m map[string]int
}

func NewIntern() *Intern { return &Intern{m: map[string]int{"": 0}} }
func (t *Intern) ID(b []byte) int {
	k := string(b)
	if len(b) > 64 {
		h := sha256.Sum256(b)
		k = "sha:" + string(h[:])
	}
	if v, ok := t.m[k]; ok {
		return v
	}
	t.m[k] = len(t.m)
	return t.m[k]
}

type Node struct {
	Depth        int
	Name         string
	Kind         string
	Mode         uint32
	UID, GID     int
	Sec, NSec    int64
	Content      []byte
	Target       string
	Major, Minor uint64
	Xattrs       [][2]string
}

func (n Node) J(t *Intern) J {
	xs := [][]int{}
	for _, x := range n.Xattrs {
		xs = append(xs, []int{t.ID([]byte(x[0])), t.ID([]byte(x[1]))})
	}
	content := 0
	if n.Kind == "file" {
		content = t.ID(append([]byte("c:"), n.Content...))
	}
	target := 0
	if n.Kind == "symlink" {
		target = t.ID([]byte("t:" + n.Target))
	}
	name := 0
	if n.Depth > 0 {
		name = t.ID([]byte("n:" + n.Name))
	}
	return J{"depth": n.Depth, "name": name, "kind": n.Kind, "mode": n.Mode, "uid": n.UID, "gid": n.GID, "msec": n.Sec, "mnsec": n.NSec,
		"content": content, "target": target, "major": n.Major, "minor": n.Minor, "xattrs": xs}
}

// Snapshot lists the tree under root depth-first with children in byte order of their names.
func Snapshot(root string) ([]Node, error) {
	var out []Node
	var walk func(p string, depth int, name string) error
	walk = func(p string, depth int, name string) error {
		var st unix.Stat_t
		if err := unix.Lstat(p, &st); err != nil {
			return err
		}
		n := Node{Depth: depth, Name: name, Mode: st.Mode & 07777, UID: int(st.Uid), GID: int(st.Gid), Sec: st.Mtim.Sec, NSec: st.Mtim.Nsec}
		keys, _ := xattr.LList(p)
		sort.Strings(keys)
		for _, k := range keys {
			v, _ := xattr.LGet(p, k)
			n.Xattrs = append(n.Xattrs, [2]string{k, string(v)})
		}
		switch st.Mode & syscall.S_IFMT {
		case syscall.S_IFDIR:
			n.Kind = "dir"
			out = append(out, n)
			ents, err := os.ReadDir(p)
			if err != nil {
				return err
			}
			names := []string{}
			for _, e := range ents {
				names = append(names, e.Name())
			}
			sort.Strings(names)
			for _, c := range names {
				if err := walk(filepath.Join(p, c), depth+1, c); err != nil {
					return err
				}
			}
			return nil
		case syscall.S_IFREG:
			n.Kind = "file"
			b, err := os.ReadFile(p)
			if err != nil {
				return err
			}
			n.Content = b
		case syscall.S_IFLNK:
			n.Kind = "symlink"
			t, err := os.Readlink(p)
			if err != nil {
				return err
			}
			n.Target = t
			n.Mode = 0777
		case syscall.S_IFCHR, syscall.S_IFBLK:
			n.Kind = "dev"
			if st.Mode&syscall.S_IFMT == syscall.S_IFBLK {
				n.Kind = "blk"
			}
			n.Major, n.Minor = uint64(unix.Major(st.Rdev)), uint64(unix.Minor(st.Rdev))
		default:
			// FIFOs and sockets: desync's tar skips them (with a warning); they are not part of the tree an archive describes
			return nil
		}
		out = append(out, n)
		return nil
	}
	err := walk(root, 0, "")
	return out, err
}

type Opts struct {
	MaxNodes  int
	MaxFanout int
	Xattrs    bool
	Devices   bool
}

func name(r *rand.Rand) string {
	switch r.Intn(8) {
	case 0:
		return "a b"
	case 1:
		b := make([]byte, 1+r.Intn(6))
		for i := range b {
			b[i] = byte(1 + r.Intn(254))
			if b[i] == '/' {
				b[i] = '_'
			}
		}
		return string(b)
	case 2:
		s := ""
		for i := 0; i < 50+r.Intn(200); i++ {
			s += string(rune('a' + r.Intn(26)))
		}
		return s
	}
	return fmt.Sprintf("%c%d", 'a'+r.Intn(26), r.Intn(1000))
}

// Build creates a random tree under root (which must not exist) and fixes every attribute afterwards, children before parents,
// so that directory and symlink mtimes are what the returned snapshot says.
func Build(r *rand.Rand, root string, o Opts) error {
	type fix struct {
		p         string
		mode      uint32
		uid, gid  int
		sec, nsec int64
		link      bool
		xs        [][2]string
	}
	var fixes []fix
	budget := o.MaxNodes
	modes := []uint32{0644, 0755, 0600, 0, 04755, 02755, 01777, 06711, 0777, 0400}
	owners := []int{0, 0, 1000, 65534, 12345, 2147483647}
	// (also before 1970: stored as negative nanoseconds)
	times := [][2]int64{{0, 1}, {1000000000, 123456789}, {1700000000, 0}, {1, 0}, {2000000000, 999999999}, {1234567890, 500}, {-12345678, 250000000}, {-2000000000, 0}}
	attrs := func(p string, link bool) fix {
		t := times[r.Intn(len(times))]
		f := fix{p: p, mode: modes[r.Intn(len(modes))], uid: owners[r.Intn(len(owners))], gid: owners[r.Intn(len(owners))], sec: t[0], nsec: t[1], link: link}
		if o.Xattrs && !link && r.Intn(3) == 0 {
			for k := 0; k < 1+r.Intn(3); k++ {
				v := fmt.Sprintf("v%d", r.Intn(1000))
				switch r.Intn(4) {
				case 0: // binary values: zero bytes inside and at the end (capabilities, ACLs, C strings stored with their terminator)
					v = fmt.Sprintf("\x01\x00\x00\x02%d\x00tail", r.Intn(1000))
				case 1:
					v = fmt.Sprintf("c-string-%d\x00", r.Intn(1000))
				}
				f.xs = append(f.xs, [2]string{fmt.Sprintf("user.k%d", r.Intn(20)), v})
			}
		}
		return f
	}
	var mk func(dir string, depth int) error
	mk = func(dir string, depth int) error {
		if err := os.Mkdir(dir, 0700); err != nil {
			return err
		}
		nk := 0
		if depth < 4 {
			nk = r.Intn(o.MaxFanout + 1)
		}
		used := map[string]bool{}
		for i := 0; i < nk && budget > 0; i++ {
			nm := name(r)
			if used[nm] || nm == "." || nm == ".." {
				continue
			}
			used[nm] = true
			budget--
			p := filepath.Join(dir, nm)
			switch x := r.Intn(10); {
			case x < 2 && depth < 4:
				if err := mk(p, depth+1); err != nil {
					return err
				}
				continue
			case x < 7:
				var b []byte
				switch r.Intn(3) {
				case 1:
					b = []byte{byte(r.Intn(256))}
				case 2:
					b = make([]byte, r.Intn(3000))
					r.Read(b)
				}
				if err := os.WriteFile(p, b, 0600); err != nil {
					return err
				}
				fixes = append(fixes, attrs(p, false))
			case x < 9:
				// also targets that are not lexically canonical: a link's target is data, not a path to be cleaned
				tg := []string{"a", "../..", "/abs/path", "dangling target", nm, "./a", "dir/", "a/../b", "..//x", "/etc/./passwd", "a/."}[r.Intn(11)]
				if err := os.Symlink(tg, p); err != nil {
					return err
				}
				fixes = append(fixes, attrs(p, true))
			default:
				if !o.Devices {
					os.WriteFile(p, nil, 0600)
					fixes = append(fixes, attrs(p, false))
					continue
				}
				if r.Intn(4) == 0 { // a FIFO or a socket: skipped by tar, must leave no trace in the archive
					kind := []uint32{syscall.S_IFIFO, syscall.S_IFSOCK}[r.Intn(2)]
					if err := unix.Mknod(p, kind|0600, 0); err != nil {
						return err
					}
					continue
				}
				dv := [][3]uint32{{syscall.S_IFCHR, 1, 3}, {syscall.S_IFBLK, 8, 0}, {syscall.S_IFCHR, 4095, 1048575}}[r.Intn(3)]
				if err := unix.Mknod(p, dv[0]|0600, int(unix.Mkdev(dv[1], dv[2]))); err != nil {
					return err
				}
				fixes = append(fixes, attrs(p, false))
			}
		}
		fixes = append(fixes, attrs(dir, false))
		return nil
	}
	if err := mk(root, 0); err != nil {
		return err
	}
	// apply: owner first (clears set-id bits), then mode, xattrs, times; children were appended before their directory
	for _, f := range fixes {
		if err := os.Lchown(f.p, f.uid, f.gid); err != nil {
			return err
		}
		if !f.link {
			if err := unix.Chmod(f.p, f.mode); err != nil {
				return err
			}
			for _, x := range f.xs {
				xattr.LSet(f.p, x[0], []byte(x[1]))
			}
		}
	}
	for _, f := range fixes {
		ts := []unix.Timespec{{Sec: f.sec, Nsec: f.nsec}, {Sec: f.sec, Nsec: f.nsec}}
		if err := unix.UtimesNanoAt(unix.AT_FDCWD, f.p, ts, unix.AT_SYMLINK_NOFOLLOW); err != nil {
			return err
		}
	}
	return nil
}
