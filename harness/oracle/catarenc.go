package oracle

import (
	"bytes"
	"encoding/binary"
)

// A minimal independent catar ENCODER used to build hostile archives (arbitrary entry names, nesting, element orders).
type Enc struct{ bytes.Buffer }

func (e *Enc) u64(v ...uint64) {
	for _, x := range v {
		var b [8]byte
		binary.LittleEndian.PutUint64(b[:], x)
		e.Write(b[:])
	}
}

// Entry writes a CaFormatEntry with the given stat mode.
func (e *Enc) Entry(mode uint64, uid, gid uint64, mtimeNs uint64) {
	e.u64(64, tEntry, 0, mode, 0, uid, gid, mtimeNs)
}
func (e *Enc) Filename(name string) {
	e.u64(uint64(16+len(name)+1), tFilename)
	e.WriteString(name)
	e.WriteByte(0)
}
func (e *Enc) Payload(data []byte) { e.u64(uint64(16+len(data)), tPayload); e.Write(data) }
func (e *Enc) Symlink(target string) {
	e.u64(uint64(16+len(target)+1), tSymlink)
	e.WriteString(target)
	e.WriteByte(0)
}
func (e *Enc) Goodbye() { e.u64(16+24, tGoodbye, 0, 40, tGbTail) }

// Raw writes an element header with an arbitrary size field and type followed by body.
func (e *Enc) Raw(size, typ uint64, body []byte) { e.u64(size, typ); e.Write(body) }
