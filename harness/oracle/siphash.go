package oracle

import "encoding/binary"

// SipHash24 is an independent implementation of SipHash-2-4 (Aumasson/Bernstein reference algorithm), keyed with casync's
// goodbye-table key by CasyncNameHash.
func SipHash24(k0, k1 uint64, p []byte) uint64 {
	v0 := k0 ^ 0x736f6d6570736575
	v1 := k1 ^ 0x646f72616e646f6d
	v2 := k0 ^ 0x6c7967656e657261
	v3 := k1 ^ 0x7465646279746573
	rotl := func(x uint64, b uint) uint64 { return x<<b | x>>(64-b) }
	round := func() {
		v0 += v1
		v1 = rotl(v1, 13)
		v1 ^= v0
		v0 = rotl(v0, 32)
		v2 += v3
		v3 = rotl(v3, 16)
		v3 ^= v2
		v0 += v3
		v3 = rotl(v3, 21)
		v3 ^= v0
		v2 += v1
		v1 = rotl(v1, 17)
		v1 ^= v2
		v2 = rotl(v2, 32)
	}
	n := len(p)
	for len(p) >= 8 {
		m := binary.LittleEndian.Uint64(p)
		v3 ^= m
		round()
		round()
		v0 ^= m
		p = p[8:]
	}
	var last [8]byte
	copy(last[:], p)
	m := binary.LittleEndian.Uint64(last[:]) | uint64(n)<<56
	v3 ^= m
	round()
	round()
	v0 ^= m
	v2 ^= 0xff
	round()
	round()
	round()
	round()
	return v0 ^ v1 ^ v2 ^ v3
}

// CasyncNameHash hashes a directory entry name as casync does for goodbye tables.
func CasyncNameHash(name []byte) uint64 {
	return SipHash24(0x8574442b0f1d84b3, 0x2736ed30d1c22ec1, name)
}
