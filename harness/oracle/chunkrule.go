// Package oracle holds small independent implementations of the numeric leaf functions the specification
// treats as given (rolling hash rule, SipHash, format tokenisers). They are written from the format
// description, not from desync's code, and are cross-checked against casync-produced fixtures.
package oracle

import "math/bits"

const Window = 48

// WindowHash is the buzhash of exactly Window bytes, computed directly (not rolling).
func WindowHash(b []byte) uint32 {
	var h uint32
	for j, c := range b {
		h ^= bits.RotateLeft32(buzTable[c], Window-1-j)
	}
	return h
}

// Discriminator is casync's mapping from the average chunk size to the hash discriminator.
func Discriminator(avg uint64) uint32 {
	return uint32(float64(avg) / (-1.42888852e-7*float64(avg) + 1.33237515))
}

// Boundaries returns every position p (Window <= p <= len(data)) such that the window ending at p meets
// the discriminator. This depends on the data only.
func Boundaries(data []byte, avg uint64) []int {
	d := Discriminator(avg)
	var out []int
	for p := Window; p <= len(data); p++ {
		if WindowHash(data[p-Window:p])%d == d-1 {
			out = append(out, p)
		}
	}
	return out
}

// NullStarts returns the positions s with data[s:s+max] all zero.
func NullStarts(data []byte, max int) []int {
	var out []int
	run := 0 // number of zero bytes ending at i
	for i := 0; i < len(data); i++ {
		if data[i] == 0 {
			run++
		} else {
			run = 0
		}
		if run >= max {
			out = append(out, i+1-max)
		}
	}
	return out
}

// Chain is the single-stream chunk sequence by the rule: a cut at the first boundary at or after
// start+min+1, at start+max at the latest; a remainder of at most min bytes is one chunk.
func Chain(data []byte, min, avg, max uint64) [][2]int {
	isB := map[int]bool{}
	for _, p := range Boundaries(data, avg) {
		isB[p] = true
	}
	L := len(data)
	var out [][2]int
	s := 0
	for s < L {
		var cut int
		if L-s <= int(min) {
			cut = L
		} else {
			hi := s + int(max)
			if hi > L {
				hi = L
			}
			cut = hi
			for p := s + int(min) + 1; p <= hi; p++ {
				if isB[p] {
					cut = p
					break
				}
			}
		}
		out = append(out, [2]int{s, cut - s})
		s = cut
	}
	return out
}
