package oracle

import (
	"bytes"
	"encoding/binary"
	"fmt"
)

// Independent tokeniser of the casync catar byte format, written from the format description.
const (
	tEntry    = 0x1396fabcea5bbb51
	tXAttr    = 0xb8157091f80bc486
	tSymlink  = 0x664a6fb6830e0d6c
	tDevice   = 0xac3dace369dfe643
	tPayload  = 0x8b9e1d93d6dcffc9
	tFilename = 0x6dbb6ebcb3161f0b
	tGoodbye  = 0xdfd35c5e8327c403
	tGbTail   = 0x57446fa533702943
	tUser     = 0xf453131aaeeaccb3
	tGroup    = 0x25eb6ac969396a52
)

// Element is one catar element as found in the byte stream.
type Element struct {
	T      string // entry, xattr, filename, payload, symlink, device, goodbye, user, group, unknown
	Off    uint64 // byte offset of the element
	Size   uint64 // the size field of its header
	SizeOK bool   // the size field matches the element's content (NUL-terminated strings, fixed records, table)
	// entry
	Flags, Mode, EFlags, UID, GID, MTime uint64
	// filename / symlink / xattr / user / group
	Name  []byte
	Value []byte // xattr value
	// payload
	Data []byte
	// device
	Major, Minor uint64
	// goodbye: items without the tail; tail separately
	Items                  [][3]uint64 // offset, size, hash
	TailOffset, TailSize   uint64
	TailMarkerOK, HasItems bool
}

func u64(b []byte) uint64 { return binary.LittleEndian.Uint64(b) }

// cstr returns the NUL-terminated string starting at b and whether a NUL was found within max bytes
func cstr(b []byte) ([]byte, bool) {
	i := bytes.IndexByte(b, 0)
	if i < 0 {
		return b, false
	}
	return b[:i], true
}

// Tokenise splits a catar into elements. It trusts the content of an element over its size field where the content
// delimits itself (strings), so that a wrong size field is reported as SizeOK=false instead of derailing the parse.
func Tokenise(b []byte) ([]Element, error) {
	var out []Element
	pos := uint64(0)
	for pos < uint64(len(b)) {
		if uint64(len(b))-pos < 16 {
			return out, fmt.Errorf("truncated element header at %d", pos)
		}
		size, typ := u64(b[pos:]), u64(b[pos+8:])
		e := Element{Off: pos, Size: size}
		body := b[pos+16:]
		adv := size
		switch typ {
		case tEntry:
			e.T = "entry"
			if len(body) < 48 {
				return out, fmt.Errorf("truncated entry at %d", pos)
			}
			e.Flags, e.Mode, e.EFlags, e.UID, e.GID, e.MTime = u64(body), u64(body[8:]), u64(body[16:]), u64(body[24:]), u64(body[32:]), u64(body[40:])
			e.SizeOK = size == 64
			adv = 64
		case tFilename, tSymlink, tUser, tGroup:
			e.T = map[uint64]string{tFilename: "filename", tSymlink: "symlink", tUser: "user", tGroup: "group"}[typ]
			s, ok := cstr(body)
			if !ok {
				return out, fmt.Errorf("unterminated string at %d", pos)
			}
			e.Name = s
			adv = 16 + uint64(len(s)) + 1
			e.SizeOK = size == adv
		case tXAttr:
			e.T = "xattr"
			k, ok := cstr(body)
			if !ok {
				return out, fmt.Errorf("unterminated xattr at %d", pos)
			}
			e.Name = k
			// the value runs to the end of the element as given by the size field, ending in NUL
			if size < 16+uint64(len(k))+2 || pos+size > uint64(len(b)) {
				e.SizeOK = false
				adv = 16 + uint64(len(k)) + 1
			} else {
				e.Value = b[pos+16+uint64(len(k))+1 : pos+size-1]
				e.SizeOK = b[pos+size-1] == 0
			}
		case tPayload:
			e.T = "payload"
			if size < 16 || pos+size > uint64(len(b)) {
				return out, fmt.Errorf("payload at %d runs past the end", pos)
			}
			e.Data = b[pos+16 : pos+size]
			e.SizeOK = true
		case tDevice:
			e.T = "device"
			if len(body) < 16 {
				return out, fmt.Errorf("truncated device at %d", pos)
			}
			e.Major, e.Minor = u64(body), u64(body[8:])
			e.SizeOK = size == 32
			adv = 32
		case tGoodbye:
			e.T = "goodbye"
			// items of 24 bytes up to and including the one carrying the tail marker
			p := uint64(0)
			for {
				if uint64(len(body)) < p+24 {
					return out, fmt.Errorf("goodbye at %d without tail marker", pos)
				}
				o, s, h := u64(body[p:]), u64(body[p+8:]), u64(body[p+16:])
				p += 24
				if h == tGbTail {
					e.TailOffset, e.TailSize, e.TailMarkerOK = o, s, true
					break
				}
				e.Items = append(e.Items, [3]uint64{o, s, h})
			}
			adv = 16 + p
			e.SizeOK = size == adv
		default:
			e.T = "unknown"
			if size < 16 || pos+size > uint64(len(b)) {
				return out, fmt.Errorf("unknown element type %x at %d", typ, pos)
			}
		}
		out = append(out, e)
		if adv == 0 {
			return out, fmt.Errorf("zero-size element at %d", pos)
		}
		pos += adv
	}
	return out, nil
}
