#!/bin/sh
# Builds the framework from files on disk only (offline).
set -e
cd "$(dirname "$0")"
export GOFLAGS=-mod=mod GOPROXY=off GOSUMDB=off GOTOOLCHAIN=local
mkdir -p .build/bin .build/work evidence
cp /repo/go.sum harness/go.sum
(cd harness && go build -tags verif -o ../.build/bin/ ./cmd/... && go build -tags "verif datadog" -o ../.build/bin/zcheck-libzstd ./cmd/zcheck)
java -cp /opt/veriftools/tla/tla2tools.jar tlc2.TLC -h >/dev/null 2>&1 || true
echo setup ok
