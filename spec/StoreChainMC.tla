---------------------------- MODULE StoreChainMC ----------------------------
(* Exhaustive check that the reference model of StoreChain.tla says what the documentation says: every chain
   shape cmd/desync/store.go can build over three members, every content and health pattern, two chunk IDs. *)
EXTENDS StoreChain
VARIABLES c, st, id, n
Members == {"a", "b", "c"}
Ids == {1}
Leaf(m, v) == [t |-> "leaf", m |-> m, verify |-> v]
LeafSet == {Leaf(m, v) : m \in {"a", "b"}, v \in BOOLEAN}
Groups == {[t |-> "failover", g |-> 1, subs |-> <<x, y>>] : x \in {Leaf("a", TRUE)}, y \in {Leaf("b", TRUE)}}
          \cup {[t |-> "failover", g |-> 1, subs |-> <<Leaf("a", TRUE), Leaf("b", TRUE), Leaf("c", TRUE)>>]}
Routers == {[t |-> "router", subs |-> <<x, y>>] : x \in LeafSet, y \in LeafSet}
           \cup {[t |-> "router", subs |-> <<g, Leaf("c", TRUE)>>] : g \in Groups}
Ups == LeafSet \cup Routers \cup Groups
Caches == {[t |-> "cache", up |-> u, local |-> Leaf("c", v), repair |-> r] : u \in {x \in Ups : Leaf("c", TRUE) \notin Leaves(x)}, v \in BOOLEAN, r \in BOOLEAN}
Chains == Ups \cup Caches \cup {[t |-> "wrap", s |-> x] : x \in Caches}
States == {[m |-> mm, act |-> (1 :> a)] : mm \in [Members -> [c : [Ids -> {"absent", "good", "corrupt"}], healthy : BOOLEAN]], a \in 1..3}
Init == c \in Chains /\ st \in {s \in States : TRUE} /\ id \in Ids /\ n = 0
Next == UNCHANGED <<c, st, id, n>>
Spec == Init /\ [][Next]_<<c, st, id, n>>
Fits == TRUE
P_NoBad == Fits => NoBadDelivery(c, st, id)
P_Router == Fits => RouterFinds(c, st, id)
P_CacheHit == Fits => CacheHitLocalOnly(c, st, id)
P_CacheFill == Fits => CacheFills(c, st, id)
P_Failover == Fits => FailoverLive(c, st, id)
=============================================================================
