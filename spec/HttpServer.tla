----------------------------- MODULE HttpServer -----------------------------
(***************************************************************************)
(* The HTTP chunk and index servers (httphandler.go, httphandlerbase.go,   *)
(* httpindexhandler.go) -- C15, and the status mapping part of C14.        *)
(*                                                                         *)
(* A row is one request against one server configuration together with     *)
(* what was observed: status, the store operations that were invoked, the  *)
(* names in the served store that changed, whether anything outside the    *)
(* served store changed, whether the response carried bytes of a sentinel. *)
(* RowOK is the property.  Handle is an abstract model of the handlers'    *)
(* decision structure; TLC checks that every row Handle can produce is     *)
(* RowOK, for every configuration and request class.                       *)
(***************************************************************************)
EXTENDS Integers, Sequences, FiniteSets, TLC

Methods == {"GET", "HEAD", "PUT", "DELETE", "POST"}
\* path classes: "ok" = well-formed name of an existing object, "okmissing" = well-formed, object absent,
\* everything else is malformed for a chunk server; an index server reduces any path to its base name
PathClasses == {"ok", "okmissing", "wrongprefix", "nosuffix", "othersuffix", "dotdot", "encoded", "absolute", "empty", "overlong", "shortid", "nothex"}
AuthClasses == {"none", "wrong", "right", "case", "space", "prefix"}
BodyClasses == {"valid", "mismatch", "garbage", "empty"}

Authorized(r) == ~r.authset \/ r.authclass = "right"
WellFormed(r) == r.pathclass \in {"ok", "okmissing"}

RowOK(r) ==
  \* authorization: nothing is read or written for a request without exactly the configured value
  /\ ~Authorized(r) => (r.status = 401 /\ r.called = {} /\ r.changed = {})
  \* read-only servers never modify their store; only PUT may ever modify it
  /\ (~r.writable \/ r.method # "PUT") => r.changed = {}
  \* write verification
  \* ("refused": an error status and nothing stored; whether the refusal is a 4xx or - for an undecodable object uploaded
  \* under the all-zero ID, which only the store's own decoding catches - a 5xx is not part of the property)
  /\ (r.kind = "chunk" /\ r.method = "PUT" /\ r.verifywrite /\ r.bodyclass # "valid") => (r.status \in 400..599 /\ r.changed = {})
  /\ (r.kind = "index" /\ r.method = "PUT" /\ r.bodyclass # "valid") => (r.status \in 400..599 /\ r.changed = {})
  \* path confinement
  /\ ~r.outside /\ ~r.leaked
  /\ r.changed \subseteq {r.target}
  /\ (r.kind = "chunk" /\ ~WellFormed(r)) => (r.status \in 400..499 /\ r.called = {} /\ r.changed = {})
  \* unsupported methods
  /\ r.method \notin {"GET", "HEAD", "PUT"} => (r.changed = {} /\ r.status \in 400..499)
  \* the servers still serve: truthful answers for authorized, well-formed requests
  /\ (Authorized(r) /\ r.method = "GET" /\ r.pathclass = "ok") => (r.status = 200 /\ r.dataok)
  /\ (Authorized(r) /\ r.method \in {"GET", "HEAD"} /\ r.pathclass = "okmissing") => r.status = 404
  /\ (Authorized(r) /\ r.method = "HEAD" /\ r.pathclass = "ok") => r.status = 200
  /\ (Authorized(r) /\ r.method = "PUT" /\ r.writable /\ WellFormed(r) /\ r.bodyclass = "valid") => (r.status = 200 /\ r.changed \subseteq {r.target} /\ r.stored)

\* ---- abstract model of the handlers
Handle(r) ==
  IF ~Authorized(r) THEN [status |-> 401, called |-> {}, changed |-> {}]
  ELSE IF r.kind = "chunk" /\ ~WellFormed(r) THEN [status |-> 400, called |-> {}, changed |-> {}]
  ELSE CASE r.method = "GET" -> [status |-> IF r.pathclass = "ok" THEN 200 ELSE IF r.kind = "chunk" \/ r.pathclass = "okmissing" THEN 404 ELSE 400,
                                  called |-> {"get"}, changed |-> {}]
         [] r.method = "HEAD" -> [status |-> IF r.pathclass = "ok" THEN 200 ELSE 404, called |-> {"has"}, changed |-> {}]
         [] r.method = "PUT" ->
              IF ~r.writable THEN [status |-> 400, called |-> {}, changed |-> {}]
              ELSE IF r.bodyclass # "valid" /\ (r.kind = "index" \/ r.verifywrite)
                   THEN [status |-> IF r.kind = "index" THEN 415 ELSE 400, called |-> {}, changed |-> {}]
              ELSE [status |-> 200, called |-> {"store"}, changed |-> {r.target}]
         [] OTHER -> [status |-> 405, called |-> {}, changed |-> {}]
ModelRow(r) == LET h == Handle(r) IN
  [r EXCEPT !.status = h.status, !.called = h.called, !.changed = h.changed, !.outside = FALSE, !.leaked = FALSE,
            !.dataok = TRUE, !.stored = TRUE]
\* an index server treats every path as its base name: for it the path class is ok / okmissing
Rows == {[kind |-> k, authset |-> a, writable |-> w, verifywrite |-> v, compressed |-> c, method |-> m, pathclass |-> p, authclass |-> ac,
          bodyclass |-> b, target |-> "t", status |-> 0, called |-> {}, changed |-> {}, outside |-> FALSE, leaked |-> FALSE, dataok |-> FALSE, stored |-> FALSE] :
           k \in {"chunk", "index"}, a \in BOOLEAN, w \in BOOLEAN, v \in BOOLEAN, c \in BOOLEAN, m \in Methods,
           p \in PathClasses, ac \in AuthClasses, b \in BodyClasses}
ASSUME \A r \in {x \in Rows : x.kind = "chunk" \/ x.pathclass \in {"ok", "okmissing"}} : RowOK(ModelRow(r))
VARIABLE x
Spec == x = 0 /\ [][UNCHANGED x]_x
=============================================================================
