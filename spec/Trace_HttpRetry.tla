--------------------------- MODULE Trace_HttpRetry ---------------------------
(* Trace validation for C14: the real RemoteHTTP / RemoteHTTPIndex clients against a scripted server (retry budget), the
   real client/handler pairs in every compression combination, and the real RemoteSSH store against `desync pull`. *)
EXTENDS Integers, Sequences, FiniteSets, TLC, Json
CONSTANTS TraceFile
Trace == ndJsonDeserialize(TraceFile)
VARIABLES l, bad
HR == INSTANCE HttpRetry WITH MaxLen <- 0, Budgets <- {}, x <- 0
Ev == Trace[l]
IsEvent(e) == l <= Len(Trace) /\ Ev.ev = e /\ l' = l + 1
Flag(cond, what) == IF cond THEN {} ELSE {<<l, what>>}
TInit == TLCSet(1, 0) /\ TLCSet(2, <<>>) /\ l = 1 /\ bad = {}
TRetry == /\ IsEvent("retry")
          /\ LET req == HR!Required(Ev.script, Ev.R, Ev.op) IN
             bad' = bad \cup Flag(Ev.res = req.res, "result differs from what the server's responses and the retry budget require")
                        \cup Flag(Ev.attempts = req.attempts, "number of requests differs from what the retry budget allows/requires")
                        \cup Flag(Ev.res = "ok" => Ev.dataok, "data changed in transit")
TMatrix == /\ IsEvent("matrix")
           /\ bad' = bad \cup Flag(Ev.res = HR!MatrixRequired(Ev.clientcomp, Ev.servercomp), "compression combination: data must arrive unchanged iff client and server agree, else an error")
                         \cup Flag(Ev.res = "ok" => Ev.dataok, "data changed in transit")
TDamaged == /\ IsEvent("matrixdamaged")
            /\ bad' = bad \cup Flag(Ev.res \in HR!DamagedAllowed(Ev.clientcomp, Ev.servercomp, Ev.upstreamcomp, Ev.verify, Ev.damage),
                                    "damaged upstream object: the hop that has to decode it must fail (a failure is never reported as success, nor as missing)")
                          \cup Flag((Ev.upstreamcomp /\ ~Ev.servercomp /\ Ev.damage # "empty") => Ev.rawstatus >= 500,
                                    "the server could not decode the upstream object it has to convert, yet did not answer with a server error")
                          \cup Flag(Ev.rawstatus # 404, "the server reported a damaged object as missing")
\* casync protocol session against the real server
TProto == /\ IsEvent("proto")
          /\ bad' = bad \cup Flag(Ev.res = Ev.want, "casync protocol: " \o Ev.step)
TNext == TRetry \/ TMatrix \/ TDamaged \/ TProto
TSpec == TInit /\ [][TNext]_<<l, bad>>
NoBad == bad = {}
Constr == TLCSet(1, IF TLCGet(1) < l THEN l ELSE TLCGet(1)) /\ (IF TLCGet(1) = l THEN TLCSet(2, <<0, l>>) ELSE TRUE)
Accepted == \/ TLCGet(1) = Len(Trace) + 1
            \/ PrintT(<<"REJECTED", TLCGet(1), Len(Trace), TLCGet(2)>>) /\ FALSE
=============================================================================
