------------------------------ MODULE DedupSim ------------------------------
(* Behaviour export for the spec -> code direction of C12: Dedup with a history variable that records,
   per step, which caller moved (and the arguments of Begin / the outcome of UpReturn).  Completed
   behaviours are printed by TLC (-simulate) and replayed on the real code by harness/cmd/c12. *)
EXTENDS Dedup
VARIABLE hist
svars == <<vars, hist>>
AllOutcomes == {"data", "missing", "error", "true", "false", "ok"}
SInit == Init /\ hist = <<>>
SNext == \E c \in Callers :
   \/ \E k \in Kinds, i \in Ids : Begin(c, k, i) /\ hist' = Append(hist, <<c, "B", k, i>>)
   \/ /\ (Peek(c) \/ LoadOrStore(c) \/ UpStart(c) \/ Publish(c) \/ Close(c) \/ Delete(c) \/ Woke(c) \/ Return(c))
      /\ hist' = Append(hist, <<c, "S">>)
   \/ \E o \in AllOutcomes : UpReturn(c, o) /\ hist' = Append(hist, <<c, "U", o>>)
SSpec == SInit /\ [][SNext]_svars
Done == \A c \in Callers : pc[c] = "idle" /\ ncalls[c] = MaxCalls
Emit == Done => PrintT(<<"BEHAVIOUR", hist>>)
=============================================================================
