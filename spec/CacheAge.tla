------------------------------ MODULE CacheAge ------------------------------
(***************************************************************************)
(* Garbage collection of a local cache by file age (README, "Caching":     *)
(* "when a chunk is read from the cache and it is a local store, mtime of  *)
(* the chunk is updated to allow for basic garbage collection based on     *)
(* file age"; local.go LocalStore.UpdateTimes, cmd/desync/store.go).  Not  *)
(* one of the listed properties (C11 is about what a chain returns): this  *)
(* module extends the store-chain specification to the one piece of state  *)
(* a cache keeps besides its content.                                      *)
(*                                                                         *)
(* clock: logical time.  mtime[c]: 0 = not in the cache, else the time of  *)
(* the file.  lastUse[c]: when c was last requested through the cache.     *)
(* Collect(age) is the external collector (find -mtime): it removes what   *)
(* is older than age.  What the user relies on: a chunk used within the    *)
(* last `age` ticks is never collected (KeepsRecent).  With Variant =       *)
(* "noupdate" (a hit leaves the file's time alone) TLC finds the run in    *)
(* which a chunk in daily use is collected (witness).                      *)
(***************************************************************************)
EXTENDS Integers, FiniteSets, TLC
CONSTANTS Chunks, MaxClock, Age, Variant
VARIABLES clock, mtime, lastUse, lost
vars == <<clock, mtime, lastUse, lost>>
Init == clock = 1 /\ mtime = [c \in Chunks |-> 0] /\ lastUse = [c \in Chunks |-> 0] /\ lost = {}
Tick == clock < MaxClock /\ clock' = clock + 1 /\ UNCHANGED <<mtime, lastUse, lost>>
\* a request through the cache: a miss fills the cache (new file), a hit touches the file
Use(c) == /\ lastUse' = [lastUse EXCEPT ![c] = clock]
          /\ mtime' = [mtime EXCEPT ![c] = IF mtime[c] = 0 THEN clock ELSE IF Variant = "noupdate" THEN @ ELSE clock]
          /\ UNCHANGED <<clock, lost>>
Collect == /\ LET old == {c \in Chunks : mtime[c] # 0 /\ mtime[c] + Age < clock} IN
              /\ old # {}
              /\ mtime' = [c \in Chunks |-> IF c \in old THEN 0 ELSE mtime[c]]
              /\ lost' = lost \cup {c \in old : lastUse[c] + Age >= clock}
           /\ UNCHANGED <<clock, lastUse>>
Next == Tick \/ Collect \/ \E c \in Chunks : Use(c)
Spec == Init /\ [][Next]_vars
KeepsRecent == lost = {}
\* the file's time is never behind the last use
TimeFollowsUse == \A c \in Chunks : mtime[c] # 0 => mtime[c] >= lastUse[c]
=============================================================================
