---------------------------- MODULE ExtractCrash ----------------------------
(***************************************************************************)
(* `desync extract` with process death at any instant (cmd/desync/         *)
(* extract.go writeWithTmpFile / writeInplace, assemble.go writeChunk)     *)
(* -- C08, second and third clause.                                        *)
(*                                                                         *)
(* Temp-file mode: the blob is assembled in a hidden temporary file next   *)
(* to the destination and renamed over it; dest is "prev" (what was there  *)
(* before, possibly nothing), "new" (the complete blob), or something else *)
(* ("gone", "partial").  In-place mode: the target itself is written;      *)
(* valid is the set of index positions whose range holds the right bytes.  *)
(* A re-run examines every position: a valid range is kept, an invalid one *)
(* is taken from an earlier position with the same chunk (self seed) or    *)
(* fetched from the store.  Variant selects the mechanism ("code", or one  *)
(* of the changes the check is meant to catch).                            *)
(***************************************************************************)
EXTENDS Integers, Sequences, FiniteSets, TLC

CONSTANTS NPos, IdAt, Mode, Variant      \* positions 1..NPos of the index, IdAt[c] their chunk IDs
VARIABLES dest, tmp, valid, pc, run, fetched, validAtCrash, done
vars == <<dest, tmp, valid, pc, run, fetched, validAtCrash, done>>
Pos == 1..NPos

Init == /\ dest = "prev" /\ tmp = "none" /\ valid = {} /\ pc = "start" /\ run = 1 /\ fetched = {} /\ validAtCrash = {} /\ done = {}

\* ---- temp-file mode
CreateTmp == /\ Mode = "tmpfile" /\ pc = "start" /\ tmp' = "partial" /\ pc' = "assemble"
             /\ dest' = (IF Variant = "direct" THEN "partial" ELSE dest)             \* assembling straight into the destination
             /\ UNCHANGED <<valid, run, fetched, validAtCrash, done>>
\* ---- in-place mode: the target is truncated/extended to the blob's length first
OpenInplace == /\ Mode = "inplace" /\ pc = "start" /\ pc' = "assemble" /\ dest' = (IF valid = Pos THEN "new" ELSE "partial")
               /\ UNCHANGED <<tmp, valid, run, fetched, validAtCrash, done>>

\* one position is processed (any order: N workers); in a re-run a valid range is kept
Process(c) ==
  /\ pc = "assemble" /\ c \notin done
  /\ done' = done \cup {c}
  /\ IF c \in valid /\ Variant # "nocompare" THEN UNCHANGED <<valid, fetched>>
     ELSE IF \E d \in done : IdAt[d] = IdAt[c] THEN valid' = valid \cup {c} /\ UNCHANGED fetched          \* self seed
     ELSE valid' = valid \cup {c} /\ fetched' = (IF run = 2 THEN fetched \cup {IdAt[c]} ELSE fetched)
  /\ LET v == IF c \in valid /\ Variant # "nocompare" THEN valid ELSE valid \cup {c} IN
     /\ tmp' = (IF Mode = "tmpfile" /\ v = Pos THEN "complete" ELSE tmp)
     /\ dest' = (IF Mode = "inplace" \/ Variant = "direct" THEN (IF v = Pos THEN "new" ELSE "partial") ELSE dest)
  /\ UNCHANGED <<pc, run, validAtCrash>>
\* a write cut short: the range is not valid
Partial(c) == /\ run = 1 /\ pc = "assemble" /\ c \notin done /\ c \notin valid /\ pc' = "dead" /\ validAtCrash' = valid
              /\ UNCHANGED <<dest, tmp, valid, run, fetched, done>>

RemoveDest == /\ Mode = "tmpfile" /\ Variant = "removefirst" /\ pc = "assemble" /\ done = Pos /\ pc' = "removed" /\ dest' = "gone"
              /\ UNCHANGED <<tmp, valid, run, fetched, validAtCrash, done>>
Rename == /\ Mode = "tmpfile" /\ done = Pos /\ pc = (IF Variant = "removefirst" THEN "removed" ELSE "assemble")
          /\ dest' = (IF Variant = "direct" THEN dest ELSE "new") /\ tmp' = "none" /\ pc' = "finished"
          /\ UNCHANGED <<valid, run, fetched, validAtCrash, done>>
FinishInplace == /\ Mode = "inplace" /\ done = Pos /\ pc = "assemble" /\ pc' = "finished"
                 /\ UNCHANGED <<dest, tmp, valid, run, fetched, validAtCrash, done>>

Crash == /\ pc \in {"start", "assemble", "removed"} /\ run = 1 /\ pc' = "dead" /\ validAtCrash' = valid
         /\ UNCHANGED <<dest, tmp, valid, run, fetched, done>>
Rerun == /\ pc = "dead" /\ run = 1 /\ Mode = "inplace" /\ run' = 2 /\ pc' = "start" /\ done' = {}
         /\ UNCHANGED <<dest, tmp, valid, fetched, validAtCrash>>

Next == CreateTmp \/ OpenInplace \/ (\E c \in Pos : Process(c) \/ Partial(c)) \/ RemoveDest \/ Rename \/ FinishInplace \/ Crash \/ Rerun
Spec == Init /\ [][Next]_vars

\* ---- the properties
\* temp-file mode: until the rename the destination keeps its previous state; afterwards it is the complete blob
DestIntact == Mode = "tmpfile" => (dest = "prev" /\ pc # "finished") \/ (dest = "new" /\ pc = "finished")
\* in-place mode: a re-run completes, and fetches only chunks of positions that were not valid after the death
RefetchBound == run = 2 => fetched \subseteq {IdAt[c] : c \in Pos \ validAtCrash}
\* (with one worker, positions in index order: a chunk is fetched only at the first position that holds it -- checked on the
\* records of the real re-runs in Trace_ChunkWrite, where the order is known)
RerunCompletes == (run = 2 /\ pc = "finished") => valid = Pos /\ dest = "new"
\* reachability witness: a re-run that fetched something and kept something
RerunBoth == ~(run = 2 /\ pc = "finished" /\ fetched # {} /\ validAtCrash # {})
=============================================================================
