------------------------------ MODULE Assemble ------------------------------
(***************************************************************************)
(* AssembleFile, chunk-level concurrency core (assemble.go, sequencer.go,  *)
(* selfseed.go, fileseed.go, nullseed.go) -- C01, C07.                     *)
(* One cell per chunk; one file seed of the target's length that is either *)
(* a separate file (its data differing from its index in at most one       *)
(* position, plus MaxMut mutations at any time) or an alias of the target. *)
(* Every index, prior target content and seed index; all interleavings of  *)
(* the workers.  Byte-level clone arithmetic is in CloneRange.tla, the     *)
(* empty index and lock discipline are exercised on the real code.         *)
(***************************************************************************)
EXTENDS AssembleOps, TLC
CONSTANTS K, Vals, Workers, Act, MaxMut
Pos == 1..K
G == "g"
VARIABLES idx, target, blank, claim, sdata, alias, invalid, phase, plan, qi, left,
          wpc, wjob, wfix, written, cache, werr, result, mut, attempt
vars == <<idx, target, blank, claim, sdata, alias, invalid, phase, plan, qi, left,
          wpc, wjob, wfix, written, cache, werr, result, mut, attempt>>
NoJob == [first |-> 0, last |-> 0, src |-> "none", q |-> 0]
Init == /\ idx \in [Pos -> Vals]
        /\ blank \in BOOLEAN
        /\ target \in IF blank THEN {[p \in Pos |-> "z"]} ELSE [Pos -> Vals \cup {G}]
        /\ alias \in BOOLEAN
        /\ claim \in [Pos -> Vals]
        /\ sdata \in IF alias THEN {[p \in Pos |-> G]}
                     ELSE {d \in [Pos -> Vals \cup {G}] : Cardinality({p \in Pos : d[p] # claim[p]}) <= 1}
        /\ (alias /\ blank => \A p \in Pos : claim[p] = "z")   \* an aliasing seed of an empty file is all-null at best
        /\ invalid = FALSE /\ phase = "plan" /\ plan = <<>> /\ qi = 1 /\ left = FALSE
        /\ wpc = [w \in Workers |-> "idle"] /\ wjob = [w \in Workers |-> NoJob]
        /\ wfix = [w \in Workers |-> {}] /\ written = 0 /\ cache = {} /\ werr = FALSE
        /\ result = "none" /\ mut = 0 /\ attempt = 1
SeedVal(t, j) == IF alias THEN t[j] ELSE sdata[j]
\* ---- sequencer (Plan.tla) ----
NullRun(p) == MaxOf({n \in 0..(K-p+1) : \A i \in 0..(n-1) : idx[p+i] = "z"})
MatchLen(c, p, q) == MaxOf({n \in 0..(K - (IF p > q THEN p ELSE q) + 1) : \A i \in 0..(n-1) : idx[p+i] = c[q+i]})
Seg(c, inv, p) ==
  LET n0 == NullRun(p)
      best == IF inv THEN 0 ELSE MaxOf({MatchLen(c, p, q) : q \in Pos})
      bq == IF best = 0 THEN 0 ELSE MinOf({q \in Pos : MatchLen(c, p, q) = best})
  IN IF best > n0 THEN [first |-> p, last |-> p + best - 1, src |-> "seed", q |-> bq]
     ELSE IF n0 > 0 THEN [first |-> p, last |-> p + n0 - 1, src |-> "null", q |-> 0]
     ELSE [first |-> p, last |-> p, src |-> "none", q |-> 0]
RECURSIVE MkPlan(_, _, _)
MkPlan(c, inv, p) == IF p > K THEN <<>> ELSE <<Seg(c, inv, p)>> \o MkPlan(c, inv, Seg(c, inv, p).last + 1)
BuildPlan == /\ phase = "plan" /\ plan' = MkPlan(claim, invalid, 1) /\ phase' = "validate" /\ qi' = 1
             /\ UNCHANGED <<idx, target, blank, claim, sdata, alias, invalid, left, wpc, wjob, wfix, written, cache, werr, result, mut, attempt>>
SegBad(s) == s.src = "seed" /\ \E i \in 0..(s.last - s.first) : SeedVal(target, s.q + i) # claim[s.q + i]
Validate ==
  /\ phase = "validate"
  /\ IF \E k \in 1..Len(plan) : SegBad(plan[k])
     THEN CASE Act = "bail"  -> /\ result' = "err" /\ phase' = "done" /\ UNCHANGED <<invalid, claim, attempt>>
            [] Act = "skip"  -> /\ invalid' = TRUE /\ phase' = "plan" /\ attempt' = attempt + 1 /\ UNCHANGED <<result, claim>>
            [] Act = "regen" -> /\ claim' = [j \in Pos |-> SeedVal(target, j)] /\ phase' = "plan" /\ attempt' = attempt + 1
                                /\ UNCHANGED <<result, invalid>>
     ELSE /\ phase' = "run" /\ UNCHANGED <<result, invalid, claim, attempt>>
  /\ UNCHANGED <<idx, target, blank, sdata, alias, plan, qi, left, wpc, wjob, wfix, written, cache, werr, mut>>
\* ---- feeder / workers ----
Feed(w) == /\ phase = "run" /\ ~left /\ qi <= Len(plan) /\ wpc[w] = "idle"
           /\ wjob' = [wjob EXCEPT ![w] = plan[qi]] /\ qi' = qi + 1 /\ wpc' = [wpc EXCEPT ![w] = "write"]
           /\ UNCHANGED <<idx, target, blank, claim, sdata, alias, invalid, phase, plan, left, wfix, written, cache, werr, result, mut, attempt>>
Leave == /\ phase = "run" /\ ~left /\ (werr \/ qi > Len(plan)) /\ left' = TRUE
         /\ UNCHANGED <<idx, target, blank, claim, sdata, alias, invalid, phase, plan, qi, wpc, wjob, wfix, written, cache, werr, result, mut, attempt>>
SelfPos(p) == {x \in 1..written : idx[x] = idx[p]}
WriteChunk(t, p) == IF SelfPos(p) # {} THEN [t EXCEPT ![p] = t[MinOf(SelfPos(p))]]
                    ELSE IF ~blank /\ t[p] = idx[p] THEN t ELSE [t EXCEPT ![p] = idx[p]]
RECURSIVE CopySeq(_, _, _)
CopySeq(t, j, i) == IF j.first + i > j.last THEN t
                    ELSE CopySeq([t EXCEPT ![j.first + i] = SeedVal(t, j.q + i)], j, i + 1)
Write(w) ==
  /\ wpc[w] = "write"
  /\ LET j == wjob[w] IN
     CASE j.src = "null" -> /\ target' = IF blank THEN target ELSE [p \in Pos |-> IF p >= j.first /\ p <= j.last THEN "z" ELSE target[p]]
                            /\ wpc' = [wpc EXCEPT ![w] = "verify"]
       [] j.src = "seed" -> /\ target' = CopySeq(target, j, 0) /\ wpc' = [wpc EXCEPT ![w] = "verify"]
       [] j.src = "none" -> /\ target' = WriteChunk(target, j.first) /\ wpc' = [wpc EXCEPT ![w] = "add"]
  /\ UNCHANGED <<idx, blank, claim, sdata, alias, invalid, phase, plan, qi, left, wjob, wfix, written, cache, werr, result, mut, attempt>>
Verify(w) ==
  /\ wpc[w] = "verify"
  /\ LET j == wjob[w]  bad == {p \in j.first..j.last : target[p] # idx[p]} IN
     IF bad = {} THEN /\ wpc' = [wpc EXCEPT ![w] = "add"] /\ UNCHANGED <<wfix, werr>>
     ELSE IF Act = "regen" THEN /\ wfix' = [wfix EXCEPT ![w] = bad] /\ wpc' = [wpc EXCEPT ![w] = "fix"] /\ UNCHANGED werr
     ELSE /\ werr' = TRUE /\ wpc' = [wpc EXCEPT ![w] = "dead"] /\ UNCHANGED wfix
  /\ UNCHANGED <<idx, target, blank, claim, sdata, alias, invalid, phase, plan, qi, left, wjob, written, cache, result, mut, attempt>>
Fix(w) == /\ wpc[w] = "fix"
          /\ LET p == MinOf(wfix[w]) IN
             /\ target' = WriteChunk(target, p) /\ wfix' = [wfix EXCEPT ![w] = @ \ {p}]
             /\ wpc' = [wpc EXCEPT ![w] = IF wfix[w] = {p} THEN "add" ELSE "fix"]
          /\ UNCHANGED <<idx, blank, claim, sdata, alias, invalid, phase, plan, qi, left, wjob, written, cache, werr, result, mut, attempt>>
Add(w) == /\ wpc[w] = "add"
          /\ LET r == Adv(written, cache \cup {<<wjob[w].first, wjob[w].last>>}) IN written' = r[1] /\ cache' = r[2]
          /\ wpc' = [wpc EXCEPT ![w] = "idle"]
          /\ UNCHANGED <<idx, target, blank, claim, sdata, alias, invalid, phase, plan, qi, left, wjob, wfix, werr, result, mut, attempt>>
Mutate == /\ ~alias /\ mut < MaxMut /\ phase \in {"validate", "run"}
          /\ \E p \in Pos : sdata[p] # G /\ sdata' = [sdata EXCEPT ![p] = G]
          /\ mut' = mut + 1
          /\ UNCHANGED <<idx, target, blank, claim, alias, invalid, phase, plan, qi, left, wpc, wjob, wfix, written, cache, werr, result, attempt>>
Finish == /\ phase = "run" /\ left /\ \A w \in Workers : wpc[w] \in {"idle", "dead"}
          /\ result' = (IF werr THEN "err" ELSE "ok") /\ phase' = "done"
          /\ UNCHANGED <<idx, target, blank, claim, sdata, alias, invalid, plan, qi, left, wpc, wjob, wfix, written, cache, werr, mut, attempt>>
Next == BuildPlan \/ Validate \/ Leave \/ Mutate \/ Finish
        \/ \E w \in Workers : Feed(w) \/ Write(w) \/ Verify(w) \/ Fix(w) \/ Add(w)
Spec == Init /\ [][Next]_vars
Safe == result = "ok" => target = idx
SelfSound == \A p \in 1..written : target[p] = idx[p]
PlanTiles == phase \in {"validate", "run"} => Tiles(plan, K)
NoStuck == (~ENABLED Next) => phase = "done"
\* regenerate must succeed (store complete); skip/bail may fail only if the seed was inconsistent or changed
RegenSucceeds == (Act = "regen" /\ phase = "done") => result = "ok"
=============================================================================
