----------------------------- MODULE PipelineMC -----------------------------
(* Design-level exploration of the pipeline skeleton with the code's sequencing discipline:
   ChunkStorage.StoreChunk (mode "chop": ChopFile, ChunkStream) and Copy (mode "copy"), all interleavings
   of the workers and the feeder, every fault plan with at most MaxFaults failing store calls, cancellation
   at every point.  Dev_FeederCancelNil is the behaviour the unrepaired code had (finding F4). *)
EXTENDS Pipeline
CONSTANTS Ids, MaxJobs, NW, MaxFaults, Mode, MayCancel, AllowDev
VARIABLES wpc, left
mcvars == <<vars, wpc, left>>

JobSeqs == UNION {[1..n -> Ids] : n \in 0..MaxJobs}
MCInit == /\ \E js \in JobSeqs, have \in SUBSET Ids : InitWith(js, NW, have, Len(js))
          /\ wpc = [w \in 1..NW |-> "recv"] /\ left = FALSE

Id(w) == jobs[inflight[w]]
CanFail == failedCalls < MaxFaults

MCFeed == offered = {} /\ nextj <= Len(jobs) /\ Feed({nextj}) /\ UNCHANGED <<wpc, left>>
MCLeave == CtxDone /\ Leave /\ left' = TRUE /\ UNCHANGED wpc
MCClose == (feeder = "left" \/ (nextj > Len(jobs) /\ offered = {})) /\ Close /\ UNCHANGED <<wpc, left>>
MCTake(w) == /\ wpc[w] = "recv" /\ feeder = "feeding" /\ \E j \in offered : Take(w, j)
             /\ wpc' = [wpc EXCEPT ![w] = IF Mode = "copy" THEN "has" ELSE "mark"] /\ UNCHANGED left
MCMark(w) == /\ wpc[w] = "mark" /\ Mark(Id(w))
             /\ wpc' = [wpc EXCEPT ![w] = IF Id(w) \in processed THEN "finish" ELSE "has"] /\ UNCHANGED left
MCHas(w) == /\ wpc[w] = "has"
            /\ \E res \in {"true", "false", "error"} :
                 /\ res = "true" => Id(w) \in stored
                 /\ res = "false" => Id(w) \notin stored
                 /\ res = "error" => CanFail
                 /\ StoreCall("has", Id(w), res)
                 /\ wpc' = [wpc EXCEPT ![w] = CASE res = "true" -> "finish"
                                                [] res = "false" -> (IF Mode = "copy" THEN "get" ELSE "store")
                                                [] OTHER -> "failing"]
            /\ UNCHANGED left
\* Copy: fetch from the source store (which is assumed to hold every chunk unless the call fails)
MCGet(w) == /\ wpc[w] = "get"
            /\ \E res \in {"ok", "error"} :
                 /\ res = "error" => CanFail
                 /\ StoreCall("get", Id(w), res)
                 /\ wpc' = [wpc EXCEPT ![w] = IF res = "ok" THEN "store" ELSE "failing"]
            /\ UNCHANGED left
MCStore(w) == /\ wpc[w] = "store"
              /\ \E res \in {"ok", "error"} :
                   /\ res = "error" => CanFail
                   /\ StoreCall("store", Id(w), res)
                   /\ wpc' = [wpc EXCEPT ![w] = IF res = "ok" THEN "finish"
                                                 ELSE IF Mode = "copy" THEN "failing" ELSE "unmark"]
              /\ UNCHANGED left
MCUnmark(w) == /\ wpc[w] = "unmark" /\ Unmark(Id(w)) /\ wpc' = [wpc EXCEPT ![w] = "failing"] /\ UNCHANGED left
MCFinish(w) == /\ wpc[w] = "finish" /\ JobDone(w) /\ wpc' = [wpc EXCEPT ![w] = "recv"] /\ UNCHANGED left
MCFail(w) == /\ wpc[w] = "failing" /\ Exit(w) /\ wpc' = [wpc EXCEPT ![w] = "exited"] /\ UNCHANGED left
MCEnd(w) == /\ wpc[w] = "recv" /\ feeder = "closed" /\ Exit(w) /\ wpc' = [wpc EXCEPT ![w] = "exited"] /\ UNCHANGED left
MCCancel == MayCancel /\ Cancel /\ UNCHANGED <<wpc, left>>
CanWait == feeder = "closed" /\ exited = WorkersSet /\ result = "none"
MCWait == /\ CanWait
          /\ Report(IF workerErr THEN "error" ELSE IF left THEN "interrupted" ELSE "ok")
          /\ UNCHANGED <<wpc, left>>
Dev_FeederCancelNil == /\ "FeederCancelNil" \in AllowDev /\ CanWait /\ ~workerErr /\ left
                       /\ Report("ok") /\ UNCHANGED <<wpc, left>>
MCNext == MCFeed \/ MCLeave \/ MCClose \/ MCCancel \/ MCWait \/ Dev_FeederCancelNil
          \/ \E w \in 1..NW : MCTake(w) \/ MCMark(w) \/ MCHas(w) \/ MCGet(w) \/ MCStore(w) \/ MCUnmark(w)
                              \/ MCFinish(w) \/ MCFail(w) \/ MCEnd(w)
MCSpec == MCInit /\ [][MCNext]_mcvars
Terminates == (~ ENABLED MCNext) => result # "none"
\* without cancellation and faults the run succeeds
CleanRunSucceeds == (result # "none" /\ ~cancelled /\ failedCalls = 0) => result = "ok"
\* reachability witnesses (expected to be violated)
NeverRaceOnId == ~ \E a, b \in 1..NW : a # b /\ inflight[a] # 0 /\ inflight[b] # 0 /\ jobs[inflight[a]] = jobs[inflight[b]]
NeverInterrupted == result # "interrupted"
NeverError == result # "error"
=============================================================================
