----------------------------- MODULE ParChunker -----------------------------
(***************************************************************************)
(* Parallel chunking (make.go: IndexFromFile, pChunker) -- C02, C07.       *)
(*                                                                         *)
(* The data is abstracted to what the protocol can observe:                *)
(*   bnd    positions p at which the 48-byte window ending at p meets the  *)
(*          discriminator -- a function of the data only, independent of   *)
(*          where the chunk started (this is why two chunkers re-sync)     *)
(*   nulls  positions s such that data[s, s+Mx) is all zero                *)
(* Cut(s) is the rolling-hash rule; Chain(0) the single-stream result.     *)
(*                                                                         *)
(* One action per code segment between two verifYield points.  Every       *)
(* segment performs at most one operation on shared state (a channel or    *)
(* the done flag of a neighbour), so interleaving whole segments covers    *)
(* real parallel execution.  The action is named after the hook point the  *)
(* goroutine ARRIVES at when the segment ends.                             *)
(***************************************************************************)
EXTENDS Integers, Sequences, FiniteSets, TLC

VARIABLES P,        \* [L, Mn, Mx, NW] parameters of this run (constant during a run)
          bnd, nulls, cancelled,
          pos, bucket, pending, closed, active, eof, err, sync, nxt, pc, chunk, prev, zeroes, insync, nulltodo,
          mi, out, mres

vars == <<P, bnd, nulls, cancelled, pos, bucket, pending, closed, active, eof, err, sync, nxt, pc, chunk, prev,
          zeroes, insync, nulltodo, mi, out, mres>>

MinOf(S) == CHOOSE x \in S : \A y \in S : x <= y
L == P.L
Mn == P.Mn
Mx == P.Mx
NW == P.NW
W == 0..(NW-1)
NIL == NW
Span == L \div NW
Z == <<0, 0>>

\* make.go: n is reduced for small files
Workers(len, mx, nreq) == LET nn == (len \div mx) + 1 IN IF nn < nreq THEN nn ELSE nreq

\* the rolling-hash rule (chunker.go Next): everything if at most min bytes are left, otherwise the
\* first boundary at or after s+min+1, capped at s+max and at the end of the data
CutP(p, b, s) == IF p.L - s <= p.Mn THEN p.L
                 ELSE LET hi == IF s + p.Mx < p.L THEN s + p.Mx ELSE p.L
                      IN MinOf({x \in (s+p.Mn+1)..hi : x \in b \/ x = hi})
RECURSIVE ChainP(_, _, _)
ChainP(p, b, s) == IF s >= p.L THEN <<>> ELSE <<<<s, CutP(p, b, s)>>>> \o ChainP(p, b, CutP(p, b, s))
Cut(s) == CutP(P, bnd, s)
Chain(s) == ChainP(P, bnd, s)
IsNull(c) == c[2] - c[1] = Mx /\ c[1] \in nulls

\* initial values of the per-run state for nw workers spaced span bytes apart
W0(nw, span) ==
  [pos |-> [i \in 0..(nw-1) |-> span * i], bucket |-> [i \in 0..(nw-1) |-> <<>>],
   f |-> [i \in 0..(nw-1) |-> FALSE], t |-> [i \in 0..(nw-1) |-> TRUE],
   z |-> [i \in 0..(nw-1) |-> Z], nxt |-> [i \in 0..(nw-1) |-> IF i + 1 < nw THEN i + 1 ELSE nw],
   pc |-> [i \in 0..(nw-1) |-> "init"], n |-> [i \in 0..(nw-1) |-> 0]]
InitWorkers ==
  LET r == W0(NW, Span) IN
  /\ pos = r.pos /\ bucket = r.bucket /\ pending = r.f /\ closed = r.f /\ active = r.t /\ eof = r.f /\ err = r.f
  /\ sync = r.z /\ nxt = r.nxt /\ pc = r.pc /\ chunk = r.z /\ prev = r.z
  /\ zeroes = r.n /\ insync = r.f /\ nulltodo = r.n
  /\ mi = 0 /\ out = <<>> /\ mres = "none" /\ cancelled = FALSE
\* the same as an action (a new run in a concatenated trace)
ResetWorkers(p) ==
  LET r == W0(p.NW, p.L \div p.NW) IN
  /\ pos' = r.pos /\ bucket' = r.bucket /\ pending' = r.f /\ closed' = r.f /\ active' = r.t /\ eof' = r.f /\ err' = r.f
  /\ sync' = r.z /\ nxt' = r.nxt /\ pc' = r.pc /\ chunk' = r.z /\ prev' = r.z
  /\ zeroes' = r.n /\ insync' = r.f /\ nulltodo' = r.n
  /\ mi' = 0 /\ out' = <<>> /\ mres' = "none" /\ cancelled' = FALSE

WU == <<P, bnd, nulls>>   \* the data never changes

\* --- arrival at pc.top: goroutine start, or the neighbour-skip test after pc.skipcheck
Start(i) == /\ pc[i] = "init" /\ pc' = [pc EXCEPT ![i] = "top"]
            /\ UNCHANGED <<WU, cancelled, pos, bucket, pending, closed, active, eof, err, sync, nxt, chunk, prev, zeroes,
                           insync, nulltodo, mi, out, mres>>
SkipTest(i) ==
  /\ pc[i] = "skip"
  /\ LET n == nxt[i] IN
     IF n # NIL /\ ~active[n] /\ bucket[n] = <<>> THEN nxt' = [nxt EXCEPT ![i] = nxt[n]] ELSE UNCHANGED nxt
  /\ pc' = [pc EXCEPT ![i] = "top"]
  /\ UNCHANGED <<WU, cancelled, pos, bucket, pending, closed, active, eof, err, sync, chunk, prev, zeroes, insync,
                 nulltodo, mi, out, mres>>

\* --- from pc.top: interrupted / end of stream -> pc.stopping; otherwise the next chunk is cut and
\*     (pc.send) about to be put into the own bucket: pending.  The send itself is the first thing the
\*     next segment does; it cannot block (the bucket's capacity is the maximal number of chunks).  Send is
\*     also a step of its own so that others can see the chunk before the sender's next arrival.
Flush(i) == IF pending[i] THEN [bucket EXCEPT ![i] = Append(@, chunk[i])] ELSE bucket
Flushed(i) == [pending EXCEPT ![i] = FALSE]
Send(i) == /\ pending[i] /\ bucket' = Flush(i) /\ pending' = Flushed(i)
           /\ UNCHANGED <<WU, cancelled, pos, closed, active, eof, err, sync, nxt, pc, chunk, prev, zeroes, insync,
                          nulltodo, mi, out, mres>>
Produce(i) ==
  /\ pc[i] = "top"
  /\ IF cancelled
     THEN /\ err' = [err EXCEPT ![i] = TRUE] /\ pc' = [pc EXCEPT ![i] = "stopping"]
          /\ UNCHANGED <<eof, pos, bucket, pending, chunk, prev, insync>>
     ELSE IF pos[i] >= L
     THEN /\ eof' = [eof EXCEPT ![i] = TRUE] /\ pc' = [pc EXCEPT ![i] = "stopping"]
          /\ UNCHANGED <<err, pos, bucket, pending, chunk, prev, insync>>
     ELSE LET c == <<pos[i], Cut(pos[i])>> IN
          /\ chunk' = [chunk EXCEPT ![i] = c] /\ pending' = [pending EXCEPT ![i] = TRUE]
          /\ pos' = [pos EXCEPT ![i] = c[2]] /\ UNCHANGED bucket
          /\ prev' = [prev EXCEPT ![i] = Z] /\ insync' = [insync EXCEPT ![i] = FALSE]
          /\ pc' = [pc EXCEPT ![i] = IF nxt[i] = NIL THEN "toskip" ELSE "sync1"]
          /\ UNCHANGED <<eof, err>>
  /\ UNCHANGED <<WU, cancelled, closed, active, sync, nxt, zeroes, nulltodo, mi, out, mres>>

\* --- syncWith, first loop: one receive from the neighbour's bucket (pc.pop) ...
Pop(i) ==
  /\ pc[i] = "sync1"
  /\ LET n == nxt[i] IN
     /\ chunk[i][1] > sync[n][1]
     /\ pending' = Flushed(i)
     /\ IF bucket[n] # <<>>
        THEN /\ prev' = [prev EXCEPT ![i] = sync[n]] /\ sync' = [sync EXCEPT ![n] = Head(bucket[n])]
             /\ bucket' = [Flush(i) EXCEPT ![n] = Tail(@)] /\ UNCHANGED <<pc, zeroes>>
        ELSE /\ prev' = [prev EXCEPT ![i] = sync[n]]
             /\ IF closed[n] THEN sync' = [sync EXCEPT ![n] = Z] ELSE UNCHANGED sync
             /\ zeroes' = [zeroes EXCEPT ![i] = 0] /\ pc' = [pc EXCEPT ![i] = "syncret"]
             /\ bucket' = Flush(i)
  /\ UNCHANGED <<WU, cancelled, pos, closed, active, eof, err, nxt, chunk, insync, nulltodo, mi, out, mres>>
\* ... or the neighbour's cursor is at or past our chunk (pc.caughtup)
CaughtUp(i) ==
  /\ pc[i] = "sync1" /\ ~(chunk[i][1] > sync[nxt[i]][1])
  /\ pc' = [pc EXCEPT ![i] = "sync2"] /\ bucket' = Flush(i) /\ pending' = Flushed(i)
  /\ UNCHANGED <<WU, cancelled, pos, closed, active, eof, err, sync, nxt, chunk, prev, zeroes, insync,
                 nulltodo, mi, out, mres>>

InSyncCond(i) == chunk[i] = sync[nxt[i]]
NullRunCond(i) == IsNull(sync[nxt[i]]) /\ IsNull(prev[i])

\* --- pc.nullrun: not in sync but two null chunks in a row ahead
NullRun(i) ==
  /\ pc[i] = "sync2" /\ ~InSyncCond(i) /\ NullRunCond(i)
  /\ zeroes' = [zeroes EXCEPT ![i] = prev[i][2] - chunk[i][1]]
  /\ pc' = [pc EXCEPT ![i] = "sync3"]
  /\ UNCHANGED <<WU, cancelled, pos, bucket, pending, closed, active, eof, err, sync, nxt, chunk, prev, insync,
                 nulltodo, mi, out, mres>>
\* --- pc.npop: one receive in the null-run loop
NPop(i) ==
  /\ pc[i] = "sync3"
  /\ LET n == nxt[i] IN
     IF bucket[n] # <<>>
     THEN /\ sync' = [sync EXCEPT ![n] = Head(bucket[n])] /\ bucket' = [bucket EXCEPT ![n] = Tail(@)]
          /\ IF IsNull(Head(bucket[n]))
             THEN /\ zeroes' = [zeroes EXCEPT ![i] = @ + Mx] /\ UNCHANGED pc
             ELSE /\ pc' = [pc EXCEPT ![i] = "syncret"] /\ UNCHANGED zeroes
     ELSE /\ IF closed[n] THEN sync' = [sync EXCEPT ![n] = Z] ELSE UNCHANGED sync
          /\ pc' = [pc EXCEPT ![i] = "syncret"] /\ UNCHANGED <<bucket, zeroes>>
  /\ UNCHANGED <<WU, cancelled, pos, pending, closed, active, eof, err, nxt, chunk, prev, insync, nulltodo, mi, out, mres>>

\* --- pc.synced: syncWith returned (in sync / not in sync and no null run / after the loops)
Synced(i) ==
  /\ \/ /\ pc[i] = "sync2" /\ InSyncCond(i)
        /\ insync' = [insync EXCEPT ![i] = TRUE] /\ zeroes' = [zeroes EXCEPT ![i] = 0]
     \/ /\ pc[i] = "sync2" /\ ~InSyncCond(i) /\ ~NullRunCond(i)
        /\ zeroes' = [zeroes EXCEPT ![i] = 0] /\ UNCHANGED insync
     \/ /\ pc[i] = "syncret" /\ UNCHANGED <<insync, zeroes>>
  /\ pc' = [pc EXCEPT ![i] = "aftersync"]
  /\ UNCHANGED <<WU, cancelled, pos, bucket, pending, closed, active, eof, err, sync, nxt, chunk, prev, nulltodo, mi, out, mres>>

NumNull(i) == zeroes[i] \div Mx

\* --- pc.send (null): fast-forward over known null chunks: Advance, then one send per null chunk
NullFirst(i) ==
  /\ pc[i] = "aftersync" /\ ~insync[i] /\ NumNull(i) > 0
  /\ LET nc == <<chunk[i][2], chunk[i][2] + Mx>> IN
     /\ pos' = [pos EXCEPT ![i] = @ + NumNull(i) * Mx]
     /\ pending' = [pending EXCEPT ![i] = TRUE] /\ UNCHANGED bucket /\ chunk' = [chunk EXCEPT ![i] = nc]
     /\ nulltodo' = [nulltodo EXCEPT ![i] = NumNull(i) - 1]
  /\ pc' = [pc EXCEPT ![i] = "nullloop"]
  /\ UNCHANGED <<WU, cancelled, closed, active, eof, err, sync, nxt, prev, zeroes, insync, mi, out, mres>>
NullNext(i) ==
  /\ pc[i] = "nullloop" /\ nulltodo[i] > 0
  /\ LET nc == <<chunk[i][2], chunk[i][2] + Mx>> IN
     /\ bucket' = Flush(i) /\ pending' = [pending EXCEPT ![i] = TRUE] /\ chunk' = [chunk EXCEPT ![i] = nc]
     /\ nulltodo' = [nulltodo EXCEPT ![i] = @ - 1]
  /\ UNCHANGED <<WU, cancelled, pos, closed, active, eof, err, sync, nxt, pc, prev, zeroes, insync, mi, out, mres>>

\* --- pc.skipcheck
ToSkip(i) ==
  /\ \/ pc[i] = "toskip"
     \/ pc[i] = "aftersync" /\ ~insync[i] /\ NumNull(i) = 0
     \/ pc[i] = "nullloop" /\ nulltodo[i] = 0
  /\ pc' = [pc EXCEPT ![i] = "skip"] /\ bucket' = Flush(i) /\ pending' = Flushed(i)
  /\ UNCHANGED <<WU, cancelled, pos, closed, active, eof, err, sync, nxt, chunk, prev, zeroes, insync,
                 nulltodo, mi, out, mres>>

\* --- pc.stopping (in sync with the neighbour), pc.stopped (stop()), pc.closed (close(results))
InSyncStop(i) ==
  /\ pc[i] = "aftersync" /\ insync[i] /\ pc' = [pc EXCEPT ![i] = "stopping"]
  /\ UNCHANGED <<WU, cancelled, pos, bucket, pending, closed, active, eof, err, sync, nxt, chunk, prev, zeroes, insync,
                 nulltodo, mi, out, mres>>
Stop(i) == /\ pc[i] = "stopping" /\ active' = [active EXCEPT ![i] = FALSE] /\ pc' = [pc EXCEPT ![i] = "closing"]
           /\ UNCHANGED <<WU, cancelled, pos, bucket, pending, closed, eof, err, sync, nxt, chunk, prev, zeroes, insync,
                          nulltodo, mi, out, mres>>
Close(i) == /\ pc[i] = "closing" /\ closed' = [closed EXCEPT ![i] = TRUE] /\ pc' = [pc EXCEPT ![i] = "done"]
            /\ UNCHANGED <<WU, cancelled, pos, bucket, pending, active, eof, err, sync, nxt, chunk, prev, zeroes, insync,
                           nulltodo, mi, out, mres>>

\* --- the aggregator (IndexFromFile's loop over the workers)
MainTake == /\ mres = "none" /\ bucket[mi] # <<>>
            /\ out' = Append(out, Head(bucket[mi])) /\ bucket' = [bucket EXCEPT ![mi] = Tail(@)]
            /\ UNCHANGED <<WU, cancelled, pos, pending, closed, active, eof, err, sync, nxt, pc, chunk, prev, zeroes, insync,
                           nulltodo, mi, mres>>
\* The aggregator goes on with the worker the drained one stopped in favour of: its `next`, which a worker moves past a
\* follower that has ended and whose bucket it has emptied (SkipTest).  As found, the loop took the workers in slice order
\* (mi + 1): when worker i had emptied the bucket of an i+1 that had itself reached the end of the file and then fell in
\* step with i+2, the loop stopped at i+1 ("eof") and the chunks left in i+2's bucket were lost - an index shorter than the
\* file, reported as success (finding F30; it needs a boundary that i+1 ignores because it lies closer than the minimum
\* size to its previous cut, which the exhaustive configurations with a minimum of 1 cannot produce; a recorded trace of
\* the real code found it).
AggNext(i) == nxt[i]
MainDrained == /\ mres = "none" /\ bucket[mi] = <<>> /\ closed[mi]
               /\ IF err[mi] THEN mres' = "err" /\ UNCHANGED mi
                  ELSE IF eof[mi] \/ AggNext(mi) = NIL THEN mres' = "ok" /\ UNCHANGED mi
                  ELSE mi' = AggNext(mi) /\ UNCHANGED mres
               /\ UNCHANGED <<WU, cancelled, pos, bucket, pending, closed, active, eof, err, sync, nxt, pc, chunk, prev,
                              zeroes, insync, nulltodo, out>>
Cancel == /\ ~cancelled /\ mres = "none" /\ cancelled' = TRUE
          /\ UNCHANGED <<WU, pos, bucket, pending, closed, active, eof, err, sync, nxt, pc, chunk, prev, zeroes, insync,
                         nulltodo, mi, out, mres>>

WorkerStep(i) == Start(i) \/ SkipTest(i) \/ Send(i) \/ Produce(i) \/ Pop(i) \/ CaughtUp(i) \/ NullRun(i) \/ NPop(i)
                 \/ Synced(i) \/ NullFirst(i) \/ NullNext(i) \/ ToSkip(i) \/ InSyncStop(i) \/ Stop(i) \/ Close(i)
Main == MainTake \/ MainDrained
MainEnabled == mres = "none" /\ (bucket[mi] # <<>> \/ closed[mi])

----------------------------------------------------------------------------
(* The property *)
\* the index returned on success is the single-stream chunk sequence -- also when the run was cancelled (C07)
Correct == mres = "ok" => out = Chain(0)
\* what has been accepted so far is always a prefix of the single-stream sequence
PrefixOK == LET c == Chain(0) IN Len(out) <= Len(c) /\ \A k \in 1..Len(out) : out[k] = c[k]
\* Advance never runs past the end of the data
PosOK == \A i \in W : pos[i] <= L
\* an uncancelled run ends with success, a cancelled one with success or an error: never stuck
AllDoneOrMain == mres # "none" \/ MainEnabled \/ \E i \in W : ENABLED WorkerStep(i)
NoErrUnlessCancelled == (mres = "err") => cancelled
=============================================================================
