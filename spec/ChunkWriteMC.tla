---------------------------- MODULE ChunkWriteMC ----------------------------
EXTENDS ChunkWrite
MCIdOf == [w \in Writers |-> IF w = "w3" THEN 2 ELSE 1]      \* w1 and w2 store the same chunk
=============================================================================
