---------------------------- MODULE LocalStoreFS ----------------------------
(***************************************************************************)
(* The local chunk store as a directory (local.go) -- C16 (prune, verify), *)
(* C20 (layout, both formats side by side), C08 (no partial chunk visible).*)
(*                                                                         *)
(* A store directory is a set of files.  A file is a record                *)
(*   [kind, id, fmt, valid]                                                *)
(* kind: "chunk"    <id[0:4]>/<id>[.cacnk]  (fmt "comp" has the suffix)    *)
(*       "wrongdir" a chunk-named file in a directory that is not its own  *)
(*       "tmp"      an abandoned temporary file .tmp-cacnk*                *)
(*       "junk"     anything else                                          *)
(* A client is configured with one format f and sees only chunk files of   *)
(* that format.                                                            *)
(***************************************************************************)
EXTENDS Integers, Sequences, FiniteSets, TLC

Chunks(files, f) == {x \in files : x.kind = "chunk" /\ x.fmt = f}
IdsOf(S) == {x.id : x \in S}

\* ---- C16: prune
\* keep: the referenced IDs; removed: the files that disappeared; res: "ok" or "error"
PruneOK(files, f, keep, removed, res) ==
  \* never a referenced chunk, a chunk of the other format, or a file that is not a chunk of this store
  /\ removed \subseteq {x \in Chunks(files, f) : x.id \notin keep} \cup {x \in files : x.kind = "tmp"}
  \* success: every unreferenced chunk of the own format and every abandoned temporary file is gone
  /\ res = "ok" => ({x \in Chunks(files, f) : x.id \notin keep} \cup {x \in files : x.kind = "tmp"}) \subseteq removed
\* ---- C16: verify
\* reported: the IDs named in "does not match its hash" messages; removed: files that disappeared
VerifyOK(files, f, repair, reported, removed) ==
  LET invalid == {x \in Chunks(files, f) : ~x.valid} IN
  /\ reported = IdsOf(invalid)
  /\ removed = (IF repair THEN invalid ELSE {})

\* ---- C20: two clients configured for different formats share one directory.  State: valid[<<id, fmt>>] for every chunk
\*      file present.  Every operation of a client configured for f reads, reports, creates and deletes files of format f only.
FmtOp(present, f, op, id) ==       \* -> [res, present']   (present: set of [id, fmt, valid])
  LET mine == {x \in present : x.id = id /\ x.fmt = f} IN
  CASE op = "has"    -> [res |-> IF mine # {} THEN "true" ELSE "false", present |-> present]
    [] op = "get"    -> [res |-> IF mine = {} THEN "missing" ELSE IF \A x \in mine : x.valid THEN "ok" ELSE "invalid", present |-> present]
    [] op = "store"  -> [res |-> "ok", present |-> (present \ mine) \cup {[id |-> id, fmt |-> f, valid |-> TRUE]}]
    [] op = "remove" -> [res |-> IF mine = {} THEN "missing" ELSE "ok", present |-> present \ mine]
    [] op = "corrupt" -> [res |-> "ok", present |-> (present \ mine) \cup {[id |-> x.id, fmt |-> f, valid |-> FALSE] : x \in mine}]
FmtPrune(present, f, keep) == {x \in present : x.fmt # f \/ x.id \in keep}
FmtVerify(present, f, repair) == [reported |-> {x.id : x \in {y \in present : y.fmt = f /\ ~y.valid}},
                                  present |-> IF repair THEN {x \in present : x.fmt # f \/ x.valid} ELSE present]
\* the directory layout: <first four hex digits of the ID>/<ID> with suffix .cacnk for compressed chunks, none for raw ones
\* (names are checked literally by the harness against this rule; the listing it reports is the set of [id, fmt] it could parse,
\* stray = any other file)

\* ---- the walk as coded, for the exhaustive check: visit files in any order; tmp files are removed; files whose name
\*      has the own suffix and parses as an ID are removed through RemoveChunk(id) -- the canonical path -- unless kept
NameMatches(x, f) == x.kind \in {"chunk", "wrongdir"} /\ x.fmt = f
RECURSIVE Walk(_, _, _, _, _)
Walk(todo, present, f, keep, removed) ==
  IF todo = <<>> THEN [res |-> "ok", removed |-> removed]
  ELSE LET x == Head(todo) IN
       IF x \notin present THEN Walk(Tail(todo), present, f, keep, removed)
       ELSE IF x.kind = "tmp" THEN Walk(Tail(todo), present \ {x}, f, keep, removed \cup {x})
       ELSE IF NameMatches(x, f) /\ x.id \notin keep
            THEN LET canon == {y \in present : y.kind = "chunk" /\ y.fmt = f /\ y.id = x.id} IN
                 IF canon = {} THEN [res |-> "error", removed |-> removed]          \* RemoveChunk: ChunkMissing
                 ELSE Walk(Tail(todo), present \ canon, f, keep, removed \cup canon)
       ELSE Walk(Tail(todo), present, f, keep, removed)

CONSTANTS IdSet
Formats == {"comp", "raw"}
Universe == [kind : {"chunk"}, id : IdSet, fmt : Formats, valid : BOOLEAN]
            \cup [kind : {"wrongdir"}, id : IdSet, fmt : Formats, valid : {TRUE}]
            \cup {[kind |-> "tmp", id |-> 0, fmt |-> "comp", valid |-> TRUE], [kind |-> "junk", id |-> 0, fmt |-> "comp", valid |-> TRUE]}
\* one physical file per name: a chunk is valid or invalid, not both
Consistent(S) == \A a, b \in S : (a.kind = b.kind /\ a.id = b.id /\ a.fmt = b.fmt) => a = b
SeqOf(S) == LET RECURSIVE F(_) F(T) == IF T = {} THEN <<>> ELSE LET e == CHOOSE e \in T : TRUE IN <<e>> \o F(T \ {e}) IN F(S)
ASSUME \A S \in {T \in SUBSET Universe : Consistent(T) /\ Cardinality(T) <= 5}, f \in Formats, keep \in SUBSET (IdSet \cup {99}) :
         LET r == Walk(SeqOf(S), S, f, keep, {}) IN PruneOK(S, f, keep, r.removed, r.res)
\* C20: whatever a client configured for f does, the files of the other format are exactly what they were
Present2 == SUBSET [id : IdSet, fmt : Formats, valid : BOOLEAN]
ASSUME \A p \in {q \in Present2 : Cardinality(q) <= 3}, f \in Formats, id \in IdSet :
         /\ \A op \in {"has", "get", "store", "remove", "corrupt"} :
               {y \in FmtOp(p, f, op, id).present : y.fmt # f} = {y \in p : y.fmt # f}
         /\ \A keep \in SUBSET IdSet : {y \in FmtPrune(p, f, keep) : y.fmt # f} = {y \in p : y.fmt # f}
         /\ \A rp \in BOOLEAN : {y \in FmtVerify(p, f, rp).present : y.fmt # f} = {y \in p : y.fmt # f}
VARIABLE x
Spec == x = 0 /\ [][UNCHANGED x]_x
=============================================================================
