---------------------------- MODULE CancelOutcome ----------------------------
(***************************************************************************)
(* What an operation may report when its context is cancelled (or its      *)
(* process is signalled) at any moment -- C07, for the entry points that   *)
(* are observed from outside (Tar, UnTar, UnTarIndex, and the commands of  *)
(* the real binary): an operation of N units of work, Cancel enabled in    *)
(* every state, one Return.  Variant "code": success only when all units   *)
(* are done; "nilOnCancel": the feeder leaves on cancellation and nobody   *)
(* reports it (the defect repaired in ChopFile/Copy/ChunkStream/           *)
(* VerifyIndex/AssembleFile/UnTarIndex).  An extract through a temporary   *)
(* file additionally leaves the destination untouched unless it succeeds.  *)
(***************************************************************************)
EXTENDS Integers, TLC
CONSTANTS N, Variant
VARIABLES done, cancelled, result, dest
vars == <<done, cancelled, result, dest>>

Init == done = 0 /\ cancelled = FALSE /\ result = "none" /\ dest = "prev"
Step == result = "none" /\ done < N /\ (~cancelled \/ Variant = "late") /\ done' = done + 1 /\ UNCHANGED <<cancelled, result, dest>>
\* a unit already in flight may still complete after the cancellation
StepInFlight == result = "none" /\ done < N /\ cancelled /\ done' = done + 1 /\ UNCHANGED <<cancelled, result, dest>>
Cancel == ~cancelled /\ result = "none" /\ cancelled' = TRUE /\ UNCHANGED <<done, result, dest>>
Fail == result = "none" /\ result' = "error" /\ UNCHANGED <<done, cancelled, dest>>
Return == /\ result = "none"
          /\ IF done = N THEN result' \in (IF cancelled THEN {"ok", "interrupted"} ELSE {"ok"})
             ELSE IF cancelled THEN result' = (IF Variant = "nilOnCancel" THEN "ok" ELSE "interrupted")
             ELSE FALSE
          /\ dest' = (IF result' = "ok" THEN "new" ELSE dest)
          /\ UNCHANGED <<done, cancelled>>
Next == Step \/ StepInFlight \/ Cancel \/ Fail \/ Return
Spec == Init /\ [][Next]_vars

SuccessMeansComplete == result = "ok" => done = N
UntouchedUnlessSuccess == result # "ok" => dest = "prev"
\* the rule applied to records of the real code: [ok, complete, cancelledBeforeStart, units]
RecordOK(ok, complete) == ok => complete
=============================================================================
