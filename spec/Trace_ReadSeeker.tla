-------------------------- MODULE Trace_ReadSeeker --------------------------
(* Trace validation for C09: every Seek / Read on the real IndexPos and every read(off, size) on the real FUSE
   file handle, with its result, is judged by the property oracle of ReadSeeker.tla (SeekOK, ReadOK).  The only
   state the trace specification carries is the handle's position. *)
EXTENDS Integers, Sequences, FiniteSets, TLC, Json
CONSTANTS TraceFile
Trace == ndJsonDeserialize(TraceFile)
VARIABLES ix, pos, failing, l, bad, scen
RS == INSTANCE ReadSeeker WITH Contents <- {}, NullC <- <<>>, MaxChunks <- 0, MaxOps <- 0, Offsets <- {}, Lengths <- {},
                               st <- 0, nops <- 0, last <- 0
tvars == <<ix, pos, failing, l, bad, scen>>
Ev == Trace[l]
IsEvent(e) == l <= Len(Trace) /\ Ev.ev = e /\ l' = l + 1
Flag(cond, what) == IF cond THEN {} ELSE {<<scen, l, what>>}
SeqToSet(s) == {s[k] : k \in 1..Len(s)}
BlobLen == Len(RS!Flatten(ix))
TInit == /\ TLCSet(1, 0) /\ TLCSet(2, <<>>) /\ ix = <<>> /\ pos = 0 /\ failing = {} /\ l = 1 /\ bad = {} /\ scen = 0
TReset == /\ IsEvent("reset") /\ ix' = Ev.chunks /\ pos' = 0 /\ failing' = {} /\ scen' = Ev.scen /\ UNCHANGED bad
\* a new handle on the same index
TOpen == /\ IsEvent("open") /\ pos' = 0 /\ UNCHANGED <<ix, failing, bad, scen>>
TFail == /\ IsEvent("failing") /\ failing' = SeqToSet(Ev.ids) /\ UNCHANGED <<ix, pos, bad, scen>>
TSeek == /\ IsEvent("seek")
         /\ bad' = bad \cup Flag(RS!SeekOK(pos, BlobLen, Ev.whence, Ev.d, Ev.np, Ev.err), "Seek result not allowed by the specification")
         /\ pos' = Ev.np /\ UNCHANGED <<ix, failing, scen>>
TRead == /\ IsEvent("read")
         /\ bad' = bad \cup Flag(RS!ReadOK(ix, pos, Ev.m, Ev.n, Ev.data, Ev.err, failing), "Read result not allowed by the specification")
         /\ pos' = pos + Ev.n /\ UNCHANGED <<ix, failing, scen>>
\* FUSE read(off, size): refused (EIO) only beyond the end or when a needed chunk is unavailable; data as ReadOK
TFuse == /\ IsEvent("fuse")
         /\ bad' = bad \cup Flag(IF Ev.errno # 0
                                 THEN Ev.off > BlobLen \/ RS!ReadOK(ix, Ev.off, Ev.m, 0, <<>>, "error", failing)
                                      \/ \E n \in 0..Ev.m : RS!ReadOK(ix, Ev.off, Ev.m, n, RS!Slice(RS!Flatten(ix), Ev.off, n), "error", failing)
                                 ELSE Ev.off <= BlobLen /\ RS!ReadOK(ix, Ev.off, Ev.m, Ev.n, Ev.data, "nil", failing),
                                 "FUSE read result not allowed by the specification")
         /\ UNCHANGED <<ix, pos, failing, scen>>   \* the mount's handle has a reader of its own
\* constructing a reader on the index must not crash, also for an empty blob
TNew == /\ IsEvent("new") /\ bad' = bad \cup Flag(~Ev.panic, "NewIndexReadSeeker panicked") /\ UNCHANGED <<ix, pos, failing, scen>>
\* a call of the real reader that did not return (the driver ends the run there)
THang == /\ IsEvent("hang") /\ bad' = bad \cup {<<scen, l, "the reader did not return from this call (non-termination)">>} /\ UNCHANGED <<ix, pos, failing, scen>>
TNext == TReset \/ TOpen \/ TFail \/ TSeek \/ TRead \/ TFuse \/ TNew \/ THang
TSpec == TInit /\ [][TNext]_tvars
NoBad == bad = {}
Constr == TLCSet(1, IF TLCGet(1) < l THEN l ELSE TLCGet(1)) /\ (IF TLCGet(1) = l THEN TLCSet(2, <<scen, l>>) ELSE TRUE)
Accepted == \/ TLCGet(1) = Len(Trace) + 1
            \/ PrintT(<<"REJECTED", TLCGet(1), Len(Trace), TLCGet(2)>>) /\ FALSE
=============================================================================
