----------------------------- MODULE ReadSeeker -----------------------------
(***************************************************************************)
(* Random-access reads through an index (readseeker.go IndexPos, the FUSE  *)
(* handle of mount-index.go) -- C09.                                       *)
(*                                                                         *)
(* Part 1 is the property as an oracle over observable results only        *)
(* (SeekOK, ReadOK): it is what Trace_ReadSeeker.tla checks on the real    *)
(* code.  Part 2 is the implementation-shaped model (findOffset's three    *)
(* branches, the cached chunk, the load/copy/advance loop); TLC checks     *)
(* that every result it can produce satisfies the oracle, for all indexes  *)
(* over a small chunk alphabet and all operation sequences of bounded      *)
(* length, with any set of chunk IDs failing in the store.                 *)
(* A cell is one byte; chunk content is a function of the chunk ID.        *)
(***************************************************************************)
EXTENDS Integers, Sequences, FiniteSets, TLC

\* ------------------------------------------------------------------ vocabulary
\* an index is a sequence of chunk contents (a content is a sequence of byte values; equal content = equal ID)
RECURSIVE Flatten(_)
Flatten(ix) == IF ix = <<>> THEN <<>> ELSE Head(ix) \o Flatten(Tail(ix))
RECURSIVE StartOf(_, _)
StartOf(ix, k) == IF k = 1 THEN 0 ELSE StartOf(ix, k - 1) + Len(ix[k - 1])      \* 0-based byte offset of chunk k
EndOf(ix, k) == StartOf(ix, k) + Len(ix[k])
Slice(s, a, n) == SubSeq(s, a + 1, a + n)                                          \* n bytes from 0-based offset a
MinOf2(a, b) == IF a < b THEN a ELSE b
\* the chunk that holds 0-based offset p (p < length)
ChunkAt(ix, p) == CHOOSE k \in 1..Len(ix) : StartOf(ix, k) <= p /\ p < EndOf(ix, k)

\* ------------------------------------------------------------------ part 1: the property
\* Seek(whence, d) at position pos of a blob of length L returned (np, err) with err in {"nil", "eof", "error"}
Target(pos, L, whence, d) == CASE whence = 0 -> d [] whence = 1 -> pos + d [] whence = 2 -> L + d
SeekOK(pos, L, whence, d, np, err) ==
  LET t == Target(pos, L, whence, d) IN
  IF whence \notin {0, 1, 2} \/ t < 0 THEN err = "error" /\ np = pos
  ELSE IF t <= L THEN err = "nil" /\ np = t
  ELSE \* beyond the end: refusing (position unchanged) and accepting (reads then see the end) are both allowed
       \/ err = "error" /\ np = pos
       \/ err \in {"nil", "eof"} /\ np = t
\* Read of m bytes at position pos returned n bytes `data` and err; failing = IDs (contents) the store cannot deliver
ReadOK(ix, pos, m, n, data, err, failing) ==
  LET blob == Flatten(ix)
      L == Len(blob)
      want == IF pos >= L THEN 0 ELSE MinOf2(m, L - pos)
  IN /\ n <= m /\ n <= want /\ Len(data) = n
     /\ data = Slice(blob, pos, n)                               \* never altered bytes
     /\ err \in {"nil", "eof", "error"}
     /\ err = "eof" => pos + n >= L                               \* end of blob is only reported at the end
     /\ (err = "nil" /\ m > 0) => n = want /\ (n > 0 \/ pos >= L) \* no short read without an error except at the end
     /\ err = "error" => /\ n < want                              \* an error is only reported when a needed chunk is unavailable
                         /\ ix[ChunkAt(ix, pos + n)] \in failing
     /\ (\A p \in pos..(pos + want - 1) : ix[ChunkAt(ix, p)] \notin failing) => err # "error"
     /\ (pos >= L /\ m > 0) => (n = 0 /\ err \in {"eof", "nil"})

\* ------------------------------------------------------------------ part 2: the implementation-shaped model
CONSTANTS Contents,   \* the chunk alphabet: a set of byte sequences
          NullC,      \* the content of the null chunk (max zero bytes); never fetched from the store
          MaxChunks, MaxOps, Offsets, Lengths

VARIABLES ix, st, failing, nops, last
vars == <<ix, st, failing, nops, last>>
\* st = [pos, cur, off, cid, cached]: position, current chunk (1-based), offset in it, its ID, the decoded chunk or <<>>

L == Len(Flatten(ix))
Init == /\ ix \in UNION {[1..k -> Contents] : k \in 1..MaxChunks}
        /\ st = [pos |-> 0, cur |-> 1, off |-> 0, cid |-> ix[1], cached |-> <<>>]
        /\ failing \in SUBSET (Contents \ {NullC}) /\ nops = 0
        /\ last = [op |-> "none"]

\* findOffset(newPos): returns [s |-> state', err |-> BOOLEAN]
Bisect(np) == IF \E k \in 1..Len(ix) : np < EndOf(ix, k)
              THEN CHOOSE k \in 1..Len(ix) : np < EndOf(ix, k) /\ \A j \in 1..(k - 1) : ~(np < EndOf(ix, j))
              ELSE Len(ix)
FindOffset(s, np) ==
  LET delta == np - s.pos IN
  IF delta = 0 THEN [s |-> s, err |-> FALSE]
  ELSE IF delta + s.off >= 0 /\ delta + s.off < Len(ix[s.cur])
  THEN [s |-> [s EXCEPT !.pos = np, !.off = s.off + delta], err |-> FALSE]
  ELSE LET k == Bisect(np) IN
       IF np < StartOf(ix, k) \/ np > EndOf(ix, k) THEN [s |-> s, err |-> TRUE]
       ELSE [s |-> [pos |-> np, cur |-> k, off |-> np - StartOf(ix, k), cid |-> ix[k],
                    cached |-> IF ix[k] # s.cid THEN <<>> ELSE s.cached], err |-> FALSE]
\* Seek: [s, np, err]
SeekRes(s, whence, d) ==
  LET t == Target(s.pos, L, whence, d) IN
  IF t < 0 THEN [s |-> s, np |-> s.pos, err |-> "error"]
  ELSE LET r == FindOffset(s, t) IN
       IF r.err THEN [s |-> r.s, np |-> r.s.pos, err |-> "error"]
       ELSE [s |-> r.s, np |-> t, err |-> IF t > L THEN "eof" ELSE "nil"]
\* Read loop: rem bytes still wanted, acc copied so far
RECURSIVE ReadLoop(_, _, _)
ReadLoop(s, rem, acc) ==
  IF rem = 0 THEN [s |-> s, data |-> acc, err |-> "nil"]
  ELSE LET needLoad == s.cached = <<>>
           loadFails == needLoad /\ s.cid # NullC /\ s.cid \in failing
           s1 == IF needLoad /\ ~loadFails THEN [s EXCEPT !.cached = s.cid] ELSE s
       IN IF loadFails THEN [s |-> s, data |-> acc, err |-> "error"]
          ELSE LET avail == Len(s1.cached) - s1.off IN
               IF avail = 0 /\ s1.cur = Len(ix) THEN [s |-> s1, data |-> acc, err |-> "nil"]
               ELSE LET c == MinOf2(rem, avail)
                        piece == Slice(s1.cached, s1.off, c)
                        sk == SeekRes(s1, 1, c)
                    IN IF sk.err # "nil" THEN [s |-> sk.s, data |-> acc \o piece, err |-> sk.err]
                       ELSE ReadLoop(sk.s, rem - c, acc \o piece)
ReadRes(s, m) == IF s.pos = L THEN [s |-> s, data |-> <<>>, err |-> "eof"] ELSE ReadLoop(s, m, <<>>)

SeekOp == /\ nops < MaxOps
          /\ \E whence \in 0..2, d \in Offsets :
               LET r == SeekRes(st, whence, d) IN
               /\ st' = r.s
               /\ last' = [op |-> "seek", f |-> failing, pos |-> st.pos, whence |-> whence, d |-> d, np |-> r.np, err |-> r.err]
          /\ nops' = nops + 1 /\ UNCHANGED <<ix, failing>>
ReadOp == /\ nops < MaxOps
          /\ \E m \in Lengths :
               LET r == ReadRes(st, m) IN
               /\ st' = r.s
               /\ last' = [op |-> "read", f |-> failing, pos |-> st.pos, m |-> m, n |-> Len(r.data), data |-> r.data, err |-> r.err]
          /\ nops' = nops + 1 /\ UNCHANGED <<ix, failing>>
\* the FUSE handle: Seek(off, Start) then Read(size) under the handle's mutex
FuseOp == /\ nops < MaxOps
          /\ \E o \in {x \in Offsets : x >= 0}, m \in Lengths :
               LET sk == SeekRes(st, 0, o) IN
               IF sk.err = "error"
               THEN /\ st' = sk.s /\ last' = [op |-> "fuse", f |-> failing, pos |-> o, m |-> m, n |-> 0, data |-> <<>>, err |-> "error", refused |-> TRUE]
               ELSE LET r == ReadRes(sk.s, m) IN
                    /\ st' = r.s
                    /\ last' = [op |-> "fuse", f |-> failing, pos |-> o, m |-> m, n |-> Len(r.data), data |-> r.data,
                                err |-> IF r.err = "eof" THEN "nil" ELSE r.err, refused |-> FALSE]
          /\ nops' = nops + 1 /\ UNCHANGED <<ix, failing>>
Heal == /\ failing # {} /\ failing' = {} /\ UNCHANGED <<ix, st, nops, last>>
Next == SeekOp \/ ReadOp \/ FuseOp \/ Heal
Spec == Init /\ [][Next]_vars

\* every result the implementation-shaped model can produce satisfies the property
ResultOK ==
  CASE last.op = "seek" -> SeekOK(last.pos, L, last.whence, last.d, last.np, last.err)
    [] last.op = "read" -> ReadOK(ix, last.pos, last.m, last.n, last.data, last.err, last.f)
    [] last.op = "fuse" -> IF last.refused THEN last.pos > L
                           ELSE ReadOK(ix, last.pos, last.m, last.n, last.data, last.err, last.f)
    [] OTHER -> TRUE
\* the cursor is consistent with the position, and a cached chunk is the current chunk's
CursorConsistent == /\ st.pos <= L => (st.cur \in 1..Len(ix) /\ st.off = st.pos - StartOf(ix, st.cur) /\ st.cid = ix[st.cur])
                    /\ st.cached # <<>> => st.cached = st.cid
View == <<ix, st, failing, nops>>
\* model values for the exhaustive run (a .cfg file cannot hold sequences)
MCContents == {<<1>>, <<1, 2>>, <<0, 0, 0>>, <<0>>, <<2, 2, 1>>}
MCContents4 == {<<1>>, <<1, 2>>, <<0, 0, 0>>, <<0>>}
MCNull == <<0, 0, 0>>
MCOffsets == {-2, -1, 0, 1, 2, 3, 5, 9}
=============================================================================
