------------------------------- MODULE Stores -------------------------------
(***************************************************************************)
(* What a store may deliver for a stored object that was damaged -- C03.   *)
(* Corruption classes of the object found under a chunk's name:            *)
(*   none, bitflip, truncated, empty, otherchunk (another chunk's valid    *)
(*   object), otherframe (a valid zstd frame of other data), rawincomp     *)
(*   (raw data where a compressed object is expected), compinraw (the      *)
(*   reverse), garbage.                                                    *)
(* Result classes of a GetChunk: "ok" (bytes hash to the requested ID),    *)
(* "okbad" (a chunk was returned whose bytes do not), "missing", "invalid",*)
(* "error".  Verified(path) says whether some hop between the damaged      *)
(* object and the caller verifies.                                         *)
(***************************************************************************)
EXTENDS Integers, Sequences, FiniteSets
Classes == {"none", "bitflip", "truncated", "empty", "otherchunk", "otherframe", "rawincomp", "compinraw", "garbage"}
\* the rule of the property: damaged bytes are never returned as good data unless verification was disabled
Allowed(class, verified, res) ==
  /\ (class = "none") => res = "ok"
  /\ verified => res # "okbad"
\* consumers (extract, cat, sparse/mount readers): success implies the output equals the blob
ConsumerAllowed(class, res, equal) ==
  /\ res \in {"ok", "error"}             \* it fails or completes: it does not hang
  /\ res = "ok" => equal
  /\ class = "none" => (res = "ok" /\ equal)
=============================================================================
