---------------------------- MODULE ParChunkerMC ----------------------------
(* Design-level exploration of ParChunker: all data (boundary sets x one zero interval) of a small file,
   all worker interleavings, cancellation at every point. *)
EXTENDS ParChunker
CONSTANTS CL, CMn, CMx, NReq,
          BndMax,      \* boundary positions are drawn from 1..BndMax
          ZaMax,       \* the zero interval [za, zb) starts in 0..ZaMax ...
          ZbMin,       \* ... and ends in ZbMin..CL
          EagerMain,   \* TRUE: the aggregator runs whenever it can (its steps commute with the workers')
          MayCancel

MCInit ==
  /\ P = [L |-> CL, Mn |-> CMn, Mx |-> CMx, NW |-> Workers(CL, CMx, NReq)]
  /\ \E za \in 0..ZaMax : \E zb \in (IF ZbMin > za THEN ZbMin ELSE za)..CL :
        \* a window that ends in a zero byte never meets the discriminator in this abstraction
        /\ bnd \in SUBSET {p \in 1..BndMax : ~(za <= p - 1 /\ p - 1 < zb)}
        /\ nulls = {s \in 0..(CL - CMx) : za <= s /\ s + CMx <= zb}
  /\ InitWorkers

MCNext == \/ (MayCancel /\ Cancel)
          \/ IF EagerMain /\ MainEnabled THEN Main
             ELSE Main \/ \E i \in W : WorkerStep(i)
MCSpec == MCInit /\ [][MCNext]_vars
Terminates == (~ ENABLED MCNext) => mres # "none"
UncancelledOk == (mres = "err") => cancelled
\* reachability witnesses (each is expected to be VIOLATED: the run is vacuous otherwise)
NeverNullSend == \A i \in W : pc[i] # "nullloop"
NeverNPop == \A i \in W : pc[i] # "sync3"
NeverInSync == \A i \in W : ~insync[i]
NeverSkipped == \A i \in W : nxt[i] = NIL \/ nxt[i] = i + 1
NeverInterrupted == mres # "err"
NeverOkAfterCancel == ~(mres = "ok" /\ cancelled)
=============================================================================
