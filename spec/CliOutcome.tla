----------------------------- MODULE CliOutcome -----------------------------
(***************************************************************************)
(* What the exit status of a desync command means (cmd/desync): a command  *)
(* is an operation with valid or invalid inputs that ends with an exit     *)
(* status and leaves an observable result.  The rule every command of the  *)
(* properties C01, C02, C05, C06, C09, C17 has to follow at this level:    *)
(*   exit 0  =>  the result is complete and correct                        *)
(*   valid inputs and no fault  =>  exit 0 (success is promised)           *)
(*   the command terminates.                                               *)
(* "complete" is measured from outside per command: extract/cat: the bytes *)
(* of the blob (range); chop/make/tar -i/cache: every chunk of the index   *)
(* is in the target store and the written index describes the input; make: *)
(* the chunk table equals the library's single-stream reference for every  *)
(* worker count; verify-index: the file equals the indexed blob (exit 0    *)
(* iff it does); tar+untar: the unpacked tree equals the source tree.      *)
(* The model below is the trivial machine with these three outcomes; its   *)
(* purpose is to name the rule that Trace_CliOutcome applies.              *)
(***************************************************************************)
EXTENDS Integers, TLC
CONSTANT Variant            \* "code" | "swallow" (an error is not propagated to the exit status)
VARIABLES valid, worked, exit
vars == <<valid, worked, exit>>
Init == valid \in BOOLEAN /\ worked = "no" /\ exit = -1
Work == exit = -1 /\ worked = "no" /\ worked' = (IF valid THEN "complete" ELSE "partial") /\ UNCHANGED <<valid, exit>>
Exit == exit = -1 /\ worked # "no" /\ exit' = (IF worked = "complete" \/ Variant = "swallow" THEN 0 ELSE 1) /\ UNCHANGED <<valid, worked>>
Next == Work \/ Exit
Spec == Init /\ [][Next]_vars

RuleOK(ex, complete, validInputs, hung) == /\ ~hung
                                           /\ (ex = 0 => complete)
                                           /\ (validInputs => ex = 0)
ModelRule == exit # -1 => RuleOK(exit, worked = "complete", valid, FALSE)
=============================================================================
