---------------------------- MODULE AssembleOps ----------------------------
(* Pure operators shared by the design-level model of AssembleFile (Assemble.tla) and the trace
   specification (Trace_Assemble.tla): the self-seed's write pointer, plan well-formedness. *)
EXTENDS Integers, Sequences, FiniteSets

MaxOf(S) == CHOOSE x \in S : \A y \in S : x >= y
MinOf(S) == CHOOSE x \in S : \A y \in S : x <= y

\* selfSeed.add: wr chunks are written contiguously; c is the set of <<first, last>> segments recorded out of
\* order (1-based positions); advance over every segment that starts right after the written prefix
RECURSIVE Adv(_, _)
Adv(wr, c) == IF \E s \in c : s[1] = wr + 1
              THEN LET s == CHOOSE s \in c : s[1] = wr + 1 IN Adv(s[2], c \ {s})
              ELSE <<wr, c>>

\* a plan (sequence of records with first, last) tiles 1..K exactly once, in order; an empty index has the empty plan
Tiles(plan, K) == IF K = 0 THEN plan = <<>>
                  ELSE /\ Len(plan) >= 1 /\ plan[1].first = 1 /\ plan[Len(plan)].last = K
                       /\ \A k \in 1..Len(plan) : plan[k].first <= plan[k].last
                       /\ \A k \in 1..(Len(plan)-1) : plan[k+1].first = plan[k].last + 1
=============================================================================
