--------------------------- MODULE Trace_TlsAccess ---------------------------
(* Judges rows recorded from the real `desync chunk-server` / `index-server` processes and the real client commands by TlsAccess!Accept. *)
EXTENDS TlsAccess, Sequences, Json
CONSTANT TraceFile
Trace == ndJsonDeserialize(TraceFile)
VARIABLES l, bad
Flag(cond, what) == IF cond THEN {} ELSE {<<l, what>>}
Judge(e) ==
  IF e.ev # "tls" THEN {}
  ELSE LET s == [tls |-> e.stls, signer |-> e.ssigner, mutual |-> e.smutual, clientCA |-> e.sclientca]
           c == [https |-> e.chttps, cacert |-> e.ccacert, trust |-> e.ctrust, cert |-> e.ccert]
           acc == Accept(s, c) IN
       Flag(acc => e.exit = 0, "a client the server must accept (and that must accept the server) failed")
       \cup Flag((acc /\ e.op = "get") => e.dataok, "the accepted client did not receive the data")
       \cup Flag((acc /\ e.op = "put") => e.stored, "the accepted client's upload is not in the store")
       \cup Flag(~acc => e.exit # 0, "a connection that must be refused succeeded")
       \cup Flag(~acc => ~e.dataok /\ ~e.stored, "a connection that must be refused transferred data")
TInit == l = 1 /\ bad = {} /\ x = 0
TNext == l <= Len(Trace) /\ bad' = bad \cup Judge(Trace[l]) /\ l' = l + 1 /\ UNCHANGED x
TSpec == TInit /\ [][TNext]_<<l, bad, x>>
NoBad == bad = {}
Constr == TLCSet(1, l)
Accepted == TLCGet(1) = Len(Trace) + 1 \/ Len(Trace) = 0
=============================================================================
