----------------------------- MODULE Trace_Mtree -----------------------------
(* Judges every line the real `desync mtree` printed for a generated tree (read from the directory and from its catar) by Mtree!Read and Mtree!Want. *)
EXTENDS Mtree, Json
CONSTANT TraceFile
Trace == ndJsonDeserialize(TraceFile)
VARIABLES l, bad
Flag(cond, what) == IF cond THEN {} ELSE {<<l, what>>}
T(s) == [i \in 1..Len(s) |-> s[i]]
Judge(e) ==
  CASE e.ev = "mtree" ->
         LET n == [path |-> T(e.node.path), type |-> e.node.type, mode |-> e.node.mode, uid |-> e.node.uid, gid |-> e.node.gid, size |-> e.node.size,
                   sec |-> e.node.sec, nsec |-> e.node.nsec, target |-> T(e.node.target), digest |-> T(e.node.digest)]
             got == Read(T(e.line))  want == Want(n) IN
         Flag(got.path = want.path, "mtree: a reader does not get the node's path back from the line")
         \cup Flag(got.path = want.path => got.attrs = want.attrs, "mtree: a reader does not get the node's attributes back from the line")
    [] e.ev = "mtreerun" -> Flag(e.exit = 0, "mtree failed on a valid input") \cup Flag(e.exit = 0 => (e.header /\ e.lines = e.nodes), "mtree: not one line per node after the header")
    [] OTHER -> {}
TInit == l = 1 /\ bad = {} /\ x = 0
TNext == l <= Len(Trace) /\ bad' = bad \cup Judge(Trace[l]) /\ l' = l + 1 /\ UNCHANGED x
TSpec == TInit /\ [][TNext]_<<l, bad, x>>
NoBad == bad = {}
Constr == TLCSet(1, l)
Accepted == TLCGet(1) = Len(Trace) + 1 \/ Len(Trace) = 0
=============================================================================
