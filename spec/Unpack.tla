------------------------------- MODULE Unpack -------------------------------
(***************************************************************************)
(* Unpacking a (possibly hostile) archive never writes outside the         *)
(* destination (archive.go ArchiveDecoder, localfs.go, untar.go) -- C18.   *)
(*                                                                         *)
(* Paths are sequences of components; "U" is an upward step ("..") that    *)
(* survived cleaning, i.e. a path that starts with "U" lies above the      *)
(* destination root.  The filesystem is a function from absolute paths     *)
(* (relative to the sandbox: <<"dst", ...>> is inside the destination,     *)
(* anything else outside) to node kinds; symlinks carry a target path.     *)
(* An archive is a sequence of entries [name, kind, target] with Goodbye   *)
(* markers closing directories.  Unpack is the decoder + disk writer as    *)
(* coded, with the entry-name validation (ValidName) that the repaired     *)
(* code performs.  Validate = "full" is the repaired code: entry names are  *)
(* single components (finding F9) and every named entry lies in an open    *)
(* directory, only the first entry -- the root -- is nameless (finding      *)
(* F22: a root entry that is a symlink, with named entries after it, made  *)
(* the destination itself a link to the outside).  "names" is the code     *)
(* between the two repairs, "none" the code as found.  TLC checks Confined *)
(* for every archive of a bounded number of entries over a hostile name    *)
(* alphabet, every kind of root entry, destination present or absent.      *)
(***************************************************************************)
EXTENDS Integers, Sequences, FiniteSets, TLC

CONSTANTS MaxEntries, Validate

\* ---- names as component sequences; a name with a slash has several components, "U" = "..", "R" = leading slash (absolute)
Names == { <<"a">>, <<"b">>, <<"U">>, <<"U", "x">>, <<"a", "b">>, <<"R", "abs">>, <<>>, <<"a", "U", "U", "x">> }
ValidName(n) == Len(n) = 1 /\ n[1] \notin {"U", "R"}       \* not empty, not "." / "..", no slash
\* path.Join(dir, name) with cleaning: "U" pops a component or stays as a leading "U" when nothing is left to pop
RECURSIVE Clean(_, _)
Clean(acc, rest) == IF rest = <<>> THEN acc
                    ELSE LET h == Head(rest) IN
                         IF h = "R" THEN Clean(acc, Tail(rest))                    \* path.Join drops the meaning of a leading slash
                         ELSE IF h = "U" THEN (IF acc # <<>> /\ acc[Len(acc)] # "U" THEN Clean(SubSeq(acc, 1, Len(acc) - 1), Tail(rest))
                                               ELSE Clean(Append(acc, "U"), Tail(rest)))
                         ELSE Clean(Append(acc, h), Tail(rest))
Join(dir, name) == Clean(<<>>, dir \o name)

\* ---- the sandbox: destination root is <<"dst">>; <<"out">> is a sibling directory with a sentinel file
Root == <<"dst">>
\* absolute path of a decoded node name (relative to the destination); a leading "U" climbs out of the destination
Abs(rel) == Clean(<<>>, Root \o rel)
Inside(p) == Len(p) >= 1 /\ p[1] = "dst"

\* fs: [path -> [k: "dir" | "file" | "link", t: target path]]; resolve intermediate components through symlinks (bounded)
IsPrefix(p, q) == Len(p) <= Len(q) /\ SubSeq(q, 1, Len(p)) = p
RECURSIVE ResolveDir(_, _, _)
\* resolve all but the last component of p, following symlinks to directories; returns the real parent path, or <<"!">> if it does not exist
ResolveDir(fs, p, fuel) ==
  IF Len(p) <= 1 THEN <<>>
  ELSE LET parent == SubSeq(p, 1, Len(p) - 1)
           rp == ResolveDir(fs, parent, fuel) \o <<parent[Len(parent)]>>
       IN IF rp \notin DOMAIN fs THEN <<"!">>
          ELSE IF fs[rp].k = "link" /\ fuel > 0 THEN (IF fs[rp].t \in DOMAIN fs /\ fs[fs[rp].t].k = "dir" THEN fs[rp].t ELSE <<"!">>)
          ELSE IF fs[rp].k = "dir" THEN rp ELSE <<"!">>
Real(fs, p) == IF Len(p) = 0 THEN <<"!">> ELSE LET d == ResolveDir(fs, p, 3) IN IF d = <<"!">> THEN <<"!">> ELSE d \o <<p[Len(p)]>>

\* ---- the disk writer (LocalFS): returns [ok, fs']
CreateDir(fs, rel) ==
  LET p == Real(fs, Abs(rel)) IN
  IF p = <<"!">> THEN [ok |-> FALSE, fs |-> fs]
  ELSE IF p \in DOMAIN fs THEN (IF fs[p].k = "dir" THEN [ok |-> TRUE, fs |-> fs] ELSE [ok |-> FALSE, fs |-> fs])   \* Lstat: a symlink is "not a directory"
  ELSE [ok |-> TRUE, fs |-> fs @@ (p :> [k |-> "dir", t |-> <<>>])]
CreateLeaf(fs, rel, kind, target) ==     \* file, symlink or device: remove what is there (never following it), then create
  LET p == Real(fs, Abs(rel)) IN
  IF p = <<"!">> THEN [ok |-> FALSE, fs |-> fs]
  ELSE IF p \in DOMAIN fs /\ fs[p].k = "dir" /\ kind # "file" THEN [ok |-> FALSE, fs |-> fs]              \* unlink of a directory fails
  ELSE LET base == [q \in {x \in DOMAIN fs : ~(IsPrefix(p, x) /\ x # p)} |-> fs[q]]                       \* RemoveAll for files
       IN [ok |-> TRUE, fs |-> [q \in (DOMAIN base) \cup {p} |-> IF q = p THEN [k |-> kind, t |-> target] ELSE base[q]]]

\* ---- the archive decoder: dir is the current directory (relative), depth the number of directories that are open,
\* entries are consumed left to right
RECURSIVE Unpack(_, _, _, _, _)
Unpack(fs, dir, depth, arch, touched) ==
  IF arch = <<>> THEN [ok |-> TRUE, fs |-> fs, touched |-> touched]
  ELSE LET e == Head(arch) IN
       IF e.kind = "goodbye" THEN Unpack(fs, IF dir = <<>> THEN <<>> ELSE SubSeq(dir, 1, Len(dir) - 1), IF depth > 0 THEN depth - 1 ELSE 0, Tail(arch), touched)
       ELSE IF Validate # "none" /\ ~ValidName(e.name) THEN [ok |-> FALSE, fs |-> fs, touched |-> touched]
       ELSE IF Validate = "full" /\ depth = 0 THEN [ok |-> FALSE, fs |-> fs, touched |-> touched]     \* a named entry outside of any directory
       ELSE LET rel == Join(dir, e.name)
                r == IF e.kind = "dir" THEN CreateDir(fs, rel) ELSE CreateLeaf(fs, rel, IF e.kind = "link" THEN "link" ELSE "file", e.target)
                t2 == IF r.ok THEN touched \cup {Real(fs, Abs(rel))} ELSE touched
            IN IF ~r.ok THEN [ok |-> FALSE, fs |-> r.fs, touched |-> t2]
               ELSE Unpack(r.fs, IF e.kind = "dir" THEN rel ELSE dir, IF e.kind = "dir" THEN depth + 1 ELSE depth, Tail(arch), t2)
\* the first entry of an archive has no name: it describes the destination itself
UnpackRoot(fs, root, arch) ==
  LET r == IF root.kind = "dir" THEN CreateDir(fs, <<>>) ELSE CreateLeaf(fs, <<>>, IF root.kind = "link" THEN "link" ELSE "file", root.target) IN
  IF ~r.ok THEN [ok |-> FALSE, fs |-> r.fs, touched |-> {}]
  ELSE Unpack(r.fs, <<>>, IF root.kind = "dir" THEN 1 ELSE 0, arch, {<<"dst">>})

\* ---- the property: everything created, replaced or modified lies beneath the destination
Confined(res) == \A p \in res.touched : Inside(p)

Outside0 == (<<"out">> :> [k |-> "dir", t |-> <<>>]) @@ (<<"out", "secret">> :> [k |-> "file", t |-> <<>>])
FS0(absent) == IF absent THEN Outside0 ELSE (<<"dst">> :> [k |-> "dir", t |-> <<>>]) @@ Outside0
Targets == { <<"out">>, <<"dst">> }
Entries == [name : Names, kind : {"dir", "file"}, target : {<<>>}] \cup [name : Names, kind : {"link"}, target : Targets]
           \cup {[name |-> <<>>, kind |-> "goodbye", target |-> <<>>]}
Roots == [kind : {"dir", "file"}, target : {<<>>}] \cup [kind : {"link"}, target : Targets]
Archives == UNION {[1..n -> Entries] : n \in 0..MaxEntries}
ASSUME \A a \in Archives : \A root \in Roots : \A absent \in BOOLEAN : Confined(UnpackRoot(FS0(absent), root, a))
VARIABLE x
Spec == x = 0 /\ [][UNCHANGED x]_x
=============================================================================
