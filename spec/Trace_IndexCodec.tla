-------------------------- MODULE Trace_IndexCodec --------------------------
(* Trace validation for C04: files written by the real Index.WriteTo must be exactly Encode(index); for every
   byte string fed to the real readers (IndexFromReader, LocalIndexStore.GetIndex, RemoteHTTPIndex against the real
   index handler, PUT to the handler) -- valid files, every kind of truncation, single-field substitutions, digest
   mismatch, casync-made fixtures -- the accept/reject verdict and the returned table must be Decode's. *)
EXTENDS Integers, Sequences, FiniteSets, TLC, Json
CONSTANTS TraceFile
Trace == ndJsonDeserialize(TraceFile)
VARIABLES l, bad
IC == INSTANCE IndexCodec WITH MaxChunks <- 0, Sizes <- {}, IdVals <- {}, x <- 0
Ev == Trace[l]
IsEvent(e) == l <= Len(Trace) /\ Ev.ev = e /\ l' = l + 1
Flag(cond, what) == IF cond THEN {} ELSE {<<l, what>>}
TInit == TLCSet(1, 0) /\ TLCSet(2, <<>>) /\ l = 1 /\ bad = {}
\* the index as the driver holds it -> the specification's record
Ix(j) == [sha512 |-> j.sha512, min |-> j.min, avg |-> j.avg, max |-> j.max, chunks |-> j.chunks]
TEnc == /\ IsEvent("enc")
        /\ bad' = bad \cup Flag(Ev.tokens = IC!Encode(Ix(Ev.index)), "written index file differs from the caibx layout")
TDec == /\ IsEvent("dec")
        /\ LET d == IC!Decode(Ev.tokens, Ev.digest512) IN
           bad' = bad \cup Flag(Ev.accepted = d.ok, IF d.ok THEN "a well-formed index file was rejected" ELSE "a malformed index file was accepted")
                      \cup Flag((Ev.accepted /\ d.ok) => Ix(Ev.index) = d.ix, "the table read differs from the file's table")
\* casync-produced fixture: in the language, and re-encoded byte-identically by the real code
TFix == /\ IsEvent("fixture")
        /\ bad' = bad \cup Flag(IC!Decode(Ev.tokens, TRUE).ok, "casync-made index not accepted by the specification (grammar too strict)")
                      \cup Flag(Ev.accepted /\ Ev.identical, "casync-made index not re-encoded byte-identically")
\* a destination that takes only part of the file: the write must be reported as failed
TWFault == /\ IsEvent("wfault")
           /\ bad' = bad \cup Flag(Ev.accept < Ev.size => Ev.err, "an index that did not reach its destination completely was reported as written")
TNext == TEnc \/ TDec \/ TFix \/ TWFault
TSpec == TInit /\ [][TNext]_<<l, bad>>
NoBad == bad = {}
Constr == TLCSet(1, IF TLCGet(1) < l THEN l ELSE TLCGet(1)) /\ (IF TLCGet(1) = l THEN TLCSet(2, <<0, l>>) ELSE TRUE)
Accepted == \/ TLCGet(1) = Len(Trace) + 1
            \/ PrintT(<<"REJECTED", TLCGet(1), Len(Trace), TLCGet(2)>>) /\ FALSE
=============================================================================
