------------------------- MODULE Trace_CancelOutcome -------------------------
(***************************************************************************)
(* Judges records of real operations that were cancelled / signalled at    *)
(* their k-th interaction by CancelOutcome's rule: success only with the   *)
(* work complete; cancelled before the start => not a success (unless      *)
(* there is nothing to do); an interrupted extract through a temporary     *)
(* file leaves the destination untouched; nothing hangs.                   *)
(***************************************************************************)
EXTENDS CancelOutcome, Json, Sequences
CONSTANT TraceFile
Trace == ndJsonDeserialize(TraceFile)
VARIABLES l, bad
tvars == <<vars, l, bad>>
Flag(cond, what) == IF cond THEN {} ELSE {<<l, what>>}
Judge(e) ==
  IF e.ev = "cancel"
  THEN Flag(RecordOK(e.err = "nil", e.complete), "the operation returned nil after cancellation although its work is incomplete")
       \cup Flag((e.k = 0 /\ e.units > 0) => e.err # "nil", "cancelled before the start, yet success")
  ELSE Flag(~e.hung, "the command did not exit after the signal")
       \cup Flag(RecordOK(e.exit = 0, e.complete), "the command exited 0 although its work is incomplete")
       \cup Flag((e.cmd \in {"extract", "extract-stats", "extract-longname"} /\ e.exit # 0) => e.untouched, "an interrupted extract (without --in-place) modified the destination")
       \cup Flag((e.signalled /\ ~e.complete) => e.exit # 0, "signalled with work outstanding but exit status 0")
TInit == Init /\ l = 1 /\ bad = {}
TNext == l <= Len(Trace) /\ bad' = bad \cup Judge(Trace[l]) /\ l' = l + 1 /\ UNCHANGED vars
TSpec == TInit /\ [][TNext]_tvars
NoBad == bad = {}
Constr == TLCSet(1, l)
Accepted == TLCGet(1) = Len(Trace) + 1 \/ Len(Trace) = 0
=============================================================================
