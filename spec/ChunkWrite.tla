----------------------------- MODULE ChunkWrite -----------------------------
(***************************************************************************)
(* Adding a chunk to a local store, step by step, with process death at    *)
(* any instant (local.go LocalStore.StoreChunk) -- C08, first clause.      *)
(*                                                                         *)
(* files: the store directory as the kernel sees it, a function from paths *)
(* to the number of bytes the file holds.  <<"C", id>> is the chunk name   *)
(* of id, <<"T", n>> a temporary name (.tmp-cacnk...), which is not a chunk  *)
(* name.  Every writer is a process (or goroutine) that performs the steps *)
(* CreateTmp, Write (any positive number of bytes at a time -- short       *)
(* writes), Close, Rename, or Fail (write error: the temporary file is     *)
(* removed); Crash stops it for good in any state, leaving the directory   *)
(* as it is.  Prune removes temporary files at any time, also live ones.   *)
(* Variant selects the mechanism: "tmp" is the code; the others are the    *)
(* changes the check is meant to catch and must violate the invariant.     *)
(***************************************************************************)
EXTENDS Integers, Sequences, FiniteSets, TLC

CONSTANTS Writers, IdOf, Total, Variant
VARIABLES files, pc, name, off, nextTmp
vars == <<files, pc, name, off, nextTmp>>

ChunkName(p) == p[1] = "C"
Drop(f, p) == [q \in (DOMAIN f) \ {p} |-> f[q]]
Put(f, p, v) == [q \in (DOMAIN f) \cup {p} |-> IF q = p THEN v ELSE f[q]]

Init == /\ files = <<>> /\ pc = [w \in Writers |-> "start"] /\ name = [w \in Writers |-> <<"none", 0>>]
        /\ off = [w \in Writers |-> 0] /\ nextTmp = 1

CreateTmp(w) ==
  /\ pc[w] = "start"
  /\ LET p == CASE Variant = "shared" -> <<"T", IdOf[w]>>             \* temporary name derived from the chunk ID, O_TRUNC
                [] Variant = "direct" -> <<"C", IdOf[w]>>             \* written under the final name
                [] OTHER -> <<"T", 100 + nextTmp>>                    \* O_EXCL with a random suffix: always fresh
     IN /\ files' = Put(files, p, 0)
        /\ name' = [name EXCEPT ![w] = p]
  /\ nextTmp' = nextTmp + 1
  /\ pc' = [pc EXCEPT ![w] = IF Variant = "renamefirst" THEN "closed" ELSE "tmp"]
  /\ UNCHANGED off

Write(w, k) ==
  /\ pc[w] = "tmp" /\ off[w] + k <= Total
  /\ off' = [off EXCEPT ![w] = @ + k]
  /\ files' = IF name[w] \in DOMAIN files THEN Put(files, name[w], IF files[name[w]] > off[w] + k THEN files[name[w]] ELSE off[w] + k)
              ELSE files                                               \* unlinked meanwhile: the bytes go to an orphan
  /\ pc' = [pc EXCEPT ![w] = IF off[w] + k = Total THEN "written" ELSE "tmp"]
  /\ UNCHANGED <<name, nextTmp>>

Close(w) == /\ pc[w] = "written" /\ pc' = [pc EXCEPT ![w] = "closed"] /\ UNCHANGED <<files, name, off, nextTmp>>

Rename(w) ==
  /\ pc[w] = "closed"
  /\ IF name[w] \in DOMAIN files
     THEN /\ files' = (IF name[w] = <<"C", IdOf[w]>> THEN files ELSE Put(Drop(files, name[w]), <<"C", IdOf[w]>>, files[name[w]]))
          /\ pc' = [pc EXCEPT ![w] = IF Variant = "renamefirst" /\ off[w] < Total THEN "tmp" ELSE "done"]
          /\ name' = [name EXCEPT ![w] = <<"C", IdOf[w]>>]
     ELSE /\ files' = files /\ pc' = [pc EXCEPT ![w] = "failed"] /\ UNCHANGED name
  /\ UNCHANGED <<off, nextTmp>>

Fail(w) == /\ pc[w] = "tmp"
           /\ files' = IF name[w] \in DOMAIN files /\ ~ChunkName(name[w]) THEN Drop(files, name[w]) ELSE files
           /\ pc' = [pc EXCEPT ![w] = "failed"] /\ UNCHANGED <<name, off, nextTmp>>

Crash(w) == /\ pc[w] \notin {"done", "failed", "dead"} /\ pc' = [pc EXCEPT ![w] = "dead"] /\ UNCHANGED <<files, name, off, nextTmp>>

Prune == /\ \E p \in DOMAIN files : ~ChunkName(p) /\ files' = Drop(files, p)
         /\ UNCHANGED <<pc, name, off, nextTmp>>

Next == \/ \E w \in Writers : CreateTmp(w) \/ (\E k \in 1..Total : Write(w, k)) \/ Close(w) \/ Rename(w) \/ Fail(w) \/ Crash(w)
        \/ Prune
Spec == Init /\ [][Next]_vars

\* ---- the property: whatever is visible under a chunk name is complete, in every state (= after a death at any instant)
NoPartial == \A p \in DOMAIN files : ChunkName(p) => files[p] = Total
\* a chunk name only ever appears, or changes, through the rename of a complete temporary file
OnlyByRename == [][\A p \in DOMAIN files' : ChunkName(p) /\ (p \notin DOMAIN files \/ files[p] # files'[p])
                     => \E w \in Writers : pc[w] = "closed" /\ pc'[w] = "done" /\ files'[p] = Total]_vars
\* a writer that reports success leaves the complete chunk behind (unless pruned... chunk names are never pruned here)
DoneMeansStored == \A w \in Writers : pc[w] = "done" => <<"C", IdOf[w]>> \in DOMAIN files /\ files[<<"C", IdOf[w]>>] = Total
\* reachability witness (expected to be violated): two writers of the same ID both succeed
BothDone == ~(\A w \in Writers : pc[w] = "done")
=============================================================================
