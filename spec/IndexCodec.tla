----------------------------- MODULE IndexCodec -----------------------------
(***************************************************************************)
(* The caibx / caidx index file format (index.go, format.go) -- C04.       *)
(*                                                                         *)
(* A file is a sequence of tokens: one token per 64-bit little-endian      *)
(* field or 32-byte chunk ID.  A token is a record [k, v]:                 *)
(*   k = "n"     a number v < 2^31                                         *)
(*   k = "big"   a number >= 2^31 that is not 2^64-1 (v distinguishes)     *)
(*   k = "maxu"  2^64-1                                                    *)
(*   k = "magic" v = 1 CaFormatIndex, 2 CaFormatTable, 3 table tail marker *)
(*   k = "flags" feature flags: v = 1 with the SHA512/256 bit, 0 without   *)
(*   k = "id"    a chunk ID (v names it)                                   *)
(*   k = "part"  trailing bytes that do not make up a whole field          *)
(* Encode is the layout; Decode is the reader as a state machine with its  *)
(* reject transitions.  TLC checks the theorems at the end over a small    *)
(* domain; Trace_IndexCodec.tla applies Encode/Decode to the tokens of     *)
(* files written and read by the real code.                                *)
(***************************************************************************)
EXTENDS Integers, Sequences, FiniteSets, TLC

N(v) == [k |-> "n", v |-> v]
Magic(v) == [k |-> "magic", v |-> v]
MaxU == [k |-> "maxu", v |-> 0]
Flags(sha512) == [k |-> "flags", v |-> IF sha512 THEN 1 ELSE 0]
Id(v) == [k |-> "id", v |-> v]

\* an index: [sha512: BOOLEAN, min, avg, max: token, chunks: Seq([size, id])]
RECURSIVE Items(_, _)
Items(chunks, off) == IF chunks = <<>> THEN <<>>
                      ELSE <<N(off + Head(chunks).size), Id(Head(chunks).id)>> \o Items(Tail(chunks), off + Head(chunks).size)
Encode(ix) == <<N(48), Magic(1), Flags(ix.sha512), ix.min, ix.avg, ix.max, MaxU, Magic(2)>>
              \o Items(ix.chunks, 0)
              \o <<N(0), N(0), N(48), N(16 + 40 * Len(ix.chunks) + 40), Magic(3)>>

\* ---- the reader.  Result: [ok |-> BOOLEAN, ix |-> index (when ok)]
Reject == [ok |-> FALSE]
\* any whole 8-byte field is a number for the reader (a value that happens to equal a magic constant is just huge)
IsNum(t) == t.k \in {"n", "big", "maxu", "magic", "flags"}
Huge(t) == t.k \in {"big", "maxu", "magic", "flags"}
\* size of a chunk ending at offset token o after offset `last` (a number), compared with the declared maximum:
\* the subtraction is done in unsigned 64-bit arithmetic, so a decreasing offset wraps to a huge size
TooBig(o, last, max) ==
  IF o.k = "n" THEN IF o.v >= last THEN (max.k = "n" /\ o.v - last > max.v)
                    ELSE ~Huge(max)                               \* wrapped: huge, rejected unless the declared max is huge too
  ELSE ~Huge(max)                                                 \* a huge offset after small ones: huge chunk
RECURSIVE DecItems(_, _, _, _, _)
\* w: remaining tokens, after the table header; returns the chunk list or rejects
DecItems(w, last, max, acc, sha) ==
  IF w = <<>> THEN Reject                                          \* truncated
  ELSE LET o == Head(w) IN
       IF ~IsNum(o) THEN Reject                                    \* a partial field, or something that cannot be an offset
       ELSE IF o.k = "n" /\ o.v = 0
       THEN \* end of items: zero fill 2, index offset, table size, tail marker
            IF Len(w) < 5 THEN Reject
            ELSE IF ~(w[2].k = "n" /\ w[2].v = 0) THEN Reject
            ELSE IF ~IsNum(w[3]) \/ ~IsNum(w[4]) THEN Reject       \* not validated, but they must be there
            ELSE IF w[5] # Magic(3) THEN Reject
            ELSE [ok |-> TRUE, chunks |-> acc, rest |-> SubSeq(w, 6, Len(w))]
       ELSE IF Len(w) < 2 \/ w[2].k # "id" THEN Reject             \* the ID is 32 bytes: four fields of anything; tokenised as id
       ELSE IF TooBig(o, last, max) THEN Reject
       ELSE IF o.k # "n" THEN Reject                               \* (huge offsets only get here with a huge declared max: outside the model)
       ELSE DecItems(SubSeq(w, 3, Len(w)), o.v, max, Append(acc, [size |-> o.v - last, id |-> w[2].v]), sha)
\* digest: TRUE = the library is configured for SHA512/256
Decode(w, digest512) ==
  IF Len(w) < 6 THEN Reject
  ELSE IF ~IsNum(w[1]) \/ w[2] # Magic(1) THEN Reject              \* header size is not validated, the type is
  ELSE IF w[3].k # "flags" THEN Reject
  ELSE IF (w[3].v = 1) # digest512 THEN Reject                     \* digest flag must agree with the configured digest
  ELSE IF ~IsNum(w[4]) \/ ~IsNum(w[5]) \/ ~IsNum(w[6]) THEN Reject
  ELSE IF Len(w) < 8 THEN Reject
  ELSE IF w[7] # MaxU \/ w[8] # Magic(2) THEN Reject               \* table header: size 2^64-1, type table
  ELSE LET r == DecItems(SubSeq(w, 9, Len(w)), 0, w[6], <<>>, w[3].v = 1) IN
       IF ~r.ok THEN Reject
       ELSE [ok |-> TRUE, ix |-> [sha512 |-> w[3].v = 1, min |-> w[4], avg |-> w[5], max |-> w[6], chunks |-> r.chunks]]

----------------------------------------------------------------------------
(* Theorems, checked by TLC over a small domain (IndexCodecMC.cfg) *)
CONSTANTS MaxChunks, Sizes, IdVals
Indexes == {[sha512 |-> s, min |-> N(1), avg |-> N(2), max |-> N(mx), chunks |-> c] :
              s \in BOOLEAN, mx \in {2, 3}, c \in UNION {[1..k -> [size : {z \in Sizes : z <= 3}, id : IdVals]] : k \in 0..MaxChunks}}
Valid(ix) == \A k \in 1..Len(ix.chunks) : Huge(ix.max) \/ (ix.max.k = "n" /\ ix.chunks[k].size <= ix.max.v)
RoundTrip == \A ix \in Indexes : Valid(ix) => LET d == Decode(Encode(ix), ix.sha512) IN d.ok /\ d.ix = ix
OversizeRejected == \A ix \in Indexes : ~Valid(ix) => ~Decode(Encode(ix), ix.sha512).ok
PrefixRejected == \A ix \in Indexes : Valid(ix) => \A n \in 0..(Len(Encode(ix)) - 1) : ~Decode(SubSeq(Encode(ix), 1, n), ix.sha512).ok
DigestMismatchRejected == \A ix \in Indexes : ~Decode(Encode(ix), ~ix.sha512).ok
\* whatever is accepted re-encodes to the same file, up to the two tail fields the reader ignores and the header size
Canonical(w) == [k \in 1..Len(w) |-> IF k = 1 \/ k = Len(w) - 2 \/ k = Len(w) - 1 THEN N(0) ELSE w[k]]
Alphabet == {N(0), N(1), N(2), N(3), N(48), MaxU, Magic(1), Magic(2), Magic(3), Id(1)}
SubstitutionSound ==
  \A ix \in {i \in Indexes : Valid(i) /\ Len(i.chunks) <= 2} :
    \A p \in 1..Len(Encode(ix)) : \A t \in Alphabet :
       LET w == [Encode(ix) EXCEPT ![p] = t]
           d == Decode(w, ix.sha512)
       IN d.ok => ((Valid(d.ix) /\ Canonical(Encode(d.ix)) = Canonical(w)) \/ (PrintT(<<"CEX", ix, p, t, d>>) /\ FALSE))
ASSUME RoundTrip
ASSUME OversizeRejected
ASSUME PrefixRejected
ASSUME DigestMismatchRejected
ASSUME SubstitutionSound
VARIABLE x
Spec == x = 0 /\ [][UNCHANGED x]_x
=============================================================================
