----------------------------- MODULE StoreChain -----------------------------
(***************************************************************************)
(* Store chains (storerouter.go, cache.go, failover.go, swapstore.go,      *)
(* dedupqueue.go as wired by cmd/desync/store.go) -- C11, C03.             *)
(*                                                                         *)
(* An executable reference model of the documented policy.  A chain is a   *)
(* tree of records:                                                        *)
(*   [t |-> "leaf", m, verify]                 a member store              *)
(*   [t |-> "router", subs]                    first member that has it    *)
(*   [t |-> "cache", up, local, repair]        local first, fill on miss   *)
(*   [t |-> "failover", g, subs]               one active member, rotate   *)
(*   [t |-> "wrap", s]                         dedup queue / swap wrapper  *)
(* A member is [c: Id -> "absent"|"good"|"corrupt", healthy: BOOLEAN].     *)
(* Get/Has return [res, st, calls]: the result class, the new state        *)
(* (member contents, active member of every failover group) and the member *)
(* calls made.  Result classes: "ok" (the chunk, hashing to its ID),       *)
(* "okbad" (a chunk that does NOT hash to its ID -- only reachable through *)
(* a non-verifying leaf), "missing", "invalid", "error".                   *)
(***************************************************************************)
EXTENDS Integers, Sequences, FiniteSets, TLC

IsHit(r) == r \in {"ok", "okbad"}

RECURSIVE Get(_, _, _), GetRouter(_, _, _, _), GetFailover(_, _, _, _, _)
Get(c, st, id) ==
  CASE c.t = "leaf" ->
         LET mm == st.m[c.m] IN
         [res |-> IF ~mm.healthy THEN "error"
                  ELSE CASE mm.c[id] = "good" -> "ok"
                         [] mm.c[id] = "absent" -> "missing"
                         [] OTHER -> IF c.verify THEN "invalid" ELSE "okbad",
          st |-> st, calls |-> << <<c.m, "get">> >>]
    [] c.t = "wrap" -> Get(c.s, st, id)
    [] c.t = "router" -> GetRouter(c.subs, st, id, <<>>)
    [] c.t = "failover" -> GetFailover(c, st, id, Len(c.subs), <<>>)
    [] c.t = "cache" ->
         LET lr == Get(c.local, st, id)
             lres == IF c.repair /\ lr.res = "invalid" THEN "missing" ELSE lr.res
         IN IF lres # "missing" THEN [res |-> lres, st |-> lr.st, calls |-> lr.calls]
            ELSE LET ur == Get(c.up, lr.st, id) IN
                 IF ~IsHit(ur.res) THEN [res |-> ur.res, st |-> ur.st, calls |-> lr.calls \o ur.calls]
                 ELSE LET lm == c.local.m
                          mm == ur.st.m[lm]
                      IN IF ~mm.healthy
                         THEN [res |-> "error", st |-> ur.st, calls |-> lr.calls \o ur.calls \o << <<lm, "store">> >>]
                         ELSE [res |-> ur.res,
                               st |-> [ur.st EXCEPT !.m[lm].c[id] = IF ur.res = "ok" THEN "good" ELSE "corrupt"],
                               calls |-> lr.calls \o ur.calls \o << <<lm, "store">> >>]
GetRouter(subs, st, id, calls) ==
  IF subs = <<>> THEN [res |-> "missing", st |-> st, calls |-> calls]
  ELSE LET r == Get(Head(subs), st, id) IN
       IF r.res = "missing" THEN GetRouter(Tail(subs), r.st, id, calls \o r.calls)
       ELSE [res |-> r.res, st |-> r.st, calls |-> calls \o r.calls]
\* at most one attempt per member; rotate on any error other than "missing"
GetFailover(c, st, id, left, calls) ==
  IF left = 0 THEN [res |-> "error", st |-> st, calls |-> calls]
  ELSE LET a == ((st.act[c.g] - 1) % Len(c.subs)) + 1
           r == Get(c.subs[a], st, id)
       IN IF IsHit(r.res) \/ r.res = "missing" THEN [res |-> r.res, st |-> r.st, calls |-> calls \o r.calls]
          ELSE LET st2 == [r.st EXCEPT !.act[c.g] = (a % Len(c.subs)) + 1] IN
               IF left = 1 THEN [res |-> r.res, st |-> st2, calls |-> calls \o r.calls]
               ELSE GetFailover(c, st2, id, left - 1, calls \o r.calls)

RECURSIVE Has(_, _, _), HasRouter(_, _, _, _), HasFailover(_, _, _, _, _)
Has(c, st, id) ==
  CASE c.t = "leaf" ->
         LET mm == st.m[c.m] IN
         [res |-> IF ~mm.healthy THEN "error" ELSE IF mm.c[id] = "absent" THEN "false" ELSE "true",
          st |-> st, calls |-> << <<c.m, "has">> >>]
    [] c.t = "wrap" -> Has(c.s, st, id)
    [] c.t = "router" -> HasRouter(c.subs, st, id, <<>>)
    [] c.t = "failover" -> HasFailover(c, st, id, Len(c.subs), <<>>)
    [] c.t = "cache" ->
         LET lr == Has(c.local, st, id) IN
         IF lr.res # "false" THEN lr
         ELSE LET ur == Has(c.up, lr.st, id) IN [res |-> ur.res, st |-> ur.st, calls |-> lr.calls \o ur.calls]
HasRouter(subs, st, id, calls) ==
  IF subs = <<>> THEN [res |-> "false", st |-> st, calls |-> calls]
  ELSE LET r == Has(Head(subs), st, id) IN
       IF r.res = "false" THEN HasRouter(Tail(subs), r.st, id, calls \o r.calls)
       ELSE [res |-> r.res, st |-> r.st, calls |-> calls \o r.calls]
HasFailover(c, st, id, left, calls) ==
  IF left = 0 THEN [res |-> "error", st |-> st, calls |-> calls]
  ELSE LET a == ((st.act[c.g] - 1) % Len(c.subs)) + 1
           r == Has(c.subs[a], st, id)
       IN IF r.res # "error" THEN [res |-> r.res, st |-> r.st, calls |-> calls \o r.calls]
          ELSE LET st2 == [r.st EXCEPT !.act[c.g] = (a % Len(c.subs)) + 1] IN
               IF left = 1 THEN [res |-> "error", st |-> st2, calls |-> calls \o r.calls]
               ELSE HasFailover(c, st2, id, left - 1, calls \o r.calls)

\* StoreChunk on a writable chain: a single (possibly wrapped) leaf
RECURSIVE Put(_, _, _)
Put(c, st, id) ==
  CASE c.t = "wrap" -> Put(c.s, st, id)
    [] c.t = "leaf" -> IF st.m[c.m].healthy
                       THEN [res |-> "ok", st |-> [st EXCEPT !.m[c.m].c[id] = "good"], calls |-> << <<c.m, "store">> >>]
                       ELSE [res |-> "error", st |-> st, calls |-> << <<c.m, "store">> >>]
    [] OTHER -> [res |-> "error", st |-> st, calls |-> <<>>]

----------------------------------------------------------------------------
(* The documented policy as properties of the reference model itself, checked by TLC over all small
   chains, contents and health patterns (StoreChainMC.tla), so that the model is known to say what
   the documentation says. *)
RECURSIVE Leaves(_)
Leaves(c) == CASE c.t = "leaf" -> {c}
               [] c.t = "wrap" -> Leaves(c.s)
               [] c.t = "cache" -> Leaves(c.up) \cup Leaves(c.local)
               [] OTHER -> UNION {Leaves(c.subs[k]) : k \in 1..Len(c.subs)}
Verifying(c) == \A lf \in Leaves(c) : lf.verify
\* C03: through verifying members no chunk is delivered that does not hash to its ID
NoBadDelivery(c, st, id) == Verifying(c) => Get(c, st, id).res # "okbad"
\* router: a chunk is returned if some member has it and all earlier members merely lack it
RouterFinds(c, st, id) ==
  (c.t = "router" /\ \A k \in 1..Len(c.subs) : c.subs[k].t = "leaf") =>
     \A k \in 1..Len(c.subs) :
        (/\ st.m[c.subs[k].m].healthy /\ st.m[c.subs[k].m].c[id] = "good"
         /\ \A j \in 1..(k-1) : st.m[c.subs[j].m].healthy /\ st.m[c.subs[j].m].c[id] = "absent")
        => Get(c, st, id).res = "ok"
\* cache: a cached chunk is served without touching upstream; a miss fills the cache; repair replaces an invalid one
CacheHitLocalOnly(c, st, id) ==
  (c.t = "cache" /\ st.m[c.local.m].healthy /\ st.m[c.local.m].c[id] = "good") =>
     LET r == Get(c, st, id) IN r.res = "ok" /\ \A k \in 1..Len(r.calls) : r.calls[k][1] = c.local.m
CacheFills(c, st, id) ==
  (c.t = "cache" /\ st.m[c.local.m].healthy /\ (st.m[c.local.m].c[id] = "absent" \/ (c.repair /\ c.local.verify /\ st.m[c.local.m].c[id] = "corrupt")))
     => LET r == Get(c, st, id) IN r.res = "ok" => r.st.m[c.local.m].c[id] = "good"
\* failover: succeeds while one member is healthy and has the chunk; never turns "missing" into something else
FailoverLive(c, st, id) ==
  (c.t = "failover" /\ \A k \in 1..Len(c.subs) : c.subs[k].t = "leaf" /\ c.subs[k].verify) =>
     /\ (/\ \E k \in 1..Len(c.subs) : st.m[c.subs[k].m].healthy
         /\ \A k \in 1..Len(c.subs) : st.m[c.subs[k].m].c[id] = "good") => Get(c, st, id).res = "ok"
     /\ LET a == ((st.act[c.g] - 1) % Len(c.subs)) + 1 IN
        (st.m[c.subs[a].m].healthy /\ st.m[c.subs[a].m].c[id] = "absent") => Get(c, st, id).res = "missing"
     /\ Len(Get(c, st, id).calls) <= Len(c.subs)
=============================================================================
