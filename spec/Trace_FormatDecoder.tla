------------------------ MODULE Trace_FormatDecoder ------------------------
(***************************************************************************)
(* Validates records of the real decoders against FormatDecoder.tla.       *)
(* One record per input: entry point, the input's structure (element       *)
(* classes / element kinds / message class), the outcome of every call,    *)
(* a panic message if any, bytes allocated.  For every entry point: no     *)
(* panic, no hang, allocation within c * input length + K; and the outcome *)
(* must be the one FormatDecoder.tla requires for the input's class.       *)
(***************************************************************************)
EXTENDS FormatDecoder, Json

CONSTANT TraceFile
Trace == ndJsonDeserialize(TraceFile)
VARIABLES l, bad
tvars == <<l, bad, x>>

\* (the untarindex entry point chunks the archive into a store first: its allocation is the harness's, not the decoder's)
K(ep) == IF ep = "untarindex" THEN 1000000000 ELSE IF ep \in {"httpput", "makefile"} THEN 2097152 ELSE 262144
Last(s) == s[Len(s)]
Count(s, v) == Cardinality({i \in 1..Len(s) : s[i] = v})

Judge(e) ==
  LET f(cond, what) == IF cond THEN {} ELSE {<<l, what>>} IN
  f(e.panic = "", "the decoder panicked or the process died: " \o e.panic)
  \cup f(~e.hung, "the decoder did not return")
  \cup f(e.alloc <= 8 * e.inlen + K(e.ep), "allocation out of proportion to the input")
  \cup (IF e.panic # "" \/ e.hung THEN {}
        ELSE IF e.fam = "random" THEN f(Len(e.res) >= 1, "no outcome")
        ELSE IF e.ep = "format" THEN f(Match(Exp(e.elems), e.res), "FormatDecoder.Next: outcome differs from the one required for these element classes")
        ELSE IF e.ep = "makefile" THEN f(e.res = <<"ok">>, "IndexFromFile failed on a blob because of its first bytes")
        ELSE IF e.ep = "archive" THEN
             LET q == ArchReq(e.kinds, e.cutmid) IN
             f(Len(e.res) >= 1 /\ (q = "any" \/ Last(e.res) = q), "ArchiveDecoder.Next: final outcome differs from the required one (error for malformed or truncated archives, end for complete ones)")
             \cup f(q # "eof" \/ Count(e.res, "node") = Cardinality({i \in 1..Len(e.kinds) : IsEntry(e.kinds[i])}), "a complete archive did not yield one node per entry")
        ELSE IF e.ep = "untarindex" THEN
             LET q == ArchReq(e.kinds, e.cutmid) IN
             f(q = "any" \/ e.res = <<IF q = "eof" THEN "ok" ELSE "error">>, "UnTarIndex: a truncated or malformed archive behind an index must fail, a complete one must unpack")
        ELSE IF e.ep \in {"index", "httpput"} THEN f(e.res = <<IF e.complete THEN "ok" ELSE "error">>, "index reader: a complete file must be accepted and a truncated one rejected")
        ELSE IF e.ep = "proto" THEN
             f(MsgClass(e.msg) = "eofmsg" \/ e.res = <<IF MsgClass(e.msg) = "valid" THEN "ok" ELSE "error">>, "ReadMessage: outcome differs from the one required for this message class")
             \cup f(MsgClass(e.msg) # "eofmsg" \/ e.res = <<"error">>, "ReadMessage at end of input must fail")
        ELSE IF e.ep = "hello" THEN
             f(e.res = <<IF MsgClass(e.msg) = "valid" /\ e.msg.typ = "hello" /\ e.msg.len = 24 THEN "ok" ELSE "error">>, "RecvHello accepts exactly a well-formed HELLO")
        ELSE IF e.ep = "request" THEN
             \* only a well-formed CHUNK reply can be a success (its body is then still checked against the ID: error here)
             f(e.res = <<"error">>, "RequestChunk must fail for a missing, malformed, unexpected or unverifiable reply")
        ELSE IF e.ep = "server" THEN
             \* the input ends after the message: the server must stop; with an error unless the message is a well-formed GOODBYE
             f(e.res = <<IF MsgClass(e.msg) = "valid" /\ e.msg.typ = "goodbye" THEN "ok" ELSE "error">>, "Serve: must end with an error unless the client said goodbye")
        ELSE {})

TInit == l = 1 /\ bad = {} /\ x = 0
TNext == /\ l <= Len(Trace)
         /\ bad' = bad \cup Judge(Trace[l])
         /\ l' = l + 1
         /\ UNCHANGED x
TSpec == TInit /\ [][TNext]_tvars
NoBad == bad = {}
Constr == TLCSet(1, l)
Accepted == TLCGet(1) = Len(Trace) + 1 \/ Len(Trace) = 0
=============================================================================
