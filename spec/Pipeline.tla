------------------------------ MODULE Pipeline ------------------------------
(***************************************************************************)
(* The feeder / worker / errgroup skeleton shared by ChopFile, Copy,       *)
(* ChunkStream (make -s, tar -i), VerifyIndex -- C06, C07, C17.            *)
(*                                                                         *)
(* This module defines the state and the EFFECT of every observable step   *)
(* (one per hook point / gated store call).  Enabling conditions here are  *)
(* minimal: PipelineMC.tla adds the code's sequencing discipline (program  *)
(* counters) for exhaustive exploration, Trace_Pipeline.tla drives the     *)
(* same actions from events recorded on the real code.  The property is    *)
(* stated on this module's variables only.                                 *)
(***************************************************************************)
EXTENDS Integers, Sequences, FiniteSets, TLC

VARIABLES jobs,       \* Seq of chunk ids (ChopFile/Copy/ChunkStream: one job per index entry; VerifyIndex: batches)
          nwk,        \* number of workers
          nextj,      \* next job the feeder will offer (1-based)
          offered,    \* job numbers the feeder has offered (or sent) that no worker has acknowledged yet;
                      \* the channel is unbuffered, so this is at most the job in the select -- plus, in a
                      \* recorded trace, jobs whose receiver has not logged its arrival yet
          feeder,     \* "feeding" | "left" (took the ctx.Done branch) | "closed"
          inflight,   \* [worker -> job number or 0]
          exited,     \* set of workers whose goroutine returned
          units,      \* number of work units (index entries); a job covers one unit, a VerifyIndex batch a range
          cover,      \* Seq: cover[j] = the units job j consists of (grows as jobs are fed)
          done,       \* set of units completed successfully
          processed,  \* ChunkStorage's in-memory set of IDs
          stored,     \* IDs present in the target store
          failedCalls,\* number of store operations that returned an error
          workerErr,  \* some worker returned an error (errgroup's first error)
          cancelled,  \* the caller cancelled the context
          result      \* "none" | "ok" | "error" | "interrupted"

vars == <<jobs, nwk, nextj, offered, feeder, inflight, exited, units, cover, done, processed, stored, failedCalls,
          workerErr, cancelled, result>>

WorkersSet == 1..nwk
AllJobs == 1..Len(jobs)
CtxDone == cancelled \/ workerErr       \* the errgroup's derived context

InitWith(js, n, have, k) ==
  /\ units = k /\ cover = <<>>
  /\ jobs = js /\ nwk = n /\ nextj = 1 /\ offered = {} /\ feeder = "feeding"
  /\ inflight = [w \in 1..n |-> 0] /\ exited = {} /\ done = {} /\ processed = {} /\ stored = have
  /\ failedCalls = 0 /\ workerErr = FALSE /\ cancelled = FALSE /\ result = "none"
ResetWith(js, n, have, k) ==
  /\ units' = k /\ cover' = <<>>
  /\ jobs' = js /\ nwk' = n /\ nextj' = 1 /\ offered' = {} /\ feeder' = "feeding"
  /\ inflight' = [w \in 1..n |-> 0] /\ exited' = {} /\ done' = {} /\ processed' = {} /\ stored' = have
  /\ failedCalls' = 0 /\ workerErr' = FALSE /\ cancelled' = FALSE /\ result' = "none"

\* ---- feeder
MaxOf(S) == CHOOSE x \in S : \A y \in S : x >= y
Feed(u) == /\ feeder = "feeding" /\ offered' = offered \cup {nextj} /\ nextj' = nextj + 1
           /\ cover' = Append(cover, u)
           /\ UNCHANGED <<jobs, nwk, feeder, inflight, exited, units, done, processed, stored, failedCalls, workerErr, cancelled, result>>
\* the select's ctx.Done branch: the job being offered is withdrawn
Leave == /\ feeder = "feeding" /\ offered # {} /\ offered' = offered \ {MaxOf(offered)} /\ feeder' = "left"
         /\ UNCHANGED <<jobs, nwk, nextj, inflight, exited, units, cover, done, processed, stored, failedCalls, workerErr, cancelled, result>>
\* close(in) after the loop (all jobs fed, or after Leave)
Close == /\ feeder \in {"feeding", "left"} /\ feeder' = "closed"
         /\ UNCHANGED <<jobs, nwk, nextj, offered, inflight, exited, units, cover, done, processed, stored, failedCalls, workerErr, cancelled, result>>
\* ---- workers
Take(w, j) == /\ j \in offered /\ inflight[w] = 0 /\ w \notin exited
              /\ inflight' = [inflight EXCEPT ![w] = j] /\ offered' = offered \ {j}
              /\ UNCHANGED <<jobs, nwk, nextj, feeder, exited, units, cover, done, processed, stored, failedCalls, workerErr, cancelled, result>>
Mark(id) == /\ processed' = processed \cup {id}
            /\ UNCHANGED <<jobs, nwk, nextj, offered, feeder, inflight, exited, units, cover, done, stored, failedCalls, workerErr, cancelled, result>>
Unmark(id) == /\ processed' = processed \ {id}
              /\ UNCHANGED <<jobs, nwk, nextj, offered, feeder, inflight, exited, units, cover, done, stored, failedCalls, workerErr, cancelled, result>>
\* a call on the target (or source) store returned
StoreCall(op, id, res) ==
  /\ stored' = IF op = "store" /\ res = "ok" THEN stored \cup {id} ELSE stored
  /\ failedCalls' = IF res \in {"error", "missing", "invalid"} THEN failedCalls + 1 ELSE failedCalls
  /\ UNCHANGED <<jobs, nwk, nextj, offered, feeder, inflight, exited, units, cover, done, processed, workerErr, cancelled, result>>
\* the worker finished its job and goes back to the channel
JobDone(w) == /\ inflight[w] # 0 /\ done' = done \cup cover[inflight[w]] /\ inflight' = [inflight EXCEPT ![w] = 0]
              /\ UNCHANGED <<jobs, nwk, nextj, offered, feeder, exited, units, cover, processed, stored, failedCalls, workerErr, cancelled, result>>
\* the worker's goroutine returns: with an error if it was in the middle of a job
Exit(w) == /\ w \notin exited /\ exited' = exited \cup {w}
           /\ workerErr' = (workerErr \/ inflight[w] # 0)
           /\ inflight' = [inflight EXCEPT ![w] = 0]
           /\ UNCHANGED <<jobs, nwk, nextj, offered, feeder, units, cover, done, processed, stored, failedCalls, cancelled, result>>
Cancel == /\ ~cancelled /\ result = "none" /\ cancelled' = TRUE
          /\ UNCHANGED <<jobs, nwk, nextj, offered, feeder, inflight, exited, units, cover, done, processed, stored, failedCalls, workerErr, result>>
\* g.Wait() returned and the function reports res
Report(res) == /\ result = "none" /\ result' = res
               /\ UNCHANGED <<jobs, nwk, nextj, offered, feeder, inflight, exited, units, cover, done, processed, stored, failedCalls, workerErr, cancelled>>

----------------------------------------------------------------------------
(* The property (on a finished run) *)
\* C06: success means every referenced chunk is in the target store ...
OkImpliesComplete == result = "ok" => \A j \in AllJobs : jobs[j] \in stored
\* ... and no store operation failed
FailureReported == result = "ok" => failedCalls = 0
\* a worker's error is never swallowed by the group
WorkerErrorReported == result = "ok" => ~workerErr
\* C07: success means the work is complete: every job was taken and finished
OkImpliesAllDone == result = "ok" => done = 1..units
\* the function only returns when no job is in flight any more
WaitsForWorkers == result # "none" => \A w \in WorkersSet : inflight[w] = 0
=============================================================================
