---------------------------- MODULE Trace_S3Store ----------------------------
(* Judges records of the real S3Store against a scripted in-memory S3 endpoint by S3Store.tla's outcome sets. *)
EXTENDS S3Store, Json
CONSTANT TraceFile
Trace == ndJsonDeserialize(TraceFile)
VARIABLES l, bad
Flag(cond, what) == IF cond THEN {} ELSE {<<l, what>>}
Judge(e) ==
  CASE e.op = "get" -> Flag(e.res \in GetOut(e.script, e.R, e.verify, 1), "GetChunk: outcome not allowed for this response sequence and budget (data unchanged / missing vs failed / retries)")
                       \cup Flag(e.attempts <= e.R + 1, "GetChunk: more attempts than the retry budget allows")
    [] e.op = "has" -> IF e.res \in HasOut(e.script) THEN {}
                       ELSE IF e.res = "false" /\ Resp(e.script, 1) \in {"denied", "fail"}
                            THEN (IF PrintT(<<"KNOWN", "F23-s3-haschunk-swallows-errors", 0, l>>) THEN {} ELSE {})
                            ELSE {<<l, "HasChunk: outcome not allowed for this response">>}
    [] e.op = "store" -> Flag(e.res \in PutOut(e.script, e.R, 1), "StoreChunk: outcome not allowed for this response sequence")
                         \cup Flag(e.attempts <= e.R + 1, "StoreChunk: more attempts than the retry budget allows")
                         \cup Flag(e.res = "ok" => e.stored, "StoreChunk reported success but the object is not in the bucket under its key with the chunk's bytes")
    [] e.op = "layout" -> Flag(e.ok, e.what)
    [] OTHER -> {}
TInit == l = 1 /\ bad = {} /\ x = 0
TNext == l <= Len(Trace) /\ bad' = bad \cup Judge(Trace[l]) /\ l' = l + 1 /\ UNCHANGED x
TSpec == TInit /\ [][TNext]_<<l, bad, x>>
NoBad == bad = {}
Constr == TLCSet(1, l)
Accepted == TLCGet(1) = Len(Trace) + 1 \/ Len(Trace) = 0
=============================================================================
