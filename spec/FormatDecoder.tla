--------------------------- MODULE FormatDecoder ---------------------------
(***************************************************************************)
(* The decoders of casync's element format under arbitrary input           *)
(* (format.go FormatDecoder.Next, archive.go ArchiveDecoder.Next,          *)
(* protocol.go ReadMessage) -- C19.                                        *)
(*                                                                         *)
(* An input is a sequence of element CLASSES: element type, the value of   *)
(* the size field, how many bytes are really there after the 16-byte       *)
(* header, and two content flags (trailing NUL, goodbye tail marker).      *)
(* Sizes >= 2^31 are represented by HUGE.  Class(e) says what the input    *)
(* is -- valid, malformed, or loose (neither required to be accepted nor   *)
(* to be rejected) -- from the format description alone; Dec(e) is the     *)
(* decoder as coded: outcome and the number of bytes it allocates.         *)
(* Guarded = TRUE is the code after the repair of finding F10, FALSE the   *)
(* code as found (size - 16 computed without a lower bound, buffers of the *)
(* declared size).  The theorems: no panic, allocation proportional to     *)
(* the bytes that are there, malformed => error, valid => element.         *)
(*                                                                         *)
(* The same for the archive level: ArchReq classifies a sequence of        *)
(* (individually valid) element kinds by the archive grammar; ArchRun is   *)
(* ArchiveDecoder.Next as coded (Guarded = TRUE: after the repair of F21,  *)
(* end of input inside a node or with directories still open is an error). *)
(***************************************************************************)
EXTENDS Integers, Sequences, FiniteSets, TLC

CONSTANTS Guarded, MaxKinds

HUGE == 1000000000            \* stand-in for any size >= 2^31
Prealloc == 65536             \* largest buffer the repaired reader allocates before data was seen
Min(a, b) == IF a < b THEN a ELSE b

StrTypes == {"user", "group", "xattr", "selinux", "filename", "symlink"}
KindOf(t) == CASE t \in {"entry", "device"} -> "fixed"
               [] t \in StrTypes -> "str"
               [] t = "fcaps" -> "bytes"
               [] t \in {"acluser", "aclgroup"} -> "aclstr"
               [] t \in {"aclgroupobj", "acldefault", "index"} -> "loosefixed"
               [] t = "payload" -> "payload"
               [] t = "goodbye" -> "goodbye"
               [] t = "table" -> "table"
               [] OTHER -> "unknown"
Exact(t) == IF t = "entry" THEN 64 ELSE 32
Reads(t) == IF t = "aclgroupobj" THEN 8 ELSE 32          \* bytes a loosefixed element reads whatever its size field says
MinSize(k) == CASE k = "str" -> 17 [] k = "bytes" -> 16 [] k = "aclstr" -> 33 [] k = "payload" -> 16 [] k = "goodbye" -> 40 [] OTHER -> 16

\* ---- what the input IS (from the format description)
Class(e) ==
  LET k == KindOf(e.t) IN
  IF e.hdr # "full" THEN "malformed"                  \* the input ends inside the 16-byte header
  ELSE CASE k = "unknown" -> "malformed"
         [] k = "fixed" -> IF e.sz # Exact(e.t) \/ e.avail < Exact(e.t) - 16 THEN "malformed" ELSE "valid"
         [] k = "loosefixed" -> IF e.avail < Reads(e.t) THEN "malformed" ELSE IF e.sz = 16 + Reads(e.t) THEN "valid" ELSE "loose"
         [] k = "table" -> IF e.sz # HUGE THEN "malformed" ELSE "loose"             \* the table's content is C04's subject
         [] k = "goodbye" -> IF e.sz < 40 \/ (e.sz - 16) % 24 # 0 \/ e.avail < e.sz - 16 \/ ~e.tail THEN "malformed" ELSE "valid"
         [] OTHER -> IF e.sz < MinSize(k) \/ e.avail < e.sz - 16 THEN "malformed"
                     ELSE IF k \in {"str", "aclstr"} /\ ~e.nul THEN "loose" ELSE "valid"
Allowed(c) == CASE c = "valid" -> {"element"} [] c = "malformed" -> {"error"} [] OTHER -> {"element", "error"}

\* ---- the decoder as coded: [out, alloc]
\* reading n declared bytes of which avail are there
ReadN(n, avail) == IF Guarded THEN (IF n <= Prealloc THEN n ELSE 3 * Min(n, avail))   \* grows with the data
                   ELSE n                                                             \* make([]byte, n)
Dec(e) ==
  LET k == KindOf(e.t)
      out(o, a) == [out |-> o, alloc |-> a]
      got == e.avail
  IN
  IF e.hdr = "partial" THEN out("error", 16)
  ELSE IF e.hdr = "partial8" THEN out(IF Guarded THEN "error" ELSE "eof", 16)     \* as found: end of input between size and type reads as end of stream
  ELSE CASE k = "unknown" -> out("error", 16)
         [] k = "fixed" -> IF e.sz # Exact(e.t) THEN out("error", 16) ELSE IF got < Exact(e.t) - 16 THEN out("error", 64) ELSE out("element", 128)
         [] k = "loosefixed" -> IF got < Reads(e.t) THEN out("error", 64) ELSE out("element", 128)
         [] k = "table" -> IF e.sz # HUGE THEN out("error", 16) ELSE out(IF got >= 40 THEN "element" ELSE "error", 2 * got + 64)
         [] k = "payload" ->
              IF Guarded /\ e.sz < 16 THEN out("error", 16)
              ELSE IF e.sz < 16 \/ e.sz = HUGE THEN out(IF Guarded THEN "error" ELSE "element", 64)   \* as found: a negative limit reads as an empty payload
              ELSE IF got < e.sz - 16 THEN out(IF Guarded THEN "error" ELSE "element", 64)             \* as found: a short payload is not noticed (F21)
              ELSE out("element", 64)
         [] k = "goodbye" ->
              IF Guarded THEN (IF e.sz < 40 \/ (e.sz - 16) % 24 # 0 THEN out("error", 16)
                               ELSE IF got < e.sz - 16 THEN out("error", 3 * got + 64)
                               ELSE out(IF e.tail THEN "element" ELSE "error", 3 * got + 64))
              ELSE (IF e.sz < 16 THEN out("panic", 0)                                  \* (size-16)/24 wraps: makeslice panics
                    ELSE IF got < ((e.sz - 16) \div 24) * 24 THEN out("error", e.sz)    \* the declared number of items was allocated
                    ELSE out(IF e.sz >= 40 /\ e.tail THEN "element" ELSE "error", e.sz))
         [] OTHER ->
              LET hdrlen == IF k = "aclstr" THEN 32 ELSE 16
                  strip == k \in {"str", "aclstr"}
              IN IF Guarded THEN (IF e.sz < MinSize(k) THEN out("error", 16)
                                  ELSE IF got < e.sz - 16 THEN out("error", ReadN(e.sz - hdrlen, got) + 64)
                                  ELSE out("element", 2 * e.sz + 64))
                 ELSE (IF k = "aclstr" /\ got < 16 THEN out("error", 32)
                       ELSE IF e.sz < hdrlen THEN out("panic", 0)                       \* size - 16 wraps: makeslice: len out of range
                       ELSE IF got < e.sz - 16 THEN out("error", e.sz)                  \* make([]byte, size-16) before the data is seen
                       ELSE IF strip /\ e.sz = hdrlen THEN out("panic", 0)              \* b[:len(b)-1] with len(b) = 0
                       ELSE out("element", 2 * e.sz + 64))

\* allocation the decoder is entitled to for one element: proportional to the bytes that are really there
Bound(e) == 8 * (16 + e.avail) + 262144

ElemOK(e) == LET d == Dec(e) IN d.out # "panic" /\ d.out \in Allowed(Class(e)) /\ d.alloc <= Bound(e)

\* ---- streams of elements (FormatDecoder.Next called until error or end): the expected outcome list
RECURSIVE Exp(_)
Exp(es) == IF es = <<>> THEN <<"eof">>
           ELSE LET c == Class(Head(es)) IN
                IF c = "valid" THEN <<"element">> \o Exp(Tail(es))
                ELSE IF c = "malformed" THEN <<"error">>
                ELSE <<"any">>                                                         \* nothing is required from here on
\* res matches exp: equal up to the first "any"
RECURSIVE Match(_, _)
Match(exp, res) == IF exp = <<>> THEN res = <<>>
                   ELSE IF Head(exp) = "any" THEN TRUE
                   ELSE res # <<>> /\ Head(res) = Head(exp) /\ Match(Tail(exp), Tail(res))

\* ---- protocol messages: [len, avail, hdr]
MsgClass(m) == IF m.hdr = "none" THEN "eofmsg"
               ELSE IF m.hdr # "full" THEN "malformed"
               ELSE IF m.len < 16 \/ m.avail < m.len - 16 THEN "malformed" ELSE "valid"
MsgDec(m) == IF m.hdr # "full" THEN [out |-> "error", alloc |-> 16]
             ELSE IF m.len < 16 THEN [out |-> "error", alloc |-> 16]
             ELSE IF m.avail < m.len - 16 THEN [out |-> "error", alloc |-> ReadN(m.len - 8, m.avail + 8) + 16]
             ELSE [out |-> "ok", alloc |-> 2 * m.len + 16]
MsgOK(m) == LET d == MsgDec(m) IN (MsgClass(m) = "valid" => d.out = "ok") /\ (MsgClass(m) = "malformed" => d.out = "error")
                                  /\ d.alloc <= 8 * (16 + m.avail) + 262144

\* ---- the archive level: sequences of element kinds
Kinds == {"entry_dir", "entry_file", "entry_link", "entry_dev", "attr", "xattr", "xattr_nonul", "payload", "symlink", "device",
          "filename", "filename_bad", "goodbye"}
IsEntry(k) == k \in {"entry_dir", "entry_file", "entry_link", "entry_dev"}
Content(k) == k \in {"payload", "symlink", "device"}
Fits(cur, k) == (cur = "entry_file" /\ k = "payload") \/ (cur = "entry_link" /\ k = "symlink") \/ (cur = "entry_dev" /\ k = "device")
\* the grammar:  Node ::= entry attr* ( content | (filename Node)* goodbye );   Archive ::= Node
\* G state: [st: "entry"|"body"|"dirbody"|"end"|"viol", cur, depth, first]
G0 == [st |-> "entry", cur |-> "", depth |-> 0]
GStep(g, k) ==
  LET closed(d) == IF d = 0 THEN "end" ELSE "dirbody" IN
  IF g.st = "viol" \/ g.st = "end" THEN [g EXCEPT !.st = "viol"]
  ELSE IF g.st = "entry" THEN (IF IsEntry(k) /\ (g.depth > 0 \/ k \in {"entry_dir", "entry_file"})      \* casync archives are rooted in a directory; a lone file is decodable too
                               THEN [g EXCEPT !.st = "body", !.cur = k] ELSE [g EXCEPT !.st = "viol"])
  ELSE IF g.st = "body" THEN
         (IF k \in {"attr", "xattr"} THEN g
          ELSE IF Content(k) THEN (IF Fits(g.cur, k) THEN [g EXCEPT !.st = closed(g.depth)] ELSE [g EXCEPT !.st = "viol"])
          ELSE IF g.cur = "entry_dir" /\ k = "filename" THEN [g EXCEPT !.st = "entry", !.depth = @ + 1]    \* first child: the directory is now open
          ELSE IF g.cur = "entry_dir" /\ k = "goodbye" THEN [g EXCEPT !.st = closed(g.depth)]               \* empty directory
          ELSE [g EXCEPT !.st = "viol"])
  ELSE \* dirbody: inside an open directory, after a child
         (IF k = "filename" THEN [g EXCEPT !.st = "entry"]
          ELSE IF k = "goodbye" THEN [g EXCEPT !.st = closed(g.depth - 1), !.depth = @ - 1]
          ELSE [g EXCEPT !.st = "viol"])
\* depth = number of open directories (whose children are being listed)
RECURSIVE GRun(_, _)
GRun(g, ks) == IF ks = <<>> THEN g ELSE GRun(GStep(g, Head(ks)), Tail(ks))

\* what the decoder is REQUIRED to detect (everything else that is not in the grammar is loose)
RECURSIVE Surely(_, _)
\* open: an entry has been read and its node not yet returned
Surely(open, ks) ==
  IF ks = <<>> THEN FALSE
  ELSE LET k == Head(ks) IN
       IF k \in {"filename_bad", "xattr_nonul"} THEN TRUE
       ELSE IF IsEntry(k) THEN (open \/ Surely(TRUE, Tail(ks)))
       ELSE IF k \in {"payload", "symlink", "device", "xattr"} THEN (~open \/ Surely(IF k = "payload" THEN FALSE ELSE open, Tail(ks)))
       ELSE IF k \in {"filename", "goodbye"} THEN Surely(FALSE, Tail(ks))
       ELSE Surely(open, Tail(ks))
\* required final outcome of decoding the sequence ks (cutmid: the input ends inside the element after ks)
ArchReq(ks, cutmid) ==
  LET g == GRun(G0, ks) IN
  IF Surely(FALSE, ks) THEN "error"
  ELSE IF g.st = "viol" THEN "any"
  ELSE IF cutmid THEN "error"
  ELSE IF g.st = "end" THEN "eof"
  ELSE IF ks = <<>> THEN "any"
  ELSE "error"                                        \* the archive ends inside a node or with directories open: truncated

\* ArchiveDecoder.Next as coded, called until error / end; returns the final outcome and the number of nodes returned.
\* entry: an entry element is pending; content: a symlink/device element was seen for it; named: a filename was seen in this
\* call; depth: directories returned and not yet closed by a goodbye (only the repaired code keeps it)
RECURSIVE ArchRun(_, _, _, _, _, _, _)
\* root: the nameless first entry has been returned.  A node may only be returned if it is that first entry or if it has a
\* name and lies in an open directory (repair of finding F22; not checked by the code as found)
ArchRun(ks, entry, content, named, depth, nodes, root) ==
  LET err == [out |-> "error", nodes |-> nodes]
      placed == ~Guarded \/ (IF named THEN depth > 0 ELSE ~root)
  IN
  IF ks = <<>> THEN
       IF Guarded /\ (entry \/ named \/ depth > 0) THEN err ELSE [out |-> "eof", nodes |-> nodes]     \* as found: any end of input is the end of the archive
  ELSE LET k == Head(ks) rest == Tail(ks) IN
       IF IsEntry(k) THEN (IF entry THEN err ELSE ArchRun(rest, TRUE, FALSE, named, depth, nodes, root))
       ELSE IF k = "attr" THEN ArchRun(rest, entry, content, named, depth, nodes, root)
       ELSE IF k = "xattr_nonul" THEN err
       ELSE IF k = "xattr" THEN (IF ~entry THEN err ELSE ArchRun(rest, entry, content, named, depth, nodes, root))
       ELSE IF k = "payload" THEN (IF ~entry \/ ~placed THEN err ELSE ArchRun(rest, FALSE, FALSE, FALSE, depth, nodes + 1, TRUE))     \* the file node is returned at once
       ELSE IF k \in {"symlink", "device"} THEN (IF ~entry THEN err ELSE ArchRun(rest, TRUE, TRUE, named, depth, nodes, root))
       ELSE IF entry THEN \* filename or goodbye with a pending entry: the node is returned (a directory unless content was seen), the element is kept for the next call
            (IF ~placed THEN err ELSE ArchRun(ks, FALSE, FALSE, FALSE, IF content THEN depth ELSE depth + 1, nodes + 1, TRUE))
       ELSE IF k = "filename_bad" THEN err
       ELSE IF k = "filename" THEN ArchRun(rest, FALSE, FALSE, TRUE, depth, nodes, root)
       ELSE ArchRun(rest, FALSE, FALSE, named, IF depth > 0 THEN depth - 1 ELSE 0, nodes, root)           \* goodbye: "cd .."

ArchOK(ks) == LET r == ArchRun(ks, FALSE, FALSE, FALSE, 0, 0, FALSE)
                  q == ArchReq(ks, FALSE)
              IN q = "any" \/ r.out = q

----------------------------------------------------------------------------
Types == {"entry", "user", "group", "xattr", "acluser", "aclgroup", "aclgroupobj", "acldefault", "acldefuser", "acldefgroup",
          "fcaps", "selinux", "symlink", "device", "payload", "filename", "goodbye", "index", "table", "unknown"}
SizeVals == {0, 8, 15, 16, 17, 24, 31, 32, 33, 39, 40, 41, 48, 63, 64, 65, 100, 65536, 1048576, HUGE}
AvailVals == {0, 1, 8, 16, 17, 23, 24, 32, 47, 48, 49, 84, 100}
Elems == [t : Types, sz : SizeVals, avail : AvailVals, hdr : {"full", "partial", "partial8"}, nul : BOOLEAN, tail : BOOLEAN]
Msgs == [len : SizeVals, avail : AvailVals, hdr : {"full", "partial", "lenonly"}]
KindSeqs == UNION {[1..n -> Kinds] : n \in 0..MaxKinds}

ASSUME \A e \in Elems : ElemOK(e) \/ (PrintT(<<"CEX element", e, Dec(e), Class(e)>>) /\ FALSE)
ASSUME \A m \in Msgs : MsgOK(m) \/ (PrintT(<<"CEX message", m, MsgDec(m)>>) /\ FALSE)
ASSUME \A ks \in KindSeqs : ArchOK(ks) \/ (PrintT(<<"CEX archive", ks, ArchRun(ks, FALSE, FALSE, FALSE, 0, 0, FALSE), ArchReq(ks, FALSE)>>) /\ FALSE)
VARIABLE x
Spec == x = 0 /\ [][UNCHANGED x]_x
=============================================================================
