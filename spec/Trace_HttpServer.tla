-------------------------- MODULE Trace_HttpServer --------------------------
(* Trace validation for C15: every request sent to the real chunk and index handlers (and a subset to the real
   chunk-server / index-server processes) over a sandboxed store with sentinel files around it is recorded as a row
   and judged by RowOK of HttpServer.tla. *)
EXTENDS Integers, Sequences, FiniteSets, TLC, Json
CONSTANTS TraceFile
Trace == ndJsonDeserialize(TraceFile)
VARIABLES l, bad
HS == INSTANCE HttpServer WITH x <- 0
Ev == Trace[l]
SeqToSet(s) == {s[k] : k \in 1..Len(s)}
Row == [kind |-> Ev.kind, authset |-> Ev.authset, writable |-> Ev.writable, verifywrite |-> Ev.verifywrite, compressed |-> Ev.compressed,
        method |-> Ev.method, pathclass |-> Ev.pathclass, authclass |-> Ev.authclass, bodyclass |-> Ev.bodyclass, target |-> Ev.target,
        status |-> Ev.status, called |-> SeqToSet(Ev.called), changed |-> SeqToSet(Ev.changed), outside |-> Ev.outside, leaked |-> Ev.leaked,
        dataok |-> Ev.dataok, stored |-> Ev.stored]
TInit == TLCSet(1, 0) /\ TLCSet(2, <<>>) /\ l = 1 /\ bad = {}
TRow == /\ l <= Len(Trace) /\ Ev.ev = "row" /\ l' = l + 1
        /\ bad' = IF HS!RowOK(Row) THEN bad ELSE bad \cup {<<l, "request handled against the authorization / read-only / verification / confinement rules">>}
TSpec == TInit /\ [][TRow]_<<l, bad>>
NoBad == bad = {}
Constr == TLCSet(1, IF TLCGet(1) < l THEN l ELSE TLCGet(1)) /\ (IF TLCGet(1) = l THEN TLCSet(2, <<0, l>>) ELSE TRUE)
Accepted == \/ TLCGet(1) = Len(Trace) + 1
            \/ PrintT(<<"REJECTED", TLCGet(1), Len(Trace), TLCGet(2)>>) /\ FALSE
=============================================================================
