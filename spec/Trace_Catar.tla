----------------------------- MODULE Trace_Catar -----------------------------
(* Trace validation for C13 and C05: archives produced by the real Tar (from disk and from tar streams) and casync-made
   fixtures are tokenised independently and run through the recogniser of Catar.tla; the node list the specification
   reconstructs must equal the source tree; trees unpacked by the real UnTar / UnTarIndex / tar writer must equal the
   source tree; packing twice must give identical bytes. *)
EXTENDS Integers, Sequences, FiniteSets, TLC, Json
CONSTANTS TraceFile
Trace == ndJsonDeserialize(TraceFile)
VARIABLES l, bad, c, expect, disk, scen
CT == INSTANCE Catar WITH MaxN <- 0, x <- 0
Ev == Trace[l]
IsEvent(e) == l <= Len(Trace) /\ Ev.ev = e /\ l' = l + 1
Flag(cond, what) == IF cond THEN {} ELSE {<<scen, l, what>>}
TInit == TLCSet(1, 0) /\ TLCSet(2, <<>>) /\ l = 1 /\ bad = {} /\ c = CT!Init0 /\ expect = <<>> /\ disk = FALSE /\ scen = 0
TArchive == /\ IsEvent("archive") /\ c' = CT!Init0 /\ expect' = Ev.expect /\ disk' = (Ev.source = "disk") /\ scen' = Ev.scen /\ UNCHANGED bad
TEl == /\ IsEvent("el")
       /\ LET c2 == CT!Step(c, Ev, l, disk) IN
          /\ c' = [c2 EXCEPT !.bad = {}]
          /\ bad' = bad \cup {<<scen, b[1], b[2]>> : b \in c2.bad}
       /\ UNCHANGED <<expect, disk, scen>>
\* field-wise comparison of node lists; mt: compare modification times of this kind of node
SameNode(a, b, mt) == /\ a.depth = b.depth /\ a.name = b.name /\ a.kind = b.kind /\ a.mode = b.mode /\ a.uid = b.uid /\ a.gid = b.gid
                      /\ a.content = b.content /\ a.target = b.target /\ a.major = b.major /\ a.minor = b.minor /\ a.xattrs = b.xattrs
                      /\ (mt => (a.msec = b.msec /\ a.mnsec = b.mnsec))
SameTree(s, t, mtAll) == /\ Len(s) = Len(t)
                         /\ \A k \in 1..Len(s) : SameNode(s[k], t[k], mtAll \/ s[k].kind \in {"file", "dev"})
TEnd == /\ IsEvent("end")
        /\ bad' = bad \cup Flag(c.mode = "end" /\ c.stack = <<>>, "archive ends inside an open node")
                      \* (the root of a tar stream is synthetic and carries no modification time)
                      \cup Flag(Ev.check => /\ Len(expect) = Len(c.nodes)
                                            /\ \A k \in 1..Len(expect) : SameNode(expect[k], c.nodes[k], disk \/ k > 1),
                                 "the tree an independent decoder reconstructs differs from the source tree")
        /\ UNCHANGED <<c, expect, disk, scen>>
TTwice == /\ IsEvent("packtwice") /\ bad' = bad \cup Flag(Ev.identical, "packing the same tree twice gave different archive bytes") /\ UNCHANGED <<c, expect, disk, scen>>
\* C05: the unpacked tree.
\* Known finding F11: directory and symlink modification times are not restored by the disk writer.
\* GNU tar output: the format stores whole seconds only (not a defect); known finding F18: set-id and sticky bits are lost
\* (the os.FileMode value is written as the mode); known finding F19: character devices are written as block devices.
Perm(m) == m % 512
DevKind(k) == IF k \in {"dev", "blk"} THEN "device" ELSE k
\* (whole seconds: the writer may truncate the nanoseconds or round to the nearest second)
SameNodeG(a, b, strict) == /\ a.depth = b.depth /\ a.name = b.name /\ a.uid = b.uid /\ a.gid = b.gid
                           /\ (b.msec = a.msec \/ (a.mnsec > 0 /\ b.msec = a.msec + 1))
                           /\ a.content = b.content /\ a.target = b.target /\ a.major = b.major /\ a.minor = b.minor
                           /\ IF strict THEN a.kind = b.kind /\ a.mode = b.mode ELSE DevKind(a.kind) = DevKind(b.kind) /\ Perm(a.mode) = Perm(b.mode)
SameTreeG(s, t, strict) == /\ Len(s) = Len(t) /\ \A k \in 1..Len(t) : SameNodeG(s[k], t[k], strict)
NoXattrs(s) == \A k \in 1..Len(s) : s[k].xattrs = <<>>
TUnpacked == /\ IsEvent("unpacked")
             /\ IF Ev.via = "gnutar"
                THEN IF ~Ev.ok THEN (IF NoXattrs(expect) THEN bad' = bad \cup {<<scen, l, "writing the tar stream failed">>}
                                     ELSE PrintT(<<"KNOWN", "F20-gnutar-xattrs", scen, l>>) /\ UNCHANGED bad)
                     ELSE IF SameTreeG(expect, Ev.nodes, TRUE) THEN UNCHANGED bad
                     ELSE IF SameTreeG(expect, Ev.nodes, FALSE) THEN PrintT(<<"KNOWN", "F18-F19-gnutar-mode-device", scen, l>>) /\ UNCHANGED bad
                     ELSE bad' = bad \cup {<<scen, l, "tree written as a tar stream differs from the source tree">>}
                ELSE IF ~Ev.ok THEN bad' = bad \cup {<<scen, l, "unpacking failed: " \o Ev.via>>}
                ELSE IF SameTree(expect, Ev.nodes, TRUE) THEN UNCHANGED bad
                ELSE IF SameTree(expect, Ev.nodes, FALSE)
                     THEN PrintT(<<"KNOWN", "F11-dir-symlink-mtime", scen, l>>) /\ UNCHANGED bad
                ELSE bad' = bad \cup {<<scen, l, "unpacked tree differs from the source tree: " \o Ev.via>>}
             /\ UNCHANGED <<c, expect, disk, scen>>
TNext == TArchive \/ TEl \/ TEnd \/ TTwice \/ TUnpacked
TSpec == TInit /\ [][TNext]_<<l, bad, c, expect, disk, scen>>
NoBad == bad = {}
Constr == TLCSet(1, IF TLCGet(1) < l THEN l ELSE TLCGet(1)) /\ (IF TLCGet(1) = l THEN TLCSet(2, <<scen, l>>) ELSE TRUE)
Accepted == \/ TLCGet(1) = Len(Trace) + 1
            \/ PrintT(<<"REJECTED", TLCGet(1), Len(Trace), TLCGet(2)>>) /\ FALSE
=============================================================================
