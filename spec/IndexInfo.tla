------------------------------ MODULE IndexInfo ------------------------------
(***************************************************************************)
(* The read-only commands about an index: `info`, `list-chunks`,           *)
(* `inspect-chunks` (cmd/desync/info.go, list.go, inspectchunks.go).       *)
(* Not one of the listed properties: this module extends the specification *)
(* to the part of desync that reports about indexes and stores.            *)
(*                                                                         *)
(* An index is a sequence of <<id, size>> (one size per id: equal ids are  *)
(* equal chunks).  Seeds, the cache and the stores are sets of ids.  The   *)
(* chunks-info file is a set of <<id, uncompressed, compressed>>.          *)
(*                                                                         *)
(* Info(...) is WHAT the command must print (each figure defined by a set  *)
(* expression, the way the command's help describes it); Loop(...) is the  *)
(* single pass over the index AS CODED, with its running flags.  TLC shows *)
(* them equal for every small input (ASSUME), and that the figures satisfy *)
(* the relations a reader relies on (Sane).  Trace_IndexInfo.tla judges    *)
(* the real binary's output by Info.                                       *)
(***************************************************************************)
EXTENDS Integers, Sequences, FiniteSets, FiniteSetsExt, TLC

SumOver(S, f(_)) == MapThenSumSet(f, S)

IdsOf(ix) == {ix[i][1] : i \in DOMAIN ix}
SizeOf(ix, id) == ix[CHOOSE i \in DOMAIN ix : ix[i][1] = id][2]
BlobSize(ix) == SumOver(DOMAIN ix, LAMBDA i : ix[i][2])

\* the compressed size the chunks-info file gives for id (0: not listed or not known)
CSize(cinfo, id) == IF \E r \in cinfo : r[1] = id THEN (CHOOSE r \in cinfo : r[1] = id)[3] ELSE 0

\* ---- required
Info(ix, seed, hasCache, cache, hasStore, store, hasInfo, cinfo) ==
  LET U == IdsOf(ix)
      inCache == IF hasCache THEN U \cap cache ELSE {}
      NS == U \ seed                       \* not in any seed
      NSNC == NS \ inCache                 \* neither in a seed nor in the cache
      known == hasInfo /\ \A id \in NSNC : CSize(cinfo, id) > 0
  IN [total |-> Len(ix),
      unique |-> Cardinality(U),
      instore |-> IF hasStore THEN Cardinality(U \cap store) ELSE 0,
      inseed |-> Cardinality(U \cap seed),
      incache |-> Cardinality(inCache),
      nsnc |-> Cardinality(NSNC),
      size |-> BlobSize(ix),
      szns |-> SumOver(NS, LAMBDA id : SizeOf(ix, id)),
      sznsnc |-> SumOver(NSNC, LAMBDA id : SizeOf(ix, id)),
      \* the estimate of what would have to be downloaded: only printed when it is known for every such chunk
      sznsncc |-> IF known THEN SumOver(NSNC, LAMBDA id : CSize(cinfo, id)) ELSE 0]

\* relations between the figures that hold whatever the input
Sane(r) ==
  /\ r.unique <= r.total /\ (r.total > 0 => r.unique > 0)
  /\ r.inseed <= r.unique /\ r.incache <= r.unique /\ r.instore <= r.unique
  /\ r.nsnc <= r.unique /\ r.nsnc >= r.unique - r.inseed - r.incache
  /\ r.sznsnc <= r.szns /\ r.szns <= r.size
  /\ (r.nsnc = 0 => r.sznsnc = 0 /\ r.sznsncc = 0)

CONSTANT Variant   \* "code": the loop as coded; "noreset": a loop that keeps the partial estimate (witness: must fail)
\* ---- the code: one pass, in index order, with the running "estimate" flag
RECURSIVE LoopFrom(_, _, _, _, _, _, _, _, _)
LoopFrom(ix, i, acc, seen, est, seed, hasCache, cache, cinfo) ==
  IF i > Len(ix) THEN [acc EXCEPT !.unique = Cardinality(seen)]
  ELSE LET id == ix[i][1]  sz == ix[i][2]
           a1 == [acc EXCEPT !.total = @ + 1] IN
       IF id \in seen THEN LoopFrom(ix, i + 1, a1, seen, est, seed, hasCache, cache, cinfo)
       ELSE LET inSeed == id \in seed
                inCache == hasCache /\ id \in cache
                a2 == [a1 EXCEPT !.inseed = @ + (IF inSeed THEN 1 ELSE 0), !.incache = @ + (IF inCache THEN 1 ELSE 0),
                                 !.szns = @ + (IF inSeed THEN 0 ELSE sz)]
                free == ~inSeed /\ ~inCache
                a3 == IF free THEN [a2 EXCEPT !.nsnc = @ + 1, !.sznsnc = @ + sz] ELSE a2
                cs == CSize(cinfo, id)
                est2 == IF free /\ est /\ cs = 0 THEN FALSE ELSE est
                a4 == IF free /\ est THEN [a3 EXCEPT !.sznsncc = IF cs = 0 THEN (IF Variant = "noreset" THEN @ ELSE 0) ELSE @ + cs] ELSE a3
            IN LoopFrom(ix, i + 1, a4, seen \cup {id}, est2, seed, hasCache, cache, cinfo)
Zero == [total |-> 0, unique |-> 0, instore |-> 0, inseed |-> 0, incache |-> 0, nsnc |-> 0, size |-> 0, szns |-> 0, sznsnc |-> 0, sznsncc |-> 0]
Loop(ix, seed, hasCache, cache, hasStore, store, hasInfo, cinfo) ==
  LET a == LoopFrom(ix, 1, Zero, {}, hasInfo, seed, hasCache, cache, cinfo) IN
  [a EXCEPT !.size = BlobSize(ix), !.instore = IF hasStore THEN Cardinality(IdsOf(ix) \cap store) ELSE 0]

\* ---- list-chunks and inspect-chunks
List(ix) == [i \in DOMAIN ix |-> ix[i][1]]
\* disk: id -> size of the chunk file in the (compressed, local) store, 0 when absent
Inspect(ix, hasStore, compressed, disk) ==
  [i \in DOMAIN ix |-> <<ix[i][1], ix[i][2], IF hasStore /\ compressed /\ ix[i][1] \in DOMAIN disk THEN disk[ix[i][1]] ELSE 0>>]

CONSTANTS IdVals, MaxLen
SizeFn == [IdVals -> {1, 2}]
Indexes(sf) == UNION {[1..n -> {<<id, sf[id]>> : id \in IdVals}] : n \in 0..MaxLen}
CInfos(sf) == {{<<id, sf[id], c[id]>> : id \in D} : D \in SUBSET IdVals, c \in [IdVals -> {0}] \cup [IdVals -> {3}] \cup {[id \in IdVals |-> IF id = 1 THEN 0 ELSE 5]}}
ASSUME \A sf \in {[id \in IdVals |-> 1 + (id % 2)]} : \A ix \in Indexes(sf), seed \in SUBSET IdVals, cache \in SUBSET IdVals, hc \in BOOLEAN, hi \in BOOLEAN, ci \in CInfos(sf) :
         LET want == Info(ix, seed, hc, cache, TRUE, cache, hi, ci) IN
         /\ Loop(ix, seed, hc, cache, TRUE, cache, hi, ci) = want
         /\ Sane(want)
VARIABLE x
Spec == x = 0 /\ [][UNCHANGED x]_x
=============================================================================
