--------------------------- MODULE Trace_IndexInfo ---------------------------
(* Judges the output of the real `desync info` (json and plain), `list-chunks` and `inspect-chunks` by IndexInfo.tla. *)
EXTENDS IndexInfo, Json
CONSTANT TraceFile
Trace == ndJsonDeserialize(TraceFile)
VARIABLES l, bad
SetOf(s) == {s[i] : i \in DOMAIN s}
Tup(s) == [i \in 1..Len(s) |-> s[i]]
Flag(cond, what) == IF cond THEN {} ELSE {<<l, what>>}
Fields == {"total", "unique", "instore", "inseed", "incache", "nsnc", "size", "szns", "sznsnc", "sznsncc"}
Same(out, want) == \A f \in Fields : out[f] = want[f]
Judge(e) ==
  CASE e.ev = "info" ->
         LET ix == [i \in 1..Len(e.ix) |-> <<e.ix[i][1], e.ix[i][2]>>]
             ci == {<<r[1], r[2], r[3]>> : r \in SetOf(e.cinfo)}
             want == Info(ix, SetOf(e.seed), e.hasCache, SetOf(e.cache), e.hasStore, SetOf(e.store), e.hasInfo, ci) IN
         Flag(e.exit = 0, "info failed on a valid index and readable stores")
         \cup (IF e.exit = 0 THEN Flag(Same(e.json, want), "info --format json: a figure differs from its definition")
                                  \cup Flag(e.json.min = e.min /\ e.json.avg = e.avg /\ e.json.max = e.max, "info: chunk size parameters differ from the index header")
                                  \cup Flag(Sane(e.json), "info: the figures contradict each other")
               ELSE {})
         \cup Flag(e.plainexit = 0, "info --format plain failed")
         \cup (IF e.plainexit = 0 THEN Flag(Same(e.plain, want), "info --format plain: a figure differs from its definition") ELSE {})
    [] e.ev = "list" ->
         LET ix == [i \in 1..Len(e.ix) |-> <<e.ix[i][1], e.ix[i][2]>>] IN
         Flag(e.exit = 0, "list-chunks failed on a valid index")
         \cup (IF e.exit = 0 THEN Flag(Tup(e.out) = List(ix), "list-chunks: not the index's chunk IDs in order") ELSE {})
    [] e.ev = "inspect" ->
         LET ix == [i \in 1..Len(e.ix) |-> <<e.ix[i][1], e.ix[i][2]>>]
             disk == [id \in {r[1] : r \in SetOf(e.disk)} |-> (CHOOSE r \in SetOf(e.disk) : r[1] = id)[2]]
             got == [i \in 1..Len(e.out) |-> <<e.out[i][1], e.out[i][2], e.out[i][3]>>] IN
         Flag(e.exit = 0, "inspect-chunks failed on a valid index")
         \cup (IF e.exit = 0 THEN Flag(got = Inspect(ix, e.hasStore, e.compressed, disk), "inspect-chunks: not <id, size in the index, size of the chunk file> per index entry") ELSE {})
    [] OTHER -> {}
TInit == l = 1 /\ bad = {} /\ x = 0
TNext == l <= Len(Trace) /\ bad' = bad \cup Judge(Trace[l]) /\ l' = l + 1 /\ UNCHANGED x
TSpec == TInit /\ [][TNext]_<<l, bad, x>>
NoBad == bad = {}
Constr == TLCSet(1, l)
Accepted == TLCGet(1) = Len(Trace) + 1 \/ Len(Trace) = 0
=============================================================================
