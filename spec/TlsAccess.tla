------------------------------ MODULE TlsAccess ------------------------------
(***************************************************************************)
(* Who may talk to an HTTP chunk/index server started with --cert/--key,   *)
(* --mutual-tls and --client-ca, and which servers a client configured     *)
(* with --ca-cert / --trust-insecure / --client-cert+--client-key accepts  *)
(* (cmd/desync/indexserver.go serve, remotehttp.go NewRemoteHTTPStoreBase).*)
(* Not one of the listed properties (C15 is about the authorization header *)
(* and paths): this module extends the specification of the servers'       *)
(* access control to the transport.                                        *)
(*                                                                         *)
(* Certificates are abstracted to who signed them.  The system's root      *)
(* store signs none of them.                                               *)
(***************************************************************************)
EXTENDS Integers, FiniteSets, TLC

CONSTANT Variant      \* "code": options wired as coded; "norequire": --mutual-tls does not set ClientAuth; "skipverify": client never verifies (witnesses, must fail)

Servers == [tls : BOOLEAN, signer : {"S", "O"}, mutual : BOOLEAN, clientCA : {"none", "A"}]
Clients == [https : BOOLEAN, cacert : {"none", "S", "O"}, trust : BOOLEAN, cert : {"none", "a", "b"}]
Signer(c) == CASE c = "a" -> "A" [] c = "b" -> "B" [] OTHER -> "none"

\* ---- what the options mean (README: "--mutual-tls require valid client certificate", "--client-ca acceptable client certificate or CA",
\*      "--ca-cert trust authorities in this file, instead of OS trust store", "--trust-insecure trust any certificate presented by the server")
ServerTrusted(s, c) == c.trust \/ c.cacert = s.signer
ClientTrusted(s, c) == ~s.mutual \/ (c.cert # "none" /\ s.clientCA # "none" /\ Signer(c.cert) = s.clientCA)
Accept(s, c) == /\ s.tls = c.https
                /\ s.tls => ServerTrusted(s, c) /\ ClientTrusted(s, c)

\* ---- the wiring as coded: tls.Config on both sides, then the handshake
ServerCfg(s) == [clientAuth |-> IF s.mutual /\ Variant # "norequire" THEN "RequireAndVerify" ELSE "None",
                 clientCAs |-> IF s.clientCA = "none" THEN {} ELSE {s.clientCA}]      \* empty pool: the system roots, which sign nothing here
ClientCfg(c) == [insecure |-> c.trust \/ Variant = "skipverify",
                 roots |-> IF c.cacert = "none" THEN {} ELSE {c.cacert},
                 certs |-> IF c.cert = "none" THEN {} ELSE {c.cert}]
Handshake(s, sc, cc) ==
  /\ cc.insecure \/ s.signer \in cc.roots
  /\ sc.clientAuth = "RequireAndVerify" => \E x \in cc.certs : Signer(x) \in sc.clientCAs
Coded(s, c) == /\ s.tls = c.https                                   \* a plain server never sees the TLS options: --mutual-tls without --cert/--key is silently ignored
               /\ s.tls => Handshake(s, ServerCfg(s), ClientCfg(c))

ASSUME \A s \in Servers, c \in Clients : Coded(s, c) = Accept(s, c)
\* what a user relies on
ASSUME \A s \in Servers, c \in Clients : (s.tls /\ s.mutual /\ Coded(s, c)) => (c.cert # "none" /\ Signer(c.cert) = s.clientCA)
ASSUME \A s \in Servers, c \in Clients : (c.https /\ ~c.trust /\ Coded(s, c)) => c.cacert = s.signer
\* named deviation (recorded, not judged): a server started with --mutual-tls but without --cert/--key serves everyone in the clear
PlainIgnoresMutual == \E s \in Servers, c \in Clients : ~s.tls /\ s.mutual /\ c.cert = "none" /\ Coded(s, c)
ASSUME Variant = "code" => PlainIgnoresMutual

VARIABLE x
Spec == x = 0 /\ [][UNCHANGED x]_x
=============================================================================
