----------------------------- MODULE SparseFile -----------------------------
(***************************************************************************)
(* Copy-on-read sparse files (sparse-file.go, mount-sparse.go) -- C10.     *)
(*                                                                         *)
(* Part 1: the property as an oracle over observable results (ReadAtOK),   *)
(* with the little history it needs: which chunks have surely / possibly   *)
(* been loaded into the cache file.  Part 2: an implementation-shaped      *)
(* model (need set, per-chunk load, cache write, done bit, save-state,     *)
(* restart with or without a matching state) explored by TLC against the   *)
(* oracle, with any pattern of transient store failures.  A cell is one    *)
(* byte; the cache file starts as zeros.                                   *)
(***************************************************************************)
EXTENDS Integers, Sequences, FiniteSets, TLC

RECURSIVE Flatten(_)
Flatten(ix) == IF ix = <<>> THEN <<>> ELSE Head(ix) \o Flatten(Tail(ix))
RECURSIVE StartOf(_, _)
StartOf(ix, k) == IF k = 1 THEN 0 ELSE StartOf(ix, k - 1) + Len(ix[k - 1])
EndOf(ix, k) == StartOf(ix, k) + Len(ix[k])
Slice(s, a, n) == SubSeq(s, a + 1, a + n)
MinOf2(a, b) == IF a < b THEN a ELSE b
\* chunks overlapping the byte range [off, off+m)
InRangeChunks(ix, off, m) == {k \in 1..Len(ix) : m > 0 /\ StartOf(ix, k) < off + m /\ off < EndOf(ix, k)}

\* ------------------------------------------------------------------ part 1: the property
\* ReadAt(m bytes at off) returned n bytes `data` and err in {"nil","eof","error"}.
\* failing: chunk contents the store cannot deliver now; nullc: the null chunk (never fetched);
\* surely / maybe: chunk positions that have certainly / possibly been loaded into the cache file before.
Needed(ix, off, m, nullc) == {k \in InRangeChunks(ix, off, m) : ix[k] # nullc}
ReadAtOK(ix, off, m, n, data, err, failing, nullc, surely, maybe) ==
  LET blob == Flatten(ix)
      L == Len(blob)
      want == IF off >= L THEN 0 ELSE MinOf2(m, L - off)
      need == Needed(ix, off, want, nullc)
      mustFail == \E k \in need : ix[k] \in failing /\ k \notin surely /\ k \notin maybe
      \* The property allows an error whenever the store is failing (e.g. a read past the end that touches
      \* the last chunk); with a healthy store a read must succeed.
      mayFail == failing # {}
  IN IF err = "error" THEN mayFail
     ELSE /\ ~mustFail
          /\ n = want /\ data = Slice(blob, off, n)            \* the blob's bytes, never stale zeros
          /\ err \in {"nil", "eof"} /\ (err = "eof" => off + m >= L)
\* the history after a read
SurelyAfter(ix, off, m, err, nullc, surely) ==
  IF err = "error" THEN surely ELSE surely \cup Needed(ix, off, MinOf2(m, Len(Flatten(ix)) - off), nullc)
\* any read may also populate the chunk at its offset (a zero-length read does) and, past the end, the last chunk
Touched(ix, off, m) == InRangeChunks(ix, off, IF m > 0 THEN m ELSE 1)
                       \cup (IF Len(ix) > 0 /\ off >= Len(Flatten(ix)) THEN {Len(ix)} ELSE {})
MaybeAfter(ix, off, m, err, failing, nullc, maybe) ==
  maybe \cup {k \in Touched(ix, off, m) : ix[k] \notin failing}

\* ------------------------------------------------------------------ part 2: the implementation-shaped model
CONSTANTS Contents, NullC, MaxChunks, MaxOps, Offsets, Lengths
VARIABLES ix, cache, done, failing, saved, nops, last, surely, maybe
vars == <<ix, cache, done, failing, saved, nops, last, surely, maybe>>
L == Len(Flatten(ix))
Zeros(n) == [i \in 1..n |-> 0]
Init == /\ ix \in UNION {[1..k -> Contents] : k \in 1..MaxChunks}
        /\ cache = Zeros(Len(Flatten(ix))) /\ done = {} /\ failing \in SUBSET (Contents \ {NullC})
        /\ saved = [has |-> FALSE, d |-> {}] /\ nops = 0 /\ last = [op |-> "none"] /\ surely = {} /\ maybe = {}
\* loadRange + file read: the chunks not done and not null are loaded in index order until one fails
RECURSIVE LoadAll(_, _, _)
LoadAll(ks, c, d) ==   \* ks: ascending sequence of chunk positions still to load; returns [cache, done, err]
  IF ks = <<>> THEN [cache |-> c, done |-> d, err |-> FALSE]
  ELSE LET k == Head(ks) IN
       IF ix[k] \in failing THEN [cache |-> c, done |-> d, err |-> TRUE]
       ELSE LoadAll(Tail(ks), [i \in 1..Len(c) |-> IF StartOf(ix, k) < i /\ i <= EndOf(ix, k) THEN ix[k][i - StartOf(ix, k)] ELSE c[i]],
                    d \cup {k})
SortedSeq(S) == LET RECURSIVE F(_) F(T) == IF T = {} THEN <<>> ELSE LET x == CHOOSE x \in T : \A y \in T : x <= y IN <<x>> \o F(T \ {x}) IN F(S)
ReadAt == /\ nops < MaxOps
          /\ \E off \in Offsets, m \in Lengths :
               LET want == IF off >= L THEN 0 ELSE MinOf2(m, L - off)
                   need == {k \in InRangeChunks(ix, off, m) : k \notin done /\ ix[k] # NullC}
                   r == LoadAll(SortedSeq(need), cache, done)
               IN /\ cache' = r.cache /\ done' = r.done
                  /\ last' = IF r.err THEN [op |-> "read", off |-> off, m |-> m, n |-> 0, data |-> <<>>, err |-> "error", f |-> failing, s |-> surely, mb |-> maybe]
                             ELSE [op |-> "read", off |-> off, m |-> m, n |-> want, data |-> Slice(r.cache, off, want),
                                   err |-> IF want < m THEN "eof" ELSE "nil", f |-> failing, s |-> surely, mb |-> maybe]
                  /\ surely' = SurelyAfter(ix, off, m, IF r.err THEN "error" ELSE "nil", NullC, surely)
                  /\ maybe' = MaybeAfter(ix, off, m, IF r.err THEN "error" ELSE "nil", failing, NullC, maybe)
          /\ nops' = nops + 1 /\ UNCHANGED <<ix, failing, saved>>
SaveState == /\ saved' = [has |-> TRUE, d |-> done] /\ UNCHANGED <<ix, cache, done, failing, nops, last, surely, maybe>>
\* a new process on the same cache file: the done bits come back only from a saved state
Restart == /\ done' = IF saved.has THEN saved.d ELSE {}
           /\ maybe' = maybe \cup surely /\ surely' = IF saved.has THEN saved.d ELSE {}
           /\ UNCHANGED <<ix, cache, failing, saved, nops, last>>
\* the cache file is lost: a fresh file of zeros, and the saved state must not be applied to it
LoseCache == /\ cache' = Zeros(Len(cache)) /\ done' = {} /\ saved' = [has |-> FALSE, d |-> {}] /\ surely' = {} /\ maybe' = {}
             /\ UNCHANGED <<ix, failing, nops, last>>
Heal == /\ failing # {} /\ failing' = {} /\ UNCHANGED <<ix, cache, done, saved, nops, last, surely, maybe>>
Break == /\ failing = {} /\ \E f \in SUBSET (Contents \ {NullC}) : f # {} /\ failing' = f
         /\ UNCHANGED <<ix, cache, done, saved, nops, last, surely, maybe>>
Next == ReadAt \/ SaveState \/ Restart \/ LoseCache \/ Heal \/ Break
Spec == Init /\ [][Next]_vars
ResultOK == last.op = "read" => ReadAtOK(ix, last.off, last.m, last.n, last.data, last.err, last.f, NullC, last.s, last.mb)
\* a done bit implies the chunk's bytes are in the cache file
DoneImpliesPresent == \A k \in done : Slice(cache, StartOf(ix, k), Len(ix[k])) = ix[k]
MCContents == {<<1>>, <<1, 2>>, <<0, 0, 0>>, <<2, 2, 1>>}
MCNull == <<0, 0, 0>>
=============================================================================
