-------------------------- MODULE Trace_StoreChain --------------------------
(* Trace validation for C11 / C03 (sequential part): random chains of the real StoreRouter, Cache, RepairableCache,
   FailoverGroup, DedupQueue and SwapStore over fault-injecting members (in-memory members and real LocalStores
   with really corrupted files); every GetChunk / HasChunk / StoreChunk result, the set of members that were
   called and the members' contents afterwards are compared with the reference model StoreChain.tla. *)
EXTENDS Integers, Sequences, FiniteSets, TLC, Json
CONSTANTS TraceFile
Trace == ndJsonDeserialize(TraceFile)
VARIABLES c, st, l, bad, scen
SC == INSTANCE StoreChain
STO == INSTANCE Stores
tvars == <<c, st, l, bad, scen>>
Ev == Trace[l]
IsEvent(e) == l <= Len(Trace) /\ Ev.ev = e /\ l' = l + 1
Flag(cond, what) == IF cond THEN {} ELSE {<<scen, l, what>>}
SeqToSet(s) == {s[k] : k \in 1..Len(s)}
\* JSON objects keyed by id strings -> functions on ids
IdKey(i) == ToString(i)
MemberState(o) == [c |-> [i \in 1..3 |-> o.c[IdKey(i)]], healthy |-> o.healthy]
StateOf(ms, acts) == [m |-> [name \in DOMAIN ms |-> MemberState(ms[name])], act |-> [g \in 1..4 |-> 1]]
TInit == /\ TLCSet(1, 0) /\ TLCSet(2, <<>>) /\ c = [t |-> "none"] /\ st = [m |-> <<>>, act |-> <<>>] /\ l = 1 /\ bad = {} /\ scen = 0
TReset == /\ IsEvent("reset") /\ c' = Ev.chain /\ st' = StateOf(Ev.members, 0) /\ scen' = Ev.scen /\ UNCHANGED bad
\* the environment changes a member (chunk appears / disappears / gets corrupted, member starts or stops failing)
TSet == /\ IsEvent("set")
        /\ st' = IF Ev.what = "health" THEN [st EXCEPT !.m[Ev.m].healthy = Ev.healthy]
                 ELSE [st EXCEPT !.m[Ev.m].c[Ev.id] = Ev.content]
        /\ UNCHANGED <<c, bad, scen>>
Called(calls) == {calls[k][1] : k \in 1..Len(calls)}
ContentsMatch(s) == \A name \in DOMAIN Ev.after : \A i \in 1..3 : s.m[name].c[i] = Ev.after[name][IdKey(i)]
TOp == /\ IsEvent("op")
       /\ LET r == CASE Ev.kind = "get" -> SC!Get(c, st, Ev.id)
                     [] Ev.kind = "has" -> SC!Has(c, st, Ev.id)
                     [] OTHER -> SC!Put(c, st, Ev.id)
          IN /\ st' = r.st
             /\ bad' = bad \cup Flag(Ev.res = r.res, "result differs from the documented policy")
                           \cup Flag(SeqToSet(Ev.called) = Called(r.calls), "set of members called differs from the documented policy")
                           \cup Flag(ContentsMatch(r.st), "member contents after the operation differ from the documented policy")
                           \cup Flag((SC!Verifying(c) /\ Ev.kind = "get") => Ev.res # "okbad", "a chunk that does not hash to its ID was delivered")
       /\ UNCHANGED <<c, scen>>
\* concurrent part: requests during a Swap, and concurrent requests on a failover group, judged individually
TConc == /\ IsEvent("conc")
         /\ bad' = bad \cup Flag(Ev.ok, Ev.what)
         /\ UNCHANGED <<c, st, scen>>
\* C03: a damaged object behind a real backend / wrapper stack, and consumers over a poisoned store
TLeaf == /\ IsEvent("leaf")
         /\ bad' = bad \cup Flag(STO!Allowed(Ev.class, Ev.verified, Ev.res), "damaged stored bytes were delivered as good data (or an intact chunk was not delivered)")
         /\ scen' = Ev.scen /\ UNCHANGED <<c, st>>
TConsumer == /\ IsEvent("consumer")
             /\ bad' = bad \cup Flag(STO!ConsumerAllowed(Ev.class, Ev.res, Ev.equal), "a consumer succeeded with output that differs from the indexed blob")
             /\ scen' = Ev.scen /\ UNCHANGED <<c, st>>
TNext == TReset \/ TSet \/ TOp \/ TConc \/ TLeaf \/ TConsumer
TSpec == TInit /\ [][TNext]_tvars
NoBad == bad = {}
Constr == TLCSet(1, IF TLCGet(1) < l THEN l ELSE TLCGet(1)) /\ (IF TLCGet(1) = l THEN TLCSet(2, <<scen, l>>) ELSE TRUE)
Accepted == \/ TLCGet(1) = Len(Trace) + 1
            \/ PrintT(<<"REJECTED", TLCGet(1), Len(Trace), TLCGet(2)>>) /\ FALSE
=============================================================================
