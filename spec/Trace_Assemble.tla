--------------------------- MODULE Trace_Assemble ---------------------------
(***************************************************************************)
(* Trace validation for C01 (and the extract part of C07): events of the   *)
(* real AssembleFile (hooks asm.x, ss.x, fs.regen, gated store st.x) are   *)
(* consumed one per step.  After every worker event the harness read the   *)
(* whole target file back and projected it to one content id per index     *)
(* position (field t; 0 = the null chunk), so the frame condition, the     *)
(* self-seed invariant and the final verdict are evaluated on what the     *)
(* real file held at that step.  Shared definitions (the self-seed's write *)
(* pointer, plan well-formedness) come from AssembleOps, which the design- *)
(* level model Assemble.tla uses as well.                                  *)
(***************************************************************************)
EXTENDS AssembleOps, TLC, Json

CONSTANTS TraceFile
Trace == ndJsonDeserialize(TraceFile)

VARIABLES h,          \* the reset record of the scenario (instance description)
          claims,     \* Seq: current index (content ids) of every file seed -- changes when a seed is regenerated
          cstarts,    \* Seq: byte offsets of the chunks of every seed's current index
          plan, attempt, phase,
          target, tlen, haveT,
          offered, inflight, done, exited, workerErr,
          written, cache,
          cancelled, mutated, storefail, regenerated,
          result,
          l, bad, scen

tvars == <<h, claims, cstarts, plan, attempt, phase, target, tlen, haveT, offered, inflight, done, exited,
           workerErr, written, cache, cancelled, mutated, storefail, regenerated, result, l, bad, scen>>

Ev == Trace[l]
IsEvent(e) == l <= Len(Trace) /\ Ev.ev = e /\ l' = l + 1
WI(g) == CHOOSE i \in 1..16 : g = "w" \o ToString(i)
Flag(cond, what) == IF cond THEN {} ELSE {<<scen, l, what>>}
SeqToSet(s) == {s[k] : k \in 1..Len(s)}
K == Len(h.idx)
NoJob == <<0, 0>>
InRange(p, r) == r[1] <= p /\ p <= r[2]
H0 == [idx |-> <<>>, act |-> "bail", blank |-> TRUE, aliases |-> <<>>, actuals |-> <<>>, kinds |-> <<>>,
       missing |-> 0, length |-> 0, n |-> 1, clone |-> FALSE]

TInit == /\ TLCSet(1, 0) /\ TLCSet(2, <<>>)
         /\ h = H0 /\ claims = <<>> /\ cstarts = <<>> /\ plan = <<>> /\ attempt = 0 /\ phase = "idle"
         /\ target = <<>> /\ tlen = 0 /\ haveT = FALSE
         /\ offered = {} /\ inflight = [w \in 1..16 |-> NoJob] /\ done = {} /\ exited = {} /\ workerErr = FALSE
         /\ written = 0 /\ cache = {} /\ cancelled = FALSE /\ mutated = FALSE /\ storefail = 0 /\ regenerated = {}
         /\ result = "none" /\ l = 1 /\ bad = {} /\ scen = 0

TReset == /\ IsEvent("reset")
          /\ h' = Ev /\ claims' = Ev.claims /\ cstarts' = Ev.cstarts /\ plan' = <<>> /\ attempt' = 0 /\ phase' = "plan"
          /\ target' = <<>> /\ tlen' = 0 /\ haveT' = FALSE
          /\ offered' = {} /\ inflight' = [w \in 1..16 |-> NoJob] /\ done' = {} /\ exited' = {} /\ workerErr' = FALSE
          /\ written' = 0 /\ cache' = {} /\ cancelled' = FALSE /\ mutated' = FALSE /\ storefail' = 0 /\ regenerated' = {}
          /\ result' = "none" /\ scen' = Ev.scen /\ UNCHANGED bad

\* ---------------------------------------------------------------- the plan
Seg(k) == [first |-> Ev.segs[k][1] + 1, last |-> Ev.segs[k][2] + 1, kind |-> Ev.segs[k][3],
           seed |-> Ev.seeds[k], start |-> Ev.segs[k][4]]
\* position (1-based) of the seed chunk that starts at byte offset st in seed s's current index; 0 if none
QPos(s, st) == IF \E q \in 1..Len(cstarts[s]) : cstarts[s][q] = st
               THEN CHOOSE q \in 1..Len(cstarts[s]) : cstarts[s][q] = st ELSE 0
SegSourceOK(sg) ==
  CASE sg.kind = 0 -> sg.first = sg.last
    [] sg.kind = 1 -> \A p \in sg.first..sg.last : h.idx[p] = 0
    [] sg.kind = 2 -> /\ sg.seed \in 1..Len(claims)
                      \* seeds are identified by their file; several seeds may point at the target itself
                      /\ \E s \in {x \in 1..Len(claims) : x = sg.seed \/ (h.aliases[x] /\ h.aliases[sg.seed])} :
                           LET q == QPos(s, sg.start) IN
                           /\ q > 0 /\ q + (sg.last - sg.first) <= Len(claims[s])
                           /\ \A i \in 0..(sg.last - sg.first) : claims[s][q + i] = h.idx[sg.first + i]
    [] OTHER -> FALSE
TPlan == /\ IsEvent("asm.plan")
         /\ LET p == [k \in 1..Len(Ev.segs) |-> Seg(k)] IN
            /\ plan' = p /\ attempt' = Ev.attempt /\ phase' = "validate"
            /\ bad' = bad \cup Flag(Tiles(p, K), "plan does not tile the index exactly once in order")
                          \cup Flag(\A k \in 1..Len(p) : SegSourceOK(p[k]), "a plan segment's source does not have the segment's chunk IDs")
         /\ UNCHANGED <<h, claims, cstarts, target, tlen, haveT, offered, inflight, done, exited, workerErr, written,
                        cache, cancelled, mutated, storefail, regenerated, result, scen>>
TInvalid == /\ IsEvent("asm.invalid") /\ phase' = "plan"
            /\ bad' = bad \cup Flag(phase = "validate", "validation result without a plan")
            /\ UNCHANGED <<h, claims, cstarts, plan, attempt, target, tlen, haveT, offered, inflight, done, exited, workerErr,
                           written, cache, cancelled, mutated, storefail, regenerated, result, scen>>
TRegen == /\ IsEvent("fs.regen") /\ Ev.seed \in 1..Len(claims)
          /\ claims' = [claims EXCEPT ![Ev.seed] = Ev.ids] /\ cstarts' = [cstarts EXCEPT ![Ev.seed] = Ev.starts]
          /\ regenerated' = regenerated \cup {Ev.seed}
          /\ bad' = bad \cup Flag(h.act = "regen", "seed regenerated although the action is not regenerate")
          /\ UNCHANGED <<h, plan, attempt, phase, target, tlen, haveT, offered, inflight, done, exited, workerErr, written,
                         cache, cancelled, mutated, storefail, result, scen>>
TValid == /\ IsEvent("asm.valid") /\ phase' = "run"
          /\ bad' = bad \cup Flag(phase = "validate" /\ Ev.attempt = attempt, "assembling without a validated plan")
          /\ UNCHANGED <<h, claims, cstarts, plan, attempt, target, tlen, haveT, offered, inflight, done, exited, workerErr,
                         written, cache, cancelled, mutated, storefail, regenerated, result, scen>>

\* ---------------------------------------------------------------- feeder
SegAt(f) == IF \E k \in 1..Len(plan) : plan[k].first = f THEN CHOOSE k \in 1..Len(plan) : plan[k].first = f ELSE 0
TFeed == /\ IsEvent("asm.feed")
         /\ LET k == SegAt(Ev.first + 1) IN
            /\ offered' = IF k > 0 THEN offered \cup {k} ELSE offered
            /\ bad' = bad \cup Flag(phase = "run" /\ k > 0, "feeder offers a segment that is not in the validated plan")
                          \cup Flag(k > 0 => (\A j \in 1..(k-1) : j \in done \/ j \in offered \/ \E w \in 1..16 : inflight[w][1] = plan[j].first),
                                    "feeder skips a plan segment")
         /\ UNCHANGED <<h, claims, cstarts, plan, attempt, phase, target, tlen, haveT, inflight, done, exited, workerErr, written,
                        cache, cancelled, mutated, storefail, regenerated, result, scen>>
TLeave == /\ IsEvent("asm.leave")
          /\ offered' = IF offered = {} THEN {} ELSE offered \ {MaxOf(offered)}
          /\ bad' = bad \cup Flag(cancelled \/ workerErr, "feeder took the ctx.Done branch although the context is not done")
          /\ UNCHANGED <<h, claims, cstarts, plan, attempt, phase, target, tlen, haveT, inflight, done, exited, workerErr, written,
                         cache, cancelled, mutated, storefail, regenerated, result, scen>>
TClose == /\ IsEvent("asm.close") /\ UNCHANGED <<h, claims, cstarts, plan, attempt, phase, target, tlen, haveT, offered, inflight,
                        done, exited, workerErr, written, cache, cancelled, mutated, storefail, regenerated, result, bad, scen>>

\* ---------------------------------------------------------------- workers
\* frame condition: a worker step changes the file only inside the range of the job the worker holds
Snap == "t" \in DOMAIN Ev
Frame(r) == (haveT /\ Snap) => /\ Ev.len = tlen
                                /\ \A p \in 1..K : ~InRange(p, r) => Ev.t[p] = target[p]
TakeSnap == /\ target' = IF Snap THEN Ev.t ELSE target
            /\ tlen' = IF Snap THEN Ev.len ELSE tlen
            /\ haveT' = (haveT \/ Snap)
WUnch == UNCHANGED <<h, claims, cstarts, plan, attempt, phase, written, cache, cancelled, mutated, regenerated, result, scen>>

TJob == /\ IsEvent("asm.job")
        /\ LET w == WI(Ev.g)  k == SegAt(Ev.first + 1) IN
           /\ inflight' = [inflight EXCEPT ![w] = <<Ev.first + 1, Ev.last + 1>>]
           /\ offered' = offered \ {k}
           /\ bad' = bad \cup Flag(k > 0 /\ k \in offered /\ plan[k].last = Ev.last + 1, "worker received a job that was not offered")
                         \cup Flag(Frame(NoJob), "the target changed while no job was running")
                         \cup Flag(k > 0 => (Ev.seed = (plan[k].kind # 0)), "job source differs from the plan")
        /\ TakeSnap /\ WUnch /\ UNCHANGED <<done, exited, workerErr, storefail>>
\* what a file seed's data looked like when the scenario started
SeedCells(sg) == LET q == QPos(sg.seed, sg.start) IN [i \in 0..(sg.last - sg.first) |-> h.actuals[sg.seed][q + i]]
TCopied == /\ IsEvent("asm.copied")
           /\ LET w == WI(Ev.g)  r == inflight[w]  k == SegAt(r[1]) IN
              /\ bad' = bad \cup Flag(Frame(r), "seed copy changed the target outside the job's range (or its length)")
                   \cup Flag((Snap /\ ~Ev.err /\ k > 0 /\ plan[k].kind = 1) => \A p \in r[1]..r[2] : Ev.t[p] = 0,
                             "null-chunk section does not hold zeros after the copy")
                   \cup Flag((Snap /\ ~Ev.err /\ k > 0 /\ plan[k].kind = 2 /\ ~mutated /\ plan[k].seed \notin regenerated
                              /\ ~h.aliases[plan[k].seed] /\ QPos(plan[k].seed, plan[k].start) > 0
                              \* 99999: the range is not completely in the seed file (truncated seed used without validation, e.g. after a
                              \* cancellation): what a copy of it leaves is not defined here; the re-hash step decides
                              /\ \A i \in 0..(plan[k].last - plan[k].first) : SeedCells(plan[k])[i] # 99999)
                             => \A p \in r[1]..r[2] : Ev.t[p] = SeedCells(plan[k])[p - r[1]],
                             "target does not hold the seed's bytes after the copy")
           /\ TakeSnap /\ WUnch /\ UNCHANGED <<offered, inflight, done, exited, workerErr, storefail>>
TRehash == /\ IsEvent("asm.rehash")
           /\ LET w == WI(Ev.g) IN
              bad' = bad \cup Flag(Frame(inflight[w]), "target changed outside the job's range")
                         \cup Flag((Snap /\ Ev.pos > 0) => (Ev.ok = (Ev.t[Ev.pos] = h.idx[Ev.pos])), "re-hash verdict differs from the file's content")
           /\ TakeSnap /\ WUnch /\ UNCHANGED <<offered, inflight, done, exited, workerErr, storefail>>
TChunk == /\ IsEvent("asm.chunk")
          /\ LET w == WI(Ev.g)  r == inflight[w] IN
             bad' = bad \cup Flag(Frame(<<Ev.pos, Ev.pos>>) /\ InRange(Ev.pos, r), "chunk write changed the target outside the chunk (or outside the job)")
                        \cup Flag((Snap /\ Ev.src = "inplace") => (~h.blank /\ Ev.t[Ev.pos] = h.idx[Ev.pos] /\ (haveT => Ev.t = target)),
                                  "chunk kept in place although the file does not hold it")
                        \cup Flag((Snap /\ Ev.src = "store" /\ ~Ev.err) => Ev.t[Ev.pos] = h.idx[Ev.pos], "chunk from the store is not in the file")
                        \cup Flag((Snap /\ Ev.src = "self" /\ ~Ev.err) => Ev.t[Ev.pos] = h.idx[Ev.pos], "chunk from the self-seed is not in the file")
          /\ TakeSnap /\ WUnch /\ UNCHANGED <<offered, inflight, done, exited, workerErr, storefail>>
TStore == /\ (IsEvent("st.get.enter") \/ IsEvent("st.get.exit"))
          /\ storefail' = IF Ev.ev = "st.get.exit" /\ Ev.res # "ok" THEN storefail + 1 ELSE storefail
          /\ bad' = bad \cup Flag(Frame(NoJob), "target changed during a store request")
          /\ TakeSnap /\ WUnch /\ UNCHANGED <<offered, inflight, done, exited, workerErr>>
TIdle == /\ IsEvent("asm.idle")
         /\ LET w == WI(Ev.g)  r == inflight[w]  k == SegAt(r[1]) IN
            /\ done' = IF r # NoJob /\ k > 0 THEN done \cup {k} ELSE done
            /\ inflight' = [inflight EXCEPT ![w] = NoJob]
            /\ bad' = bad \cup Flag(Frame(r), "target changed outside the job's range")
                          \cup Flag((Snap /\ r # NoJob) => \A p \in r[1]..r[2] : Ev.t[p] = h.idx[p], "job finished but its range does not hold the indexed data")
         /\ TakeSnap /\ WUnch /\ UNCHANGED <<offered, exited, workerErr, storefail>>
TExit == /\ IsEvent("asm.exit")
         /\ LET w == WI(Ev.g) IN
            /\ exited' = exited \cup {w} /\ workerErr' = (workerErr \/ inflight[w] # NoJob)
            /\ inflight' = [inflight EXCEPT ![w] = NoJob]
            \* a job a worker gave up on was handed out all the same: the feeder, which may offer the next segment before it notices the
            \* cancelled context, has not skipped it
            /\ done' = IF inflight[w] # NoJob /\ SegAt(inflight[w][1]) > 0 THEN done \cup {SegAt(inflight[w][1])} ELSE done
            /\ bad' = bad \cup Flag(Frame(inflight[w]), "target changed outside the job's range")
         /\ TakeSnap /\ WUnch /\ UNCHANGED <<offered, storefail>>

\* ---------------------------------------------------------------- self-seed (log points under its lock)
TSSAdd == /\ IsEvent("ss.add")
          /\ LET r == Adv(written, cache \cup {<<Ev.first + 1, Ev.last + 1>>}) IN
             /\ written' = r[1] /\ cache' = r[2]
             /\ bad' = bad \cup Flag(Ev.written = r[1], "self-seed write pointer differs from the contiguous written prefix")
          /\ UNCHANGED <<h, claims, cstarts, plan, attempt, phase, target, tlen, haveT, offered, inflight, done, exited, workerErr,
                         cancelled, mutated, storefail, regenerated, result, scen>>
TSSGet == /\ IsEvent("ss.get")
          /\ bad' = bad \cup Flag(Ev.first + 1 <= written /\ h.idx[Ev.first + 1] = Ev.id, "self-seed offers a position that is not written yet or holds another chunk")
          /\ UNCHANGED <<h, claims, cstarts, plan, attempt, phase, target, tlen, haveT, offered, inflight, done, exited, workerErr,
                         written, cache, cancelled, mutated, storefail, regenerated, result, scen>>

TCancel == /\ IsEvent("cancel") /\ cancelled' = TRUE
           /\ UNCHANGED <<h, claims, cstarts, plan, attempt, phase, target, tlen, haveT, offered, inflight, done, exited, workerErr,
                          written, cache, mutated, storefail, regenerated, result, bad, scen>>
TMutate == /\ IsEvent("mutate") /\ mutated' = TRUE
           /\ UNCHANGED <<h, claims, cstarts, plan, attempt, phase, target, tlen, haveT, offered, inflight, done, exited, workerErr,
                          written, cache, cancelled, storefail, regenerated, result, bad, scen>>
TResult == /\ IsEvent("result") /\ result' = Ev.res
           /\ target' = Ev.t /\ tlen' = Ev.len /\ haveT' = TRUE
           /\ bad' = bad \cup Flag((Ev.res = "ok") => Ev.equal, "success reported but the output differs from the blob")
                         \cup Flag(\A w \in 1..16 : inflight[w] = NoJob, "returned while a job was in flight")
           /\ UNCHANGED <<h, claims, cstarts, plan, attempt, phase, offered, inflight, done, exited, workerErr, written, cache,
                          cancelled, mutated, storefail, regenerated, scen>>

\* the statistics record is judged by ExtractStats.tla
TStats == IsEvent("stats") /\ UNCHANGED <<h, claims, cstarts, plan, attempt, phase, target, tlen, haveT, offered, inflight, done, exited,
                                          workerErr, written, cache, cancelled, mutated, storefail, regenerated, result, bad, scen>>
TNext == TStats \/ TReset \/ TPlan \/ TInvalid \/ TRegen \/ TValid \/ TFeed \/ TLeave \/ TClose \/ TJob \/ TCopied \/ TRehash
         \/ TChunk \/ TStore \/ TIdle \/ TExit \/ TSSAdd \/ TSSGet \/ TCancel \/ TMutate \/ TResult
TSpec == TInit /\ [][TNext]_tvars

\* ---------------------------------------------------------------- the property
\* success => exactly the indexed length and every position holds the indexed content
Safety == result = "ok" => (target = h.idx /\ tlen = h.length)
\* everything below the self-seed's write pointer already holds the indexed content
SelfSeedSound == haveT => \A p \in 1..written : p <= Len(target) => target[p] = h.idx[p]
\* when the store holds every chunk and the seeds are consistent (or the caller chose skip / regenerate) assembly
\* succeeds: regenerate always; skip unless a seed changes under the copy; bail-out with consistent, stable seeds
StableSeeds == ~mutated /\ \A s \in 1..Len(h.aliases) : ~h.aliases[s]
ConsistentSeeds == \A s \in 1..Len(h.kinds) : h.kinds[s] \in {"consistent", "emptyindex"}
Promised == /\ ~cancelled /\ storefail = 0 /\ h.missing = 0
            /\ \/ h.act = "regen" /\ \A s \in 1..Len(h.kinds) : h.kinds[s] # "deleted"      \* a seed file that is gone cannot be re-indexed
               \/ h.act = "skip" /\ StableSeeds
               \/ StableSeeds /\ ConsistentSeeds
Success == (result # "none" /\ Promised) => result = "ok"
InterruptedOnlyIfCancelled == result = "interrupted" => cancelled
NoBad == bad = {}

Constr == TLCSet(1, IF TLCGet(1) < l THEN l ELSE TLCGet(1))
          /\ (IF TLCGet(1) = l THEN TLCSet(2, <<scen, l>>) ELSE TRUE)
Accepted == \/ TLCGet(1) = Len(Trace) + 1
            \/ PrintT(<<"REJECTED", TLCGet(1), Len(Trace), TLCGet(2)>>) /\ FALSE
=============================================================================
