----------------------------- MODULE Trace_Unpack -----------------------------
(* Trace validation for C18: hostile archives (entry names with "..", slashes, absolute, empty; symlink-then-entry orders; surplus
   goodbyes) built by an independent encoder are unpacked by the real UnTar and UnTarIndex into a sandboxed destination; the
   sandbox outside the destination is snapshotted before and after.  The property: the unpack fails, or nothing outside changed.
   The abstract archive is also run through the model of Unpack.tla, whose verdict must be "confined". *)
EXTENDS Integers, Sequences, FiniteSets, TLC, Json
CONSTANTS TraceFile
Trace == ndJsonDeserialize(TraceFile)
VARIABLES l, bad
UP == INSTANCE Unpack WITH MaxEntries <- 0, Validate <- "full", x <- 0
Ev == Trace[l]
Arch == [k \in 1..Len(Ev.entries) |-> [name |-> Ev.entries[k].name, kind |-> Ev.entries[k].kind, target |-> Ev.entries[k].target]]
TInit == TLCSet(1, 0) /\ TLCSet(2, <<>>) /\ l = 1 /\ bad = {}
TUnpack == /\ l <= Len(Trace) /\ Ev.ev = "unpack" /\ l' = l + 1
           /\ bad' = bad \cup (IF Ev.outside = <<>> THEN {} ELSE {<<l, "unpacking created or modified something outside the destination directory">>})
                          \cup (IF Ev.modelled => UP!Confined(UP!UnpackRoot(UP!FS0(Ev.dstabsent), [kind |-> Ev.root.kind, target |-> Ev.root.target], Arch)) THEN {} ELSE {<<l, "the specification's own unpack model escapes for this archive">>})
TSpec == TInit /\ [][TUnpack]_<<l, bad>>
NoBad == bad = {}
Constr == TLCSet(1, IF TLCGet(1) < l THEN l ELSE TLCGet(1)) /\ (IF TLCGet(1) = l THEN TLCSet(2, <<0, l>>) ELSE TRUE)
Accepted == \/ TLCGet(1) = Len(Trace) + 1
            \/ PrintT(<<"REJECTED", TLCGet(1), Len(Trace), TLCGet(2)>>) /\ FALSE
=============================================================================
