--------------------------- MODULE Trace_CacheAge ---------------------------
(* Replays recorded runs of the real commands through a local cache (and of LocalStore.GetChunk with UpdateTimes) as CacheAge's Tick and Use steps
   and compares the file times observed afterwards with the model's. *)
EXTENDS CacheAge, Sequences, Json
CONSTANT TraceFile
Trace == ndJsonDeserialize(TraceFile)
VARIABLES l, bad
SetOf(s) == {s[i] : i \in DOMAIN s}
Flag(cond, what) == IF cond THEN {} ELSE {<<l, what>>}
Ev == Trace[l]
\* reset: the cache as prepared: ids with their time class (1 = aged); everything else absent
TReset == /\ l <= Len(Trace) /\ Ev.ev = "reset"
          /\ clock' = 1 /\ lost' = {} /\ lastUse' = [c \in Chunks |-> 0]
          /\ mtime' = [c \in Chunks |-> IF c \in SetOf(Ev.cached) THEN 1 ELSE 0]
          /\ bad' = bad /\ l' = l + 1
\* one command: time advances, then every chunk of the index is requested through the cache (Tick, then Use(c) for each c, composed)
TRun == /\ l <= Len(Trace) /\ Ev.ev = "run"
        /\ clock' = clock + 1 /\ lost' = lost
        /\ LET used == SetOf(Ev.used) IN
           /\ lastUse' = [c \in Chunks |-> IF c \in used THEN clock + 1 ELSE lastUse[c]]
           /\ mtime' = [c \in Chunks |-> IF c \in used THEN clock + 1 ELSE mtime[c]]      \* Use(c) at the new time: fill or touch
        /\ bad' = bad \cup Flag(Ev.exit = 0, "the command failed")
                      \cup UNION {Flag(Ev.after[c] = mtime'[c], "cache file time after the run differs from the model (0 absent, else the logical time of the file)") : c \in Chunks}
        /\ l' = l + 1
TInit == l = 1 /\ bad = {} /\ Init
TNext == TReset \/ TRun
TSpec == TInit /\ [][TNext]_<<vars, l, bad>>
NoBad == bad = {}
Constr == TLCSet(1, l)
Accepted == TLCGet(1) = Len(Trace) + 1 \/ Len(Trace) = 0
=============================================================================
