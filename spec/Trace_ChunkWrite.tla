-------------------------- MODULE Trace_ChunkWrite --------------------------
(***************************************************************************)
(* Validates what the real code left behind at death points against        *)
(* ChunkWrite.tla and ExtractCrash.tla (C08).  Record kinds:               *)
(*  sched scenarios: the steps of concurrent StoreChunk calls (hooks) with *)
(*     the store directory at every step; the steps are replayed as        *)
(*     ChunkWrite actions, the chunk names present must be those of the    *)
(*     model and every one of them complete (NoPartial on the observation) *)
(*  sys scenarios: file-system calls of `desync chop` seen by strace,      *)
(*     applied to a model directory; every prefix is a death point         *)
(*  xsys scenarios: file-system calls of `desync extract` touching the     *)
(*     destination directory: the destination is only ever replaced by one *)
(*     rename, nothing else touches it                                     *)
(*  kill: the store directory after a child died (or failed) at step /     *)
(*     byte count k; xkill: the destination after `extract` was killed on  *)
(*     entry to the k-th call of a syscall group; inplace: `extract -k`    *)
(*     killed at the k-th chunk request and re-run (RefetchBound)          *)
(***************************************************************************)
EXTENDS ChunkWriteMC, Json

CONSTANT TraceFile
Trace == ndJsonDeserialize(TraceFile)
VARIABLES l, bad, kind, fs, sizes, xd
tvars == <<vars, l, bad, kind, fs, sizes, xd>>

Ev == Trace[l]
Is(e) == l <= Len(Trace) /\ Trace[l].ev = e /\ l' = l + 1
Flag(cond, what) == IF cond THEN {} ELSE {<<l, what>>}

\* ---- judgement of an observed store directory
ObsPartial(dir) == \E i \in 1..Len(dir) : dir[i].c = "C" /\ ~dir[i].full
ObsIds(dir) == {dir[i].id : i \in {j \in 1..Len(dir) : dir[j].c = "C"}}
ModelIds(f) == {p[2] : p \in {q \in DOMAIN f : ChunkName(q)}}
JudgeDir(dir, f) == Flag(~ObsPartial(dir), "a partially written or invalid file is visible under a chunk name")
                    \cup Flag(ModelIds(f) \subseteq ObsIds(dir), "a chunk that was renamed into place is not in the store any more")

TInit == /\ Init /\ l = 1 /\ bad = {} /\ kind = "none" /\ fs = <<>> /\ sizes = <<>> /\ xd = "prev"

ResetModel == /\ files' = <<>> /\ pc' = [w \in Writers |-> "start"] /\ name' = [w \in Writers |-> <<"none", 0>>]
              /\ off' = [w \in Writers |-> 0] /\ nextTmp' = 1
TReset == /\ Is("reset") /\ ResetModel /\ kind' = Ev.kind /\ fs' = <<>> /\ xd' = "prev"
          /\ sizes' = (IF Ev.kind = "sys" THEN Ev.sizes ELSE <<>>)
          /\ bad' = bad \cup (IF Ev.kind = "sys" THEN Flag(Ev.final_valid, "the store holds an invalid chunk after the command finished")
                              ELSE IF Ev.kind = "xsys" THEN Flag(Ev.final_ok, "extract did not produce the blob") ELSE {})

\* ---- sched scenarios
Keep == UNCHANGED <<kind, fs, sizes, xd>>
TStutter == /\ (Is("call") \/ Is("pr.enter")) /\ UNCHANGED vars /\ Keep
            /\ bad' = bad \cup JudgeDir(Ev.dir, files)
TTmp == /\ Is("ls.tmp") /\ CreateTmp(Ev.g) /\ Keep /\ bad' = bad \cup JudgeDir(Ev.dir, files')
TWritten == /\ Is("ls.written") /\ Write(Ev.g, Total) /\ Keep /\ bad' = bad \cup JudgeDir(Ev.dir, files')
TClosed == /\ Is("ls.closed") /\ Close(Ev.g) /\ Keep /\ bad' = bad \cup JudgeDir(Ev.dir, files')
TExit == /\ Is("ls.exit") /\ (IF pc[Ev.g] = "closed" THEN Rename(Ev.g) ELSE Fail(Ev.g)) /\ Keep /\ bad' = bad \cup JudgeDir(Ev.dir, files')
TRet == /\ Is("ret") /\ UNCHANGED vars /\ Keep
        /\ bad' = bad \cup JudgeDir(Ev.dir, files)
                      \* a success must leave the complete chunk behind (DoneMeansStored, on the observation)
                      \cup Flag(~Ev.err => IdOf[Ev.g] \in ObsIds(Ev.dir), "StoreChunk reported success but the chunk is not in the store")
TPrune == /\ Is("pr.exit") /\ files' = [p \in {q \in DOMAIN files : ChunkName(q)} |-> files[p]]
          /\ UNCHANGED <<pc, name, off, nextTmp>> /\ Keep /\ bad' = bad \cup JudgeDir(Ev.dir, files')
TEnd == /\ Is("end") /\ UNCHANGED vars /\ Keep
        /\ bad' = bad \cup (IF kind = "sched" THEN JudgeDir(Ev.dir, files) \cup Flag(\A w \in Writers : pc[w] \in {"start", "done", "failed"}, "a writer did not finish") ELSE {})
THang == /\ Is("hang") /\ UNCHANGED vars /\ Keep /\ bad' = bad \cup {<<l, "the scenario hung">>}

\* ---- sys scenarios: the store directory as a function from <<class, id>> to bytes
P(c, id) == <<c, id>>
SysApply(f, e) ==
  LET p == P(e.c, e.id) q == P(e.c2, e.id2) IN
  CASE e.op = "create" -> IF e.c = "" THEN f ELSE IF e.trunc \/ p \notin DOMAIN f THEN Put(f, p, 0) ELSE f
    [] e.op = "write" -> IF p \notin DOMAIN f THEN f
                         ELSE Put(f, p, IF e.off < 0 THEN f[p] + e.n ELSE IF e.off + e.n > f[p] THEN e.off + e.n ELSE f[p])
    [] e.op = "truncate" -> IF p \notin DOMAIN f THEN f ELSE Put(f, p, e.n)
    [] e.op = "unlink" -> IF p \in DOMAIN f THEN Drop(f, p) ELSE f
    [] e.op \in {"rename", "link"} ->
         IF e.c = "" THEN (IF e.c2 = "" THEN f ELSE Put(f, q, 0 - 1))                 \* something from outside appears in the store: unknown content
         ELSE IF p \notin DOMAIN f THEN f
         ELSE IF e.c2 = "" THEN (IF e.op = "rename" THEN Drop(f, p) ELSE f)
         ELSE Put(IF e.op = "rename" THEN Drop(f, p) ELSE f, q, f[p])
    [] OTHER -> f
SysComplete(f, sz) == \A p \in DOMAIN f : p[1] = "C" => (ToString(p[2]) \in DOMAIN sz /\ f[p] = sz[ToString(p[2])])
TSys == /\ Is("sys") /\ kind = "sys" /\ fs' = SysApply(fs, Ev) /\ UNCHANGED <<vars, kind, sizes, xd>>
        /\ bad' = bad \cup Flag(SysComplete(fs', sizes), "after this call a file under a chunk name is not the complete chunk: a death here exposes it")

\* ---- xsys scenarios
TXsys == /\ Is("xsys") /\ kind = "xsys" /\ UNCHANGED <<vars, kind, sizes, fs>>
         /\ LET e == Ev
                isRename == e.op = "rename" /\ e.c = "X" /\ e.c2 = "D"
                touchesD == (e.c = "D" /\ e.op \in {"create", "openw", "write", "truncate", "unlink", "rename", "link"}) \/ (e.c2 = "D" /\ ~isRename)
            IN /\ xd' = (IF isRename THEN "renamed" ELSE xd)
               /\ bad' = bad \cup Flag(~touchesD, "the destination is modified other than by renaming the finished temporary file over it")
                             \cup Flag(isRename => xd = "prev", "the destination is replaced more than once")
                             \cup Flag(~(xd = "renamed" /\ e.c = "X" /\ e.op = "write"), "the temporary file is written after it was renamed over the destination")

\* ---- single records
TKill == /\ Is("kill") /\ UNCHANGED <<vars, kind, fs, sizes, xd>>
         /\ bad' = bad \cup Flag(~ObsPartial(Ev.dir), "after the death/failure a partially written or invalid file is visible under a chunk name")
                       \cup Flag(Ev.pre => 1 \in ObsIds(Ev.dir), "a chunk stored before is gone")
                       \cup Flag((~Ev.failed /\ Ev.how \in {"step", "fsize"}) => 1 \in ObsIds(Ev.dir), "StoreChunk succeeded but the chunk is not in the store")
TXkill == /\ Is("xkill") /\ UNCHANGED <<vars, kind, fs, sizes, xd>>
          /\ bad' = bad \cup Flag(Ev.dest \in {"prev", "new"}, "extract was killed and the destination is neither its previous state nor the complete blob")
                        \* (a destination name too long for a temporary file next to it: the command may refuse, it must not fall back to writing in place)
                        \cup Flag(Ev.survived => Ev.dest \in (IF Ev.longname THEN {"new", "prev"} ELSE {"new"}), "extract finished but the destination is not the blob")
TInplace == /\ Is("inplace") /\ UNCHANGED <<vars, kind, fs, sizes, xd>>
            /\ LET e == Ev
                   invalidIds == {e.ids[c] : c \in {d \in 1..Len(e.ids) : \A i \in 1..Len(e.valid) : e.valid[i] # d}}
                   refetched == {e.refetched[i] : i \in 1..Len(e.refetched)}
                   \* with one worker the positions are processed in order and every processed position feeds the self seed: a chunk
                   \* is only fetched at the FIRST position that holds it, and only if that range was not valid after the death
                   firstInvalidIds == {e.ids[c] : c \in {d \in 1..Len(e.ids) : (\A i \in 1..Len(e.valid) : e.valid[i] # d)
                                                                              /\ (\A b \in 1..(d - 1) : e.ids[b] # e.ids[d])}}
               IN bad' = bad \cup Flag(refetched \subseteq invalidIds, "the re-run fetched a chunk whose range was already written correctly before the death")
                             \cup Flag(e.n = "1" => refetched \subseteq firstInvalidIds, "the re-run (one worker) fetched a chunk again that an earlier position of the file already holds")
                             \cup Flag(e.rerun_ok /\ e.final_ok, "the re-run of the in-place extract did not complete with the correct output")
                             \* one worker asks for the next chunk only after it wrote the previous one into the destination: what it had been given
                             \* before the request at which it was killed is in the destination (that is what makes the re-run cheap)
                             \cup (IF "answered" \in DOMAIN e /\ e.n = "1" /\ e.killed
                                   THEN Flag(\A i \in 1..Len(e.answered) : \E c \in 1..Len(e.ids) : e.ids[c] = e.answered[i] /\ (\E j \in 1..Len(e.valid) : e.valid[j] = c),
                                             "a chunk the killed in-place extract had already been given is not in the destination: the re-run has to fetch it again")
                                   ELSE {})

TNext == TReset \/ TStutter \/ TTmp \/ TWritten \/ TClosed \/ TExit \/ TRet \/ TPrune \/ TEnd \/ THang \/ TSys \/ TXsys \/ TKill \/ TXkill \/ TInplace
TSpec == TInit /\ [][TNext]_tvars
NoBad == bad = {}
Constr == TLCSet(1, l)
Accepted == TLCGet(1) = Len(Trace) + 1 \/ Len(Trace) = 0
=============================================================================
