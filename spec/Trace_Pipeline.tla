--------------------------- MODULE Trace_Pipeline ---------------------------
(***************************************************************************)
(* Trace validation for the pipeline family (C06, C07, C17): events of the *)
(* real ChopFile / Copy / ChunkStream / VerifyIndex (hooks pl.x, cs.x,     *)
(* gated store calls st.x) drive the actions of Pipeline.tla.  The trace   *)
(* follows what the code did; the property's invariants judge the outcome. *)
(* Only facts the log contradicts are flagged in bad.                      *)
(***************************************************************************)
EXTENDS Integers, Sequences, FiniteSets, TLC, Json

CONSTANTS TraceFile
Trace == ndJsonDeserialize(TraceFile)

VARIABLES jobs, nwk, nextj, offered, feeder, inflight, exited, units, cover, done, processed, stored, failedCalls,
          workerErr, cancelled, result,
          l, bad, scen, obs     \* obs: what the harness observed at the end (read-back of the real store etc.)

PL == INSTANCE Pipeline
pvars == <<jobs, nwk, nextj, offered, feeder, inflight, exited, units, cover, done, processed, stored, failedCalls,
           workerErr, cancelled, result>>
tvars == <<pvars, l, bad, scen, obs>>

Ev == Trace[l]
IsEvent(e) == l <= Len(Trace) /\ Ev.ev = e /\ l' = l + 1
SeqToSet(s) == {s[k] : k \in 1..Len(s)}
WI(g) == CHOOSE i \in 1..64 : g = "w" \o ToString(i)
Flag(cond, what) == IF cond THEN {} ELSE {<<scen, l, what>>}
NoObs == [complete |-> TRUE, indexok |-> TRUE, mode |-> "none", expect |-> "any"]
Keep == UNCHANGED <<scen, obs>>

TInit == /\ TLCSet(1, 0) /\ TLCSet(2, <<>>)
         /\ PL!InitWith(<<>>, 1, {}, 0) /\ l = 1 /\ bad = {} /\ scen = 0 /\ obs = NoObs

TReset == /\ IsEvent("reset") /\ PL!ResetWith(Ev.jobs, Ev.nw, SeqToSet(Ev.have), Ev.units)
          /\ scen' = Ev.scen /\ obs' = [NoObs EXCEPT !.mode = Ev.mode, !.expect = IF Ev.lenok /\ Ev.mism = <<>> THEN "accept" ELSE "reject"] /\ UNCHANGED bad

\* job identity as logged must be the job the feeder is offering
JobMatches == \/ ("id" \in DOMAIN Ev /\ nextj <= Len(jobs) /\ Ev.id = jobs[nextj])
              \/ ("num" \in DOMAIN Ev /\ Ev.num + 1 = nextj /\ nextj <= Len(jobs))
              \/ ("first" \in DOMAIN Ev)
\* a VerifyIndex batch covers the index entries first..last (0-based in the log)
FedUnits == IF "first" \in DOMAIN Ev THEN {u \in 1..units : Ev.first + 1 <= u /\ u <= Ev.last + 1} ELSE {nextj}
TFeed == /\ IsEvent("pl.feed") /\ PL!Feed(FedUnits)
         /\ bad' = bad \cup Flag(JobMatches, "feeder offers a job that is not the next index entry") /\ Keep
TLeave == /\ IsEvent("pl.leave") /\ PL!Leave
          /\ bad' = bad \cup Flag(PL!CtxDone, "feeder took the ctx.Done branch although the context is not done") /\ Keep
TClose == /\ IsEvent("pl.close") /\ PL!Close
          /\ UNCHANGED bad /\ Keep
\* the receiver's arrival may be logged after the feeder's next offer: the job is the oldest offered one
\* that matches what the worker logged
Matching == {j \in offered : /\ (("id" \in DOMAIN Ev /\ j <= Len(jobs)) => Ev.id = jobs[j])
                             /\ (("num" \in DOMAIN Ev) => Ev.num + 1 = j)}
TJob == /\ IsEvent("pl.job")
        /\ IF Matching # {}
           THEN /\ PL!Take(WI(Ev.g), CHOOSE j \in Matching : \A k \in Matching : j <= k) /\ UNCHANGED bad
           ELSE /\ offered # {} /\ PL!Take(WI(Ev.g), CHOOSE j \in offered : \A k \in offered : j <= k)
                /\ bad' = bad \cup Flag(FALSE, "worker received a job that was not offered")
        /\ Keep
\* pl.idle: before the first receive (nothing in flight) or after a finished job
TIdle == /\ IsEvent("pl.idle")
         /\ IF inflight[WI(Ev.g)] # 0 THEN PL!JobDone(WI(Ev.g)) ELSE UNCHANGED pvars
         /\ UNCHANGED bad /\ Keep
TExit == /\ IsEvent("pl.exit") /\ PL!Exit(WI(Ev.g)) /\ UNCHANGED bad /\ Keep
TMark == /\ IsEvent("cs.mark") /\ PL!Mark(Ev.id)
         /\ bad' = bad \cup Flag(Ev.was = (Ev.id \in processed), "markProcessed result differs from the processed set") /\ Keep
TUnmark == /\ IsEvent("cs.unmark") /\ PL!Unmark(Ev.id) /\ UNCHANGED bad /\ Keep
TStEnter == /\ (IsEvent("st.has.enter") \/ IsEvent("st.store.enter") \/ IsEvent("st.get.enter"))
            /\ UNCHANGED pvars /\ UNCHANGED bad /\ Keep
TStHas == /\ IsEvent("st.has.exit") /\ PL!StoreCall("has", Ev.id, Ev.res) /\ UNCHANGED bad /\ Keep
TStStore == /\ IsEvent("st.store.exit") /\ PL!StoreCall("store", Ev.id, Ev.res) /\ UNCHANGED bad /\ Keep
TStGet == /\ IsEvent("st.get.exit") /\ PL!StoreCall("get", Ev.id, Ev.res) /\ UNCHANGED bad /\ Keep
TCancel == /\ IsEvent("cancel") /\ (PL!Cancel \/ (cancelled /\ UNCHANGED pvars) \/ (result # "none" /\ UNCHANGED pvars))
           /\ UNCHANGED bad /\ Keep
TResult == /\ IsEvent("result") /\ PL!Report(Ev.res)
           /\ obs' = [obs EXCEPT !.complete = Ev.complete, !.indexok = Ev.indexok]
           /\ UNCHANGED <<bad, scen>>
TNext == TReset \/ TFeed \/ TLeave \/ TClose \/ TJob \/ TIdle \/ TExit \/ TMark \/ TUnmark \/ TStEnter
         \/ TStHas \/ TStStore \/ TStGet \/ TCancel \/ TResult
TSpec == TInit /\ [][TNext]_tvars

\* ---- the property on the recorded behaviour
Storing == obs.mode \in {"chop", "copy", "stream"}
OkImpliesComplete == (Storing /\ result = "ok") => ((\A j \in 1..Len(jobs) : jobs[j] \in stored) /\ obs.complete /\ obs.indexok)
FailureReported == PL!FailureReported
WorkerErrorReported == PL!WorkerErrorReported
OkImpliesAllDone == PL!OkImpliesAllDone
WaitsForWorkers == PL!WaitsForWorkers
\* verify-index (C17): accept iff the file has the indexed length and every chunk range hashes to its ID
\* (the reset record says which ranges of the file on disk match, computed by the harness with its own SHA)
VerdictOK == (obs.mode = "verify" /\ result # "none" /\ ~cancelled) =>
                /\ obs.expect = "accept" => result = "ok"
                /\ obs.expect = "reject" => result = "error"
\* an undisturbed run (no cancellation, no failing store call, valid input) succeeds
CleanRunSucceeds == (result # "none" /\ ~cancelled /\ failedCalls = 0 /\ obs.expect = "accept") => result = "ok"
\* interruption is the only error a cancelled, otherwise undisturbed run may report
NoBad == bad = {}

Constr == TLCSet(1, IF TLCGet(1) < l THEN l ELSE TLCGet(1))
          /\ (IF TLCGet(1) = l THEN TLCSet(2, <<scen, l>>) ELSE TRUE)
Accepted == \/ TLCGet(1) = Len(Trace) + 1
            \/ PrintT(<<"REJECTED", TLCGet(1), Len(Trace), TLCGet(2)>>) /\ FALSE
=============================================================================
