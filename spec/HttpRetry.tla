------------------------------ MODULE HttpRetry ------------------------------
(***************************************************************************)
(* Remote transports (remotehttp.go, remotehttpindex.go, httphandler.go,   *)
(* protocol.go, protocolserver.go, remotessh.go) -- C14.                   *)
(*                                                                         *)
(* 1. The HTTP client's retry loop against a scripted server: a script is  *)
(*    a sequence of responses from {200, 201, 404, 400, 403, 500, 503,     *)
(*    "reset", "short"}; transient = 5xx, connection reset, short body.    *)
(*    Required(script, R, op) is the outcome the caller must see;          *)
(*    Loop(script, R, op) is the implementation-shaped loop; TLC checks    *)
(*    they agree for all scripts up to a length and all budgets.           *)
(* 2. The compression matrix: data arrives unchanged iff client and server *)
(*    agree on the wire format, otherwise an error -- never other data.    *)
(* 3. The casync protocol session: missing is reported as missing, the     *)
(*    session survives it, HasChunk maps missing to (false, no error).     *)
(***************************************************************************)
EXTENDS Integers, Sequences, FiniteSets, TLC

Transient(r) == r \in {"500", "503", "reset", "short"}
Budget(R) == IF R < 1 THEN 1 ELSE R
\* number of leading transient responses
RECURSIVE Lead(_)
Lead(s) == IF s = <<>> \/ ~Transient(Head(s)) THEN 0 ELSE 1 + Lead(Tail(s))
\* the response that decides: the first non-transient one; a script that is exhausted is followed by "200"
Deciding(s) == IF Lead(s) < Len(s) THEN s[Lead(s) + 1] ELSE "200"
Final(op, d) ==
  CASE op = "get"  -> IF d = "200" THEN "ok" ELSE IF d = "404" THEN "missing" ELSE "error"
    [] op = "has"  -> IF d = "200" THEN "true" ELSE IF d = "404" THEN "false" ELSE "error"
    [] op = "put"  -> IF d \in {"200", "201"} THEN "ok" ELSE "error"
\* a HEAD response has no body: a "short body" answer to it is simply a 200
Eff(s, op) == [k \in 1..Len(s) |-> IF op = "has" /\ s[k] = "short" THEN "200" ELSE s[k]]
Required(s0, R, op) ==
  LET s == Eff(s0, op) IN
  IF Lead(s) >= Budget(R) THEN [res |-> "error", attempts |-> Budget(R)]
  ELSE [res |-> Final(op, Deciding(s)), attempts |-> Lead(s) + 1]

\* the loop as implemented: attempt++, request; on error or 5xx give up when attempt >= R, else retry
RECURSIVE LoopFrom(_, _, _, _)
LoopFrom(s0, R, op, attempt) ==
  LET s == Eff(s0, op)
      a == attempt + 1
      r == IF a <= Len(s) THEN s[a] ELSE "200"
  IN IF Transient(r)
     THEN IF a >= R THEN [res |-> "error", attempts |-> a] ELSE LoopFrom(s0, R, op, a)
     ELSE [res |-> Final(op, r), attempts |-> a]
Loop(s, R, op) == LoopFrom(s, R, op, 0)

\* ---- the property, in the words of the statement
Props(s0, R, op, out) ==
  LET s == Eff(s0, op) IN
  /\ out.attempts <= Budget(R)                                          \* bounded by the budget
  /\ (Lead(s) < Budget(R)) => out.res = Final(op, Deciding(s))          \* shorter runs of transient failures are invisible
  /\ out.res \in {"missing", "false"} => Deciding(s) = "404"            \* missing only if the server said so
  /\ (Deciding(s) = "404" /\ Lead(s) < Budget(R)) => out.res \in {"missing", "false", "error"} /\ (op # "put" => out.res # "error")
  /\ out.res \in {"ok", "true"} => Deciding(s) \in {"200", "201"}        \* success only with a 2xx

\* ---- 2. the compression matrix
\* wire format = what the server's converters produce; the client decodes with its own
MatrixRequired(clientComp, serverComp) == IF clientComp = serverComp THEN "ok" ELSE "error"
\* the upstream object of the requested chunk is damaged ("garbage": neither a zstd frame nor the chunk; "truncated"; "empty")
\* and the server reads its upstream store without verification (the chunk server's default).  A hop that has to zstd-DECODE
\* damaged bytes must fail: the server when the upstream is compressed and it serves plain chunks; the client when it expects
\* compressed chunks and the server passed the object through (upstream format = wire format).  A verifying client always
\* fails.  An empty object decodes to an empty chunk without an error, so only verification catches it.  Where nobody has
\* to look at the bytes they may be handed on ("okbad": delivered, and not the chunk).  Never "ok", never "missing".
DamagedAllowed(clientComp, serverComp, upComp, verify, damage) ==
  IF verify \/ (damage # "empty" /\ ((upComp /\ ~serverComp) \/ (clientComp /\ upComp = serverComp)))
  THEN {"error"} ELSE {"error", "okbad"}

CONSTANTS MaxLen, Budgets
Responses == {"200", "201", "404", "400", "403", "500", "503", "reset", "short"}
Scripts == UNION {[1..n -> Responses] : n \in 0..MaxLen}
ASSUME \A s \in Scripts, R \in Budgets, op \in {"get", "has", "put"} :
         /\ Loop(s, R, op) = Required(s, R, op)
         /\ Props(s, R, op, Required(s, R, op))
VARIABLE x
Spec == x = 0 /\ [][UNCHANGED x]_x
=============================================================================
