-------------------------------- MODULE Mtree --------------------------------
(***************************************************************************)
(* `desync mtree` / `untar --output-format mtree` (mtreefs.go): one line   *)
(* per node in mtree(5) syntax.  Not one of the listed properties (C05/C13 *)
(* are about catar): this module extends the archive specification to the  *)
(* second FilesystemWriter that renders a tree as text.                    *)
(*                                                                         *)
(* A line is a sequence of bytes.  mtree(5): words are separated by white  *)
(* space; the first word is the path; the others are keyword=value; in     *)
(* path names and values a backslash followed by three octal digits stands *)
(* for that byte, and every byte that is a backslash, white space, '#' or  *)
(* outside printable ASCII must be written that way.  Read is that reader; *)
(* Line is the printer; Want(node) is what a reader must get back.         *)
(* TLC shows Read(Line(n)) = Want(n) for all small nodes with Variant =    *)
(* "spec", and that the printer as first found (Variant = "found": blanks  *)
(* not escaped, nanoseconds padded with blanks) does NOT have that         *)
(* property (witness).                                                     *)
(***************************************************************************)
EXTENDS Integers, Sequences, FiniteSets, TLC
CONSTANT Variant
S_type == <<116, 121, 112, 101>>
S_mode == <<109, 111, 100, 101>>
S_uid == <<117, 105, 100>>
S_gid == <<103, 105, 100>>
S_size == <<115, 105, 122, 101>>
S_time == <<116, 105, 109, 101>>
S_target == <<116, 97, 114, 103, 101, 116>>
S_sha512256digest == <<115, 104, 97, 53, 49, 50, 50, 53, 54, 100, 105, 103, 101, 115, 116>>
S_dir == <<100, 105, 114>>
S_file == <<102, 105, 108, 101>>
S_link == <<108, 105, 110, 107>>
S_char == <<99, 104, 97, 114>>
S_block == <<98, 108, 111, 99, 107>>
SP == 32  BS == 92  EQ == 61  DOT == 46
IsWS(c) == c \in {32, 9, 10, 13}
IsOct(c) == c \in 48..55

\* ---- printer
RECURSIVE DigitsOf(_)
DigitsOf(n) == IF n < 10 THEN <<48 + n>> ELSE DigitsOf(n \div 10) \o <<48 + (n % 10)>>
SignedDigits(n) == IF n < 0 THEN <<45>> \o DigitsOf(0 - n) ELSE DigitsOf(n)
RECURSIVE PadLeft(_, _, _)
PadLeft(s, w, c) == IF Len(s) >= w THEN s ELSE PadLeft(<<c>> \o s, w, c)
RECURSIVE OctOf(_)
OctOf(n) == IF n < 8 THEN <<48 + n>> ELSE OctOf(n \div 8) \o <<48 + (n % 8)>>
MustEscape(c) == c = BS \/ c = 35 \/ c < 32 \/ c > 126 \/ (Variant # "found" /\ c = SP)
EscByte(c) == IF MustEscape(c) THEN <<BS>> \o PadLeft(OctOf(c), 3, 48) ELSE <<c>>
RECURSIVE Esc(_)
Esc(s) == IF s = <<>> THEN <<>> ELSE EscByte(Head(s)) \o Esc(Tail(s))
TimeOf(n) == SignedDigits(n.sec) \o <<DOT>> \o PadLeft(DigitsOf(n.nsec), 9, IF Variant = "found" /\ n.type # "file" THEN SP ELSE 48)
TypeWord(t) == CASE t = "dir" -> S_dir [] t = "file" -> S_file [] t = "link" -> S_link [] t = "char" -> S_char [] OTHER -> S_block
KV(k, v) == <<SP>> \o k \o <<EQ>> \o v
Line(n) == Esc(n.path) \o KV(S_type, TypeWord(n.type)) \o KV(S_mode, PadLeft(OctOf(n.mode % 512), 4, 48))
           \o (IF n.type = "link" THEN KV(S_target, Esc(n.target)) ELSE <<>>)
           \o KV(S_uid, DigitsOf(n.uid)) \o KV(S_gid, DigitsOf(n.gid))
           \o (IF n.type = "file" THEN KV(S_size, DigitsOf(n.size)) ELSE <<>>)
           \o KV(S_time, TimeOf(n))
           \o (IF n.type = "file" THEN KV(S_sha512256digest, n.digest) ELSE <<>>)

\* ---- reader
RECURSIVE SplitWS(_, _, _)
SplitWS(s, cur, acc) ==
  IF s = <<>> THEN (IF cur = <<>> THEN acc ELSE Append(acc, cur))
  ELSE IF IsWS(Head(s)) THEN SplitWS(Tail(s), <<>>, IF cur = <<>> THEN acc ELSE Append(acc, cur))
  ELSE SplitWS(Tail(s), Append(cur, Head(s)), acc)
RECURSIVE Unesc(_)
Unesc(s) == IF s = <<>> THEN <<>>
            ELSE IF Head(s) = BS /\ Len(s) >= 4 /\ IsOct(s[2]) /\ IsOct(s[3]) /\ IsOct(s[4])
                 THEN <<(s[2] - 48) * 64 + (s[3] - 48) * 8 + (s[4] - 48)>> \o Unesc(SubSeq(s, 5, Len(s)))
                 ELSE <<Head(s)>> \o Unesc(Tail(s))
EqPos(w) == IF \E i \in 1..Len(w) : w[i] = EQ THEN CHOOSE i \in 1..Len(w) : w[i] = EQ /\ \A j \in 1..(i-1) : w[j] # EQ ELSE 0
\* the set of <<keyword, value>> pairs of a line, and its path; "malformed" words (no '=') are kept so that they make the comparison fail
Read(line) == LET ws == SplitWS(line, <<>>, <<>>) IN
              IF ws = <<>> THEN [path |-> <<>>, attrs |-> {}]
              ELSE [path |-> Unesc(ws[1]),
                    attrs |-> {LET w == ws[i]  p == EqPos(w) IN IF p = 0 THEN <<w, <<>>>> ELSE <<SubSeq(w, 1, p - 1), Unesc(SubSeq(w, p + 1, Len(w)))>> : i \in 2..Len(ws)}]

\* ---- what a reader must get
Want(n) == [path |-> n.path,
            attrs |-> {<<S_type, TypeWord(n.type)>>, <<S_mode, PadLeft(OctOf(n.mode % 512), 4, 48)>>    \* as coded: permission bits only, set-id and sticky bits are not listed (named deviation from mtree(5))
                      , <<S_uid, DigitsOf(n.uid)>>, <<S_gid, DigitsOf(n.gid)>>,
                       <<S_time, SignedDigits(n.sec) \o <<DOT>> \o PadLeft(DigitsOf(n.nsec), 9, 48)>>}
                      \cup (IF n.type = "link" THEN {<<S_target, n.target>>} ELSE {})
                      \cup (IF n.type = "file" THEN {<<S_size, DigitsOf(n.size)>>, <<S_sha512256digest, n.digest>>} ELSE {})]

CONSTANTS Alphabet, MaxName
Names == UNION {[1..k -> Alphabet] : k \in 1..MaxName}
Node(p, ty, tg, m, sec, ns) == [path |-> p, type |-> ty, mode |-> m, uid |-> 1000, gid |-> 0, size |-> 12, sec |-> sec, nsec |-> ns, target |-> tg, digest |-> <<97, 49>>]
ASSUME \A p \in Names, ty \in {"dir", "file", "link", "char", "block"} : \A tg \in (IF ty = "link" THEN Names ELSE {<<97>>}), m \in {0, 420, 2047}, sec \in {0, 1577836800}, ns \in {0, 5000, 123456789} :
         LET n == Node(p, ty, tg, m, sec, ns) IN Read(Line(n)) = Want(n)
VARIABLE x
Spec == x = 0 /\ [][UNCHANGED x]_x
=============================================================================
