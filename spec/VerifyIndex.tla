---------------------------- MODULE VerifyIndex ----------------------------
(***************************************************************************)
(* verify-index (verifyindex.go) -- C17.                                   *)
(* The verdict:  Accept <=> the file has the indexed length and every      *)
(* chunk range hashes to its ID.  The implementation feeds the chunks to   *)
(* its workers in batches; the batches must cover every index entry        *)
(* (BatchesCover) or a damaged chunk could go unread.  The arithmetic is    *)
(* transcribed from the code: batch = K div (10 n); i = 0, batch+1, ...    *)
(* The pipeline itself is an instance of Pipeline.tla (a job = a batch).   *)
(***************************************************************************)
EXTENDS Integers, Sequences, FiniteSets, TLC
CONSTANTS KMax, NMax

MinOf2(a, b) == IF a < b THEN a ELSE b
BatchSize(K, n) == K \div (n * 10)
RECURSIVE BatchesFrom(_, _, _)
BatchesFrom(i, K, b) == IF i >= K THEN <<>>
                        ELSE <<<<i, MinOf2(i + b, K - 1)>>>> \o BatchesFrom(i + b + 1, K, b)
Batches(K, n) == BatchesFrom(0, K, BatchSize(K, n))

\* consecutive, disjoint, covering 0..K-1
BatchesPartition(K, n) ==
  LET bs == Batches(K, n) IN
  /\ (K = 0) = (bs = <<>>)
  /\ K > 0 => /\ bs[1][1] = 0 /\ bs[Len(bs)][2] = K - 1
              /\ \A k \in 1..Len(bs) : bs[k][1] <= bs[k][2]
              /\ \A k \in 1..(Len(bs) - 1) : bs[k + 1][1] = bs[k][2] + 1

\* the verdict as a function of what the file looks like
Accept(lenEqual, mismatching) == lenEqual /\ mismatching = {}

ASSUME \A K \in 0..KMax, n \in 1..NMax : BatchesPartition(K, n)
\* a single damaged chunk anywhere is inside exactly one batch
ASSUME \A K \in 1..MinOf2(KMax, 60), n \in {1, 2, 3, 4, 10, 64}, j \in 0..59 :
          j < K => Cardinality({k \in 1..Len(Batches(K, n)) : Batches(K, n)[k][1] <= j /\ j <= Batches(K, n)[k][2]}) = 1

VARIABLE x
Init == x = 0
Next == UNCHANGED x
Spec == Init /\ [][Next]_x
=============================================================================
