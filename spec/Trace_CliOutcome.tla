-------------------------- MODULE Trace_CliOutcome --------------------------
EXTENDS CliOutcome, Json, Sequences
CONSTANT TraceFile
Trace == ndJsonDeserialize(TraceFile)
VARIABLES l, bad
tvars == <<vars, l, bad>>
Flag(cond, what) == IF cond THEN {} ELSE {<<l, what>>}
Judge(e) == Flag(~e.hung, "the command did not terminate")
            \cup Flag(e.exit = 0 => e.complete, "exit status 0 although the result is incomplete or wrong")
            \cup Flag(e.valid_inputs => (e.exit = 0 /\ e.complete), "valid inputs and no fault, yet the command failed or left a wrong result")
TInit == valid = TRUE /\ worked = "no" /\ exit = 0 - 1 /\ l = 1 /\ bad = {}
TNext == l <= Len(Trace) /\ bad' = bad \cup Judge(Trace[l]) /\ l' = l + 1 /\ UNCHANGED vars
TSpec == TInit /\ [][TNext]_tvars
NoBad == bad = {}
Constr == TLCSet(1, l)
Accepted == TLCGet(1) = Len(Trace) + 1 \/ Len(Trace) = 0
=============================================================================
