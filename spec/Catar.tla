-------------------------------- MODULE Catar --------------------------------
(***************************************************************************)
(* The casync catar archive format as a grammar with attributes (tar.go,   *)
(* format.go, archive.go) -- C13, C05.                                     *)
(*                                                                         *)
(* An archive is read as a sequence of element tokens produced by an       *)
(* independent tokeniser of the byte format.  The recogniser below is a    *)
(* pushdown machine: a stack of open nodes, each with the list of children *)
(* seen so far.  It checks, element by element:                            *)
(*   - offsets are contiguous and every size field matches its content     *)
(*   - element order: Entry, attributes (xattrs sorted by key), then       *)
(*     exactly one of Payload | Symlink | Device | (Filename Node)* Goodbye *)
(*     according to the entry's mode                                       *)
(*   - children in name order when packed from disk                        *)
(*   - every goodbye table: one item per child with offset = distance from *)
(*     the goodbye element back to the child's filename element, the       *)
(*     child's size and name hash; items laid out as a complete binary     *)
(*     search tree (array form) over (hash, offset); tail item = distance  *)
(*     back to the directory's entry, size of the table, tail marker       *)
(* and rebuilds the list of nodes the archive describes (Nodes), which is  *)
(* compared with the source tree (C13 last clause, C05).                   *)
(* Hashes are ranks of the 64-bit SipHash values (order is all that        *)
(* matters); names, contents and link targets are interned small integers. *)
(***************************************************************************)
EXTENDS Integers, Sequences, FiniteSets, TLC

\* ------------------------------------------------------------------ complete BST in array form
\* number of nodes in the left subtree of a complete binary tree with n nodes
RECURSIVE Pow2(_)
Pow2(k) == IF k = 0 THEN 1 ELSE 2 * Pow2(k - 1)
RECURSIVE Log2(_)
Log2(n) == IF n <= 1 THEN 0 ELSE 1 + Log2(n \div 2)
LeftSize(n) == IF n <= 1 THEN 0
               ELSE LET h == Log2(n)                       \* height: levels below the root
                        lastCap == Pow2(h)                 \* capacity of the last level
                        above == lastCap - 1               \* nodes above the last level
                        last == n - above                  \* nodes in the last level
                        half == lastCap \div 2
                    IN (half - 1) + (IF last < half THEN last ELSE half)
\* Lay(i, lo, n): the array positions of the subtree rooted at array index i holding the sorted elements lo..lo+n-1
\* as a set of <<array index, sorted index>>
RECURSIVE Lay(_, _, _)
Lay(i, lo, n) == IF n = 0 THEN {}
                 ELSE LET ls == LeftSize(n) IN
                      {<<i, lo + ls>>} \cup Lay(2 * i + 1, lo, ls) \cup Lay(2 * i + 2, lo + ls + 1, n - ls - 1)
\* BSTOrder(n)[k] = index (1-based) in the sorted sequence of the element stored at array position k (1-based)
BSTOrder(n) == LET L == Lay(0, 0, n) IN [k \in 1..n |-> (CHOOSE p \in L : p[1] = k - 1)[2] + 1]
\* in-order walk of the array form
RECURSIVE InOrder(_, _)
InOrder(i, n) == IF i >= n THEN <<>> ELSE InOrder(2 * i + 1, n) \o <<i>> \o InOrder(2 * i + 2, n)
BSTWellFormed(n) == LET o == BSTOrder(n) IN
                    /\ {p[1] : p \in Lay(0, 0, n)} = 0..(n - 1)                  \* complete: exactly the first n array slots
                    /\ [k \in 1..n |-> o[InOrder(0, n)[k] + 1]] = [k \in 1..n |-> k] \* search tree: in-order is sorted order

\* ------------------------------------------------------------------ the recogniser
\* kids: sequence of [start, size, hash]; sorted by (hash, offset-from-goodbye) ascending: offset = gb - start, so for
\* equal hashes the LATER child (smaller offset) comes first
KidLess(a, b, gb) == a.hash < b.hash \/ (a.hash = b.hash /\ (gb - a.start) < (gb - b.start))
SortedKids(kids, gb) ==
  LET n == Len(kids)
      rank(k) == Cardinality({j \in 1..n : KidLess(kids[j], kids[k], gb)}) + 1
  IN [r \in 1..n |-> kids[CHOOSE k \in 1..n : rank(k) = r]]
\* kids must be pairwise distinct under KidLess for the above to be a permutation: distinct starts guarantee it
GoodbyeOK(g, frame) ==
  LET kids == frame.kids
      n == Len(kids)
      sk == SortedKids(kids, g.off)
      ord == BSTOrder(n)
  IN /\ Len(g.items) = n
     /\ \A k \in 1..n : g.items[k] = <<g.off - sk[ord[k]].start, sk[ord[k]].size, sk[ord[k]].hash>>
     /\ g.tailoff = g.off - frame.estart
     /\ g.tailsize = 16 + 24 * (n + 1)
     /\ g.marker

KindOfMode(m) == CASE m = "dir" -> "dir" [] m = "file" -> "file" [] m = "symlink" -> "symlink" [] OTHER -> "dev"

Init0 == [pos |-> 0, stack |-> <<>>, mode |-> "node", nodes |-> <<>>, bad |-> {}, done |-> FALSE]
Flag(c, l, cond, what) == IF cond THEN c.bad ELSE c.bad \cup {<<l, what>>}

\* close the node on top of the stack; endpos = offset just past it
CloseNode(c, endpos) ==
  LET f == c.stack[Len(c.stack)]
      rest == SubSeq(c.stack, 1, Len(c.stack) - 1)
      node == [depth |-> Len(rest), name |-> f.name, kind |-> f.kind, mode |-> f.mode, uid |-> f.uid, gid |-> f.gid,
               msec |-> f.msec, mnsec |-> f.mnsec, content |-> f.content, target |-> f.target, major |-> f.major, minor |-> f.minor,
               xattrs |-> f.xattrs]
  IN IF rest = <<>> THEN [c EXCEPT !.stack = <<>>, !.mode = "end", !.nodes = [c.nodes EXCEPT ![f.slot] = node]]
     ELSE LET p == rest[Len(rest)]
              p2 == [p EXCEPT !.kids = Append(p.kids, [start |-> p.open, size |-> endpos - p.open, hash |-> p.openhash])]
          IN [c EXCEPT !.stack = [rest EXCEPT ![Len(rest)] = p2], !.mode = "body", !.nodes = [c.nodes EXCEPT ![f.slot] = node]]

\* one element token e at trace line l; disk: children must be in name order
Step(c, e, l, disk) ==
  LET c1 == [c EXCEPT !.bad = Flag(c, l, e.off = c.pos, "element does not start where the previous one ended")
                               \cup (IF e.sizeok THEN {} ELSE {<<l, "size field does not match the element's content">>}),
                      !.pos = e.off + e.adv]
      top == IF c.stack = <<>> THEN [kind |-> "none", placed |-> FALSE] ELSE c.stack[Len(c.stack)]
  IN CASE e.t = "entry" ->
            IF c.mode # "node" THEN [c1 EXCEPT !.bad = @ \cup {<<l, "entry where none is expected">>}]
            ELSE [c1 EXCEPT !.mode = "body", !.nodes = Append(c.nodes, [depth |-> Len(c.stack)]),   \* nodes are listed in archive (pre-) order
                            !.stack = Append(c.stack, [slot |-> Len(c.nodes) + 1, estart |-> e.off, kids |-> <<>>, open |-> 0, openhash |-> 0, lastrank |-> 0, lastxk |-> 0,
                                                        name |-> (IF c.stack = <<>> THEN 0 ELSE c.stack[Len(c.stack)].openname),
                                                        openname |-> 0, kind |-> e.kind, mode |-> e.mode, uid |-> e.uid, gid |-> e.gid,
                                                        msec |-> e.msec, mnsec |-> e.mnsec, content |-> 0, target |-> 0, major |-> 0, minor |-> 0,
                                                        xattrs |-> <<>>, placed |-> FALSE])]
       [] e.t \in {"xattr", "user", "group", "unknown"} ->
            IF c.mode # "body" \/ top.kind = "none" \/ Len(top.kids) > 0
            THEN [c1 EXCEPT !.bad = @ \cup {<<l, "attribute element outside an entry's attribute section">>}]
            ELSE IF e.t = "xattr"
                 THEN [c1 EXCEPT !.stack[Len(c.stack)].xattrs = Append(@, <<e.key, e.val>>), !.stack[Len(c.stack)].lastxk = e.krank,
                                 !.bad = @ \cup (IF e.krank > top.lastxk THEN {} ELSE {<<l, "extended attributes are not sorted by key">>})]
                 ELSE c1
       [] e.t = "filename" ->
            IF c.mode # "body" \/ top.kind # "dir" THEN [c1 EXCEPT !.bad = @ \cup {<<l, "filename outside a directory">>}]
            ELSE [c1 EXCEPT !.mode = "node", !.stack[Len(c.stack)].open = e.off, !.stack[Len(c.stack)].openhash = e.hash,
                            !.stack[Len(c.stack)].openname = e.name, !.stack[Len(c.stack)].lastrank = e.nrank,
                            !.bad = @ \cup (IF ~disk \/ e.nrank > top.lastrank THEN {} ELSE {<<l, "directory entries are not sorted by name">>})
                                      \cup (IF e.hashok THEN {} ELSE {<<l, "filename hash mismatch">>})]
       [] e.t \in {"payload", "symlink", "device"} ->
            LET want == CASE e.t = "payload" -> "file" [] e.t = "symlink" -> "symlink" [] OTHER -> "dev" IN
            IF c.mode # "body" \/ ~(top.kind = want \/ (want = "dev" /\ top.kind = "blk"))
            THEN [c1 EXCEPT !.bad = @ \cup {<<l, "content element does not fit the entry's mode">>}]
            ELSE LET c2 == [c1 EXCEPT !.stack[Len(c.stack)].content = (IF e.t = "payload" THEN e.content ELSE 0),
                                      !.stack[Len(c.stack)].target = (IF e.t = "symlink" THEN e.target ELSE 0),
                                      !.stack[Len(c.stack)].major = (IF e.t = "device" THEN e.major ELSE 0),
                                      !.stack[Len(c.stack)].minor = (IF e.t = "device" THEN e.minor ELSE 0)]
                 IN CloseNode(c2, e.off + e.adv)
       [] e.t = "goodbye" ->
            IF c.mode # "body" \/ top.kind # "dir" THEN [c1 EXCEPT !.bad = @ \cup {<<l, "goodbye outside a directory">>}]
            ELSE LET c2 == [c1 EXCEPT !.bad = @ \cup (IF GoodbyeOK(e, top) THEN {} ELSE {<<l, "goodbye table is not the complete BST of the children with correct offsets, sizes, hashes and tail">>})]
                 IN CloseNode(c2, e.off + e.adv)
       [] OTHER -> [c1 EXCEPT !.bad = @ \cup {<<l, "unexpected element">>}]

CONSTANT MaxN
ASSUME \A n \in 0..MaxN : BSTWellFormed(n)
VARIABLE x
Spec == x = 0 /\ [][UNCHANGED x]_x
=============================================================================
