----------------------------- MODULE ExtractStats -----------------------------
(***************************************************************************)
(* The statistics AssembleFile returns (`extract --print-stats`,           *)
(* extractstats.go) against what the run actually did.  Not one of the     *)
(* listed properties: it extends the specification of assembly (Assemble,  *)
(* Trace_Assemble) to its reporting.                                       *)
(*                                                                         *)
(* The same NDJSON trace Trace_Assemble.tla validates is read here; only   *)
(* "stats" records are judged, each against the events of its scenario     *)
(* (records from..l-1): a chunk counts as taken from the store when the    *)
(* store was asked for it, as kept in place when the worker found it in    *)
(* the target, as taken from a seed when it lies in a seed segment a       *)
(* worker received.  Chunks copied from the self-seed are in none of the    *)
(* three counters (as coded), so on success the three plus the self-seed   *)
(* copies cover the index (more when regenerate re-fetched a chunk).       *)
(***************************************************************************)
EXTENDS Integers, Sequences, FiniteSets, FiniteSetsExt, TLC, Json
CONSTANT TraceFile
Trace == ndJsonDeserialize(TraceFile)
VARIABLES l, bad

Span(e) == (e.from)..(l - 1)
Count(e, P(_)) == Cardinality({j \in Span(e) : P(Trace[j])})
StoreAsked(e) == Count(e, LAMBDA r : r.ev = "st.get.enter")
KeptInPlace(e) == Count(e, LAMBDA r : r.ev = "asm.chunk" /\ r.src = "inplace")
FromSelf(e) == Count(e, LAMBDA r : r.ev = "asm.chunk" /\ r.src = "self" /\ ~r.err)
SeedJobs(e) == {j \in Span(e) : Trace[j].ev = "asm.job" /\ Trace[j].seed}
FromSeeds(e) == MapThenSumSet(LAMBDA j : Trace[j].last - Trace[j].first + 1, SeedJobs(e))

Flag(cond, what) == IF cond THEN {} ELSE {<<l, what>>}
Judge(e) ==
  IF e.ev # "stats" THEN {}
  ELSE LET s == e.rep IN
       Flag(s.total = e.k, "chunks-total is not the number of chunks in the index")
       \cup Flag(s.bytes = e.length, "bytes-total is not the length of the blob")
       \cup (IF e.started THEN
               Flag(s.seeds = e.nseeds + 1, "seeds is not the number of seeds given plus the null-chunk seed")
               \cup Flag(s.store = StoreAsked(e), "chunks-from-store differs from the number of chunks requested from the store")
               \cup Flag(s.inplace = KeptInPlace(e), "chunks-in-place differs from the number of chunks found in the target")
               \cup Flag(s.fromseeds = FromSeeds(e), "chunks-from-seeds differs from the chunks in the seed segments the workers received")
               \cup Flag(e.res = "ok" => s.fromseeds + s.store + s.inplace + FromSelf(e) >= e.k, "success, but the counters do not cover the index")
               \cup Flag(s.fromseeds = 0 => s.copied + s.cloned <= FromSelf(e) * e.maxchunk, "bytes copied/cloned from seeds although no seed was used")
             ELSE {})
TInit == l = 1 /\ bad = {}
TNext == l <= Len(Trace) /\ bad' = bad \cup Judge(Trace[l]) /\ l' = l + 1
TSpec == TInit /\ [][TNext]_<<l, bad>>
NoBad == bad = {}
Constr == TLCSet(1, l)
Accepted == TLCGet(1) = Len(Trace) + 1 \/ Len(Trace) = 0
=============================================================================
