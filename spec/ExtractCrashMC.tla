--------------------------- MODULE ExtractCrashMC ---------------------------
EXTENDS ExtractCrash
MCIdAt == [c \in 1..NPos |-> IF c = 4 THEN 1 ELSE c]        \* position 4 repeats the chunk of position 1
=============================================================================
