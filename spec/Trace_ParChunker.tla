------------------------- MODULE Trace_ParChunker -------------------------
(***************************************************************************)
(* Trace validation for C02 (and the IndexFromFile part of C07): events    *)
(* recorded from the real IndexFromFile under the gate scheduler are       *)
(* consumed by the actions of ParChunker.tla.  The instance (L, min, max,  *)
(* workers, boundary set, null-chunk positions) comes from the reset       *)
(* record and was computed from the real data by the independent rule      *)
(* oracle.  Value mismatches are collected in bad (invariant NoBad).       *)
(***************************************************************************)
EXTENDS Integers, Sequences, FiniteSets, TLC, Json

CONSTANTS TraceFile
Trace == ndJsonDeserialize(TraceFile)

VARIABLES P, bnd, nulls, cancelled, pos, bucket, pending, closed, active, eof, err, sync, nxt, pc, chunk, prev,
          zeroes, insync, nulltodo, mi, out, mres,
          l, bad, scen, ref, resok

PC == INSTANCE ParChunker

pvars == <<P, bnd, nulls, cancelled, pos, bucket, pending, closed, active, eof, err, sync, nxt, pc, chunk, prev,
           zeroes, insync, nulltodo, mi, out, mres>>
tvars == <<P, bnd, nulls, cancelled, pos, bucket, pending, closed, active, eof, err, sync, nxt, pc, chunk, prev,
           zeroes, insync, nulltodo, mi, out, mres, l, bad, scen, ref, resok>>

Ev == Trace[l]
IsEvent(e) == l <= Len(Trace) /\ Ev.ev = e /\ l' = l + 1
SeqToSet(s) == {s[k] : k \in 1..Len(s)}
WI(g) == CHOOSE i \in 0..63 : g = "w" \o ToString(i)
I == WI(Ev.g)
Flag(cond, what) == IF cond THEN {} ELSE {<<scen, l, what>>}
Keep == UNCHANGED <<scen, ref, resok>>

TInit == /\ TLCSet(1, 0) /\ TLCSet(2, <<>>)
         /\ P = [L |-> 0, Mn |-> 1, Mx |-> 1, NW |-> 1] /\ bnd = {} /\ nulls = {}
         /\ PC!InitWorkers
         /\ l = 1 /\ bad = {} /\ scen = 0 /\ ref = <<>> /\ resok = TRUE

TReset == /\ IsEvent("reset")
          /\ LET p == [L |-> Ev.L, Mn |-> Ev.Mn, Mx |-> Ev.Mx, NW |-> Ev.NW] IN
             /\ P' = p /\ bnd' = SeqToSet(Ev.bnd) /\ nulls' = SeqToSet(Ev.nulls)
             /\ PC!ResetWorkers(p)
             /\ ref' = PC!ChainP(p, SeqToSet(Ev.bnd), 0)
          /\ scen' = Ev.scen /\ resok' = TRUE /\ UNCHANGED bad

TTop == /\ IsEvent("pc.top") /\ (PC!Start(I) \/ PC!SkipTest(I)) /\ UNCHANGED bad /\ Keep
TSend == /\ IsEvent("pc.send")
         /\ \/ ~Ev.null /\ PC!Produce(I) /\ pc'[I] # "stopping"
            \/ Ev.null /\ (PC!NullFirst(I) \/ PC!NullNext(I))
         /\ bad' = bad \cup Flag(chunk'[I] = <<Ev.start, Ev.start + Ev.size>>, "chunk differs from the rolling-hash rule")
         /\ Keep
TPop == /\ IsEvent("pc.pop") /\ PC!Pop(I)
        /\ bad' = bad \cup Flag(Ev.from = nxt[I], "synchronising with the wrong neighbour")
                      \cup Flag(Ev.ok = (bucket[nxt[I]] # <<>>), "receive result differs from the bucket")
                      \cup Flag(Ev.ok => sync'[nxt[I]] = <<Ev.start, Ev.start + Ev.size>>, "popped chunk differs")
        /\ Keep
TCaughtUp == /\ IsEvent("pc.caughtup") /\ PC!CaughtUp(I)
             /\ bad' = bad \cup Flag(Ev.from = nxt[I], "synchronising with the wrong neighbour") /\ Keep
TNullRun == /\ IsEvent("pc.nullrun") /\ PC!NullRun(I)
            /\ bad' = bad \cup Flag(Ev.n = zeroes'[I], "null-run length differs") /\ Keep
TNPop == /\ IsEvent("pc.npop") /\ PC!NPop(I)
         /\ bad' = bad \cup Flag(Ev.ok = (bucket[nxt[I]] # <<>>), "receive result differs from the bucket") /\ Keep
TSynced == /\ IsEvent("pc.synced") /\ PC!Synced(I)
           /\ bad' = bad \cup Flag(Ev.insync = insync'[I], "in-sync decision differs")
                         \cup Flag(Ev.zeroes = zeroes'[I], "number of zero bytes differs")
           /\ Keep
TSkipCheck == /\ IsEvent("pc.skipcheck") /\ PC!ToSkip(I) /\ UNCHANGED bad /\ Keep
\* A worker leaves its loop.  Why it leaves (end of data, interruption, error) is the implementation's
\* business: the flags are taken from the log, and the property decides through the aggregator's result.
\* Only a claim the data contradicts is flagged: end-of-stream before the end of the data.
TStopping == /\ IsEvent("pc.stopping")
             /\ \/ /\ pc[I] = "top"
                   /\ eof' = [eof EXCEPT ![I] = Ev.eof] /\ err' = [err EXCEPT ![I] = Ev.err]
                   /\ pc' = [pc EXCEPT ![I] = "stopping"]
                   /\ UNCHANGED <<P, bnd, nulls, cancelled, pos, bucket, pending, closed, active, sync, nxt, chunk,
                                  prev, zeroes, insync, nulltodo, mi, out, mres>>
                   /\ bad' = bad \cup Flag(Ev.eof => pos[I] >= P.L, "end of stream reported before the end of the data")
                \/ /\ PC!InSyncStop(I)
                   /\ bad' = bad \cup Flag(~Ev.eof /\ ~Ev.err, "in-sync stop reports eof or error")
             /\ Keep
TStopped == /\ IsEvent("pc.stopped") /\ PC!Stop(I) /\ UNCHANGED bad /\ Keep
\* close(results) may be observed by the aggregator before the worker's pc.closed is logged
TClosed == /\ IsEvent("pc.closed")
           /\ \/ PC!Close(I)
              \/ pc[I] = "done" /\ UNCHANGED pvars
           /\ UNCHANGED bad /\ Keep
\* the aggregator may receive a chunk before its sender's next arrival is logged: Send, then MainTake
TAccept == /\ IsEvent("pc.accept")
           /\ \/ /\ PC!MainTake
                 /\ bad' = bad \cup Flag(Ev.w = mi, "aggregator reads another worker's bucket")
                      \cup Flag(Head(bucket[mi]) = <<Ev.start, Ev.start + Ev.size>>, "accepted chunk differs from the bucket")
              \/ /\ mres = "none" /\ bucket[mi] = <<>> /\ pending[mi]
                 /\ out' = Append(out, chunk[mi]) /\ pending' = [pending EXCEPT ![mi] = FALSE]
                 /\ UNCHANGED <<P, bnd, nulls, cancelled, pos, bucket, closed, active, eof, err, sync, nxt, pc, chunk,
                                prev, zeroes, insync, nulltodo, mi, mres>>
                 /\ bad' = bad \cup Flag(Ev.w = mi, "aggregator reads another worker's bucket")
                      \cup Flag(chunk[mi] = <<Ev.start, Ev.start + Ev.size>>, "accepted chunk differs from the bucket")
           /\ Keep
TDrainedCur == /\ \/ PC!MainDrained
                  \/ /\ ~closed[mi] /\ pc[mi] = "closing" /\ mres = "none" /\ bucket[mi] = <<>>
                     /\ closed' = [closed EXCEPT ![mi] = TRUE] /\ pc' = [pc EXCEPT ![mi] = "done"]
                     /\ IF err[mi] THEN mres' = "err" /\ UNCHANGED mi
                        ELSE IF eof[mi] \/ PC!AggNext(mi) = PC!NIL THEN mres' = "ok" /\ UNCHANGED mi
                        ELSE mi' = PC!AggNext(mi) /\ UNCHANGED mres
                     /\ UNCHANGED <<P, bnd, nulls, cancelled, pos, bucket, pending, active, eof, err, sync, nxt, chunk, prev,
                                    zeroes, insync, nulltodo, out>>
               /\ bad' = bad \cup Flag(Ev.w = mi, "aggregator drained another worker")
                             \cup Flag(Ev.eof = eof[mi], "eof flag differs") \cup Flag(Ev.err = err[mi], "error flag differs")
\* An aggregator that walks the workers in slice order also passes over followers the drained worker had skipped (finished,
\* bucket emptied by their predecessor).  Looking into such a bucket is harmless and not the specification's business; what the
\* loop makes of that worker's flags is: as found, it took the skipped worker's "end of file" for the end of the data
\* (finding F30) - the run then ends here, and Correct judges the index it returns.
TDrainedSkipped == /\ Ev.w # mi /\ Ev.w \in 0..(P.NW - 1) /\ mres = "none" /\ closed[Ev.w] /\ bucket[Ev.w] = <<>>
                   /\ mres' = IF Ev.err THEN "err" ELSE IF Ev.eof THEN "ok" ELSE mres
                   /\ UNCHANGED <<P, bnd, nulls, cancelled, pos, bucket, pending, closed, active, eof, err, sync, nxt, pc, chunk, prev,
                                  zeroes, insync, nulltodo, mi, out>>
                   /\ bad' = bad \cup Flag(Ev.eof = eof[Ev.w], "eof flag differs") \cup Flag(Ev.err = err[Ev.w], "error flag differs")
TDrained == /\ IsEvent("pc.drained")
            /\ IF Ev.w = mi \/ ~(Ev.w \in 0..(P.NW - 1)) \/ ~(closed[Ev.w] /\ bucket[Ev.w] = <<>>) THEN TDrainedCur ELSE TDrainedSkipped
            /\ Keep
TCancel == /\ IsEvent("cancel") /\ (PC!Cancel \/ (cancelled /\ UNCHANGED pvars) \/ (mres # "none" /\ UNCHANGED pvars))
           /\ UNCHANGED bad /\ Keep
\* what IndexFromFile returned
\* Success must deliver exactly the single-stream chunk sequence with correct IDs and parameters (C02),
\* also when the run was cancelled (C07); a failure is only acceptable for a cancelled run, and then it
\* must be the interruption error.
TResult == /\ IsEvent("result")
           /\ resok' = /\ (Ev.res = "ok") => (Ev.chunks = ref /\ Ev.idsok /\ Ev.paramsok)
                       /\ (Ev.res # "ok") => (cancelled /\ Ev.res = "interrupted")
           /\ UNCHANGED pvars /\ UNCHANGED <<bad, scen, ref>>
\* the single-stream Chunker read through a fragmenting reader: the emitted sequence is the rule's chain whatever the
\* fragmentation, the chunks are the input's bytes, and slices handed out earlier stay intact
TChunker == /\ IsEvent("chunker")
            /\ LET p == [L |-> Ev.L, Mn |-> Ev.Mn, Mx |-> Ev.Mx, NW |-> 1] IN
               bad' = bad \cup Flag(Ev.err = "nil", "Chunker.Next failed on a reader that does not fail")
                          \cup Flag(Ev.chunks = PC!ChainP(p, SeqToSet(Ev.bnd), 0), "single-stream chunk sequence differs from the rolling-hash rule")
                          \cup Flag(Ev.dataok, "chunk data differs from the input bytes")
                          \cup Flag(Ev.retainedok, "a chunk returned earlier was overwritten by a later call")
            /\ UNCHANGED pvars /\ UNCHANGED <<scen, ref, resok>>
\* bookkeeping records of the driver
TSkip == /\ (IsEvent("stragglers")) /\ UNCHANGED pvars /\ UNCHANGED <<bad, scen, ref, resok>>

TNext == TReset \/ TTop \/ TSend \/ TPop \/ TCaughtUp \/ TNullRun \/ TNPop \/ TSynced \/ TSkipCheck \/ TStopping
         \/ TStopped \/ TClosed \/ TAccept \/ TDrained \/ TCancel \/ TResult \/ TSkip \/ TChunker
TSpec == TInit /\ [][TNext]_tvars

\* ---- the property on the recorded behaviour
Correct == mres = "ok" => out = ref
PrefixOK == Len(out) <= Len(ref) /\ \A k \in 1..Len(out) : out[k] = ref[k]
PosOK == \A i \in 0..(P.NW - 1) : pos[i] <= P.L
ResultOK == resok
NoBad == bad = {}

Constr == TLCSet(1, IF TLCGet(1) < l THEN l ELSE TLCGet(1))
          /\ (IF TLCGet(1) = l THEN TLCSet(2, <<scen, l>>) ELSE TRUE)
Accepted == \/ TLCGet(1) = Len(Trace) + 1
            \/ PrintT(<<"REJECTED", TLCGet(1), Len(Trace), TLCGet(2)>>) /\ FALSE
=============================================================================
