-------------------------- MODULE Trace_SparseFile --------------------------
(* Trace validation for C10: every ReadAt on handles of the real SparseFile (and reads through the sparse mount's
   node), with save-state / restart / lost or resized cache file / pre-load in between and a changing set of
   failing chunk IDs, is judged by the oracle of SparseFile.tla (ReadAtOK). *)
EXTENDS Integers, Sequences, FiniteSets, TLC, Json
CONSTANTS TraceFile
Trace == ndJsonDeserialize(TraceFile)
VARIABLES ix, nullc, failing, surely, maybe, l, bad, scen,
          stale,      \* the state file on disk was written for an earlier incarnation of the cache file (the cache was
                      \* lost or resized afterwards and no state has been saved since)
          poisoned    \* ... and a later start found a cache file of the right size and may have applied that state
SF == INSTANCE SparseFile WITH Contents <- {}, NullC <- <<>>, MaxChunks <- 0, MaxOps <- 0, Offsets <- {}, Lengths <- {},
                               cache <- 0, done <- 0, saved <- 0, nops <- 0, last <- 0
tvars == <<ix, nullc, failing, surely, maybe, l, bad, scen, stale, poisoned>>
Ev == Trace[l]
IsEvent(e) == l <= Len(Trace) /\ Ev.ev = e /\ l' = l + 1
Flag(cond, what) == IF cond THEN {} ELSE {<<scen, l, what>>}
SeqToSet(s) == {s[k] : k \in 1..Len(s)}
TInit == /\ TLCSet(1, 0) /\ TLCSet(2, <<>>) /\ ix = <<>> /\ nullc = <<>> /\ failing = {} /\ surely = {} /\ maybe = {}
         /\ l = 1 /\ bad = {} /\ scen = 0 /\ stale = FALSE /\ poisoned = FALSE
TReset == /\ IsEvent("reset") /\ ix' = Ev.chunks /\ nullc' = Ev.nullc /\ failing' = {} /\ surely' = {} /\ maybe' = {}
          /\ scen' = Ev.scen /\ stale' = FALSE /\ poisoned' = FALSE /\ UNCHANGED bad
TFail == /\ IsEvent("failing") /\ failing' = SeqToSet(Ev.ids) /\ UNCHANGED <<ix, nullc, surely, maybe, bad, scen, stale, poisoned>>
\* Known finding F17: NewSparseFile trusts any state file whose cache file has the indexed size. If the cache file was
\* lost, recreated by a run that ended without saving its state, the next start applies the old state to the new,
\* empty cache file and serves zeros. A wrong read in that situation is reported as the known finding, anything else
\* as a violation.
ReadOK == SF!ReadAtOK(ix, Ev.off, Ev.m, Ev.n, Ev.data, Ev.err, failing, nullc, surely, maybe)
TRead == /\ IsEvent("read")
         /\ IF ReadOK THEN UNCHANGED bad
            ELSE IF poisoned THEN PrintT(<<"KNOWN", "F17-stale-state", scen, l>>) /\ UNCHANGED bad
            ELSE bad' = bad \cup {<<scen, l, "ReadAt result not allowed by the specification (wrong bytes, stale zeros, or a missing/spurious error)">>}
         /\ surely' = SF!SurelyAfter(ix, Ev.off, Ev.m, Ev.err, nullc, surely)
         /\ maybe' = SF!MaybeAfter(ix, Ev.off, Ev.m, Ev.err, failing, nullc, maybe)
         /\ UNCHANGED <<ix, nullc, failing, scen, stale, poisoned>>
\* concurrent readers: results arrive in completion order; which loads happened before is not known
TCRead == /\ IsEvent("cread")
          /\ bad' = bad \cup Flag(SF!ReadAtOK(ix, Ev.off, Ev.m, Ev.n, Ev.data, Ev.err, failing, nullc, {}, 1..Len(ix)),
                                  "concurrent ReadAt result not allowed by the specification")
          /\ UNCHANGED <<ix, nullc, failing, surely, maybe, scen, stale, poisoned>>
TSave == /\ IsEvent("save") /\ stale' = FALSE /\ UNCHANGED <<ix, nullc, failing, surely, maybe, bad, scen, poisoned>>
\* a new SparseFile object on the same files; kind says what happened to the cache file in between
TRestart == /\ IsEvent("restart")
            /\ CASE Ev.kind = "state" -> /\ maybe' = maybe \cup surely /\ surely' = {}
                 [] Ev.kind = "preload" -> /\ maybe' = 1..Len(ix) /\ surely' = {}
                 [] OTHER -> /\ maybe' = {} /\ surely' = {}        \* cache file lost or resized: nothing may be trusted
            /\ bad' = bad \cup Flag(Ev.ok, "NewSparseFile failed")
            /\ stale' = (IF Ev.kind \in {"lose", "resize", "preload"} THEN Ev.hadstate ELSE stale)
            /\ poisoned' = (IF Ev.kind = "state" THEN (poisoned \/ stale) ELSE FALSE)
            /\ UNCHANGED <<ix, nullc, failing, scen>>
TCrash == /\ IsEvent("panic") /\ bad' = bad \cup Flag(FALSE, "the sparse file code panicked")
          /\ UNCHANGED <<ix, nullc, failing, surely, maybe, scen, stale, poisoned>>
TNext == TReset \/ TFail \/ TRead \/ TCRead \/ TSave \/ TRestart \/ TCrash
TSpec == TInit /\ [][TNext]_tvars
NoBad == bad = {}
Constr == TLCSet(1, IF TLCGet(1) < l THEN l ELSE TLCGet(1)) /\ (IF TLCGet(1) = l THEN TLCSet(2, <<scen, l>>) ELSE TRUE)
Accepted == \/ TLCGet(1) = Len(Trace) + 1
            \/ PrintT(<<"REJECTED", TLCGet(1), Len(Trace), TLCGet(2)>>) /\ FALSE
=============================================================================
