---------------------------- MODULE Trace_Dedup ----------------------------
(***************************************************************************)
(* Trace validation for C12: events recorded from the real DedupQueue /    *)
(* WriteDedupQueue (hooks dq.*, gated fake upstream up.*, harness call/ret)*)
(* are consumed one per step by the actions of Dedup.tla.  Every invariant *)
(* of Dedup is evaluated in every state of the recorded behaviour.         *)
(* Many scenarios are concatenated in one file, separated by "reset".      *)
(***************************************************************************)
EXTENDS Integers, Sequences, FiniteSets, TLC, Json

CONSTANTS TraceFile
Trace == ndJsonDeserialize(TraceFile)

VARIABLES q, reqs, pc, call, myreq, res, ncalls, upflight, stale, l, bad, scen

Callers == {"c1", "c2", "c3", "c4", "c5", "c6", "c7", "c8"}
Ids == 1..8
Kinds == {"get", "has", "store"}
MaxCalls == 1000000
WriteQueue == TRUE

D == INSTANCE Dedup

tvars == <<q, reqs, pc, call, myreq, res, ncalls, upflight, stale, l, bad, scen>>

TInit == /\ TLCSet(1, 0) /\ TLCSet(2, <<>>)
         /\ D!Init /\ l = 1 /\ bad = {} /\ scen = 0

Ev == Trace[l]
IsEvent(e) == l <= Len(Trace) /\ Ev.ev = e /\ l' = l + 1
C == Ev.g

\* a new scenario: everything back to the initial state
TReset == /\ IsEvent("reset")
          /\ q' = [x \in Kinds \X Ids |-> 0] /\ reqs' = <<>>
          /\ pc' = [c \in Callers |-> "idle"] /\ call' = [c \in Callers |-> D!NoCall]
          /\ myreq' = [c \in Callers |-> 0] /\ res' = [c \in Callers |-> <<"none", 0>>]
          /\ ncalls' = [c \in Callers |-> 0] /\ upflight' = {} /\ stale' = [c \in Callers |-> {}]
          /\ scen' = Ev.scen /\ UNCHANGED bad

\* harness: the caller is about to call; via = "write" (WriteDedupQueue.GetChunk) or "plain"
TCall == /\ IsEvent("call")
         /\ D!Begin(C, Ev.kind, Ev.id)
         /\ pc'[C] = (IF Ev.kind = "get" /\ Ev.via = "write" THEN "peek" ELSE "los")
         /\ UNCHANGED <<bad, scen>>
\* Begin with WriteQueue = TRUE always goes to "peek" for a get; a get through the embedded plain
\* queue starts at "los" instead
TCallPlain == /\ IsEvent("call") /\ Ev.kind = "get" /\ Ev.via = "plain"
              /\ pc[C] = "idle"
              /\ call' = [call EXCEPT ![C] = [kind |-> "get", id |-> Ev.id]]
              /\ ncalls' = [ncalls EXCEPT ![C] = @ + 1]
              /\ stale' = [stale EXCEPT ![C] = D!Returned]
              /\ pc' = [pc EXCEPT ![C] = "los"]
              /\ myreq' = [myreq EXCEPT ![C] = 0] /\ res' = [res EXCEPT ![C] = <<"none", 0>>]
              /\ UNCHANGED <<q, reqs, upflight, bad, scen>>

Flag(cond, what) == IF cond THEN {} ELSE {<<scen, l, what>>}

TPeek == /\ IsEvent("dq.peek") /\ D!Peek(C)
         /\ bad' = bad \cup Flag(Ev.inflight = D!PeekInFlight(C), "peek flag differs from the store queue")
         /\ UNCHANGED scen
TLos == /\ IsEvent("dq.los") /\ Ev.kind = call[C].kind /\ Ev.id = call[C].id /\ D!LoadOrStore(C)
        /\ bad' = bad \cup Flag(Ev.inflight = D!LosInFlight(C), "loadOrStore flag differs from the queue")
        /\ UNCHANGED scen
TUpStart == /\ IsEvent("up.enter") /\ Ev.kind = call[C].kind /\ Ev.id = call[C].id /\ D!UpStart(C)
            /\ UNCHANGED <<bad, scen>>
TUpReturn == /\ IsEvent("up.exit") /\ D!UpReturn(C, Ev.out) /\ UNCHANGED <<bad, scen>>
TPublish == /\ IsEvent("dq.publish") /\ D!Publish(C) /\ UNCHANGED <<bad, scen>>
\* close(r.done) and the two hooks that follow it - "dq.done" in the leader, "dq.woke" in a waiter - are not ordered by any
\* lock: either may reach the recorder first. The close itself is therefore an internal step: when a waiter reports
\* that it woke while the leader has published but not yet logged "dq.done", the close is taken together with the wake-up
\* (TWokeEarly), and the leader's "dq.done" that follows finds the request closed already.
TClose == /\ IsEvent("dq.done")
          /\ \/ D!Close(C)
             \/ /\ pc[C] = "delete" /\ reqs[myreq[C]].done /\ reqs[myreq[C]].leader = C
                /\ UNCHANGED <<q, reqs, pc, call, myreq, res, ncalls, upflight, stale>>
          /\ UNCHANGED <<bad, scen>>
TWokeEarly == /\ IsEvent("dq.woke") /\ pc[C] = "wait" /\ ~reqs[myreq[C]].done
              /\ LET ld == reqs[myreq[C]].leader IN
                 /\ pc[ld] = "close" /\ myreq[ld] = myreq[C]
                 /\ reqs' = [reqs EXCEPT ![myreq[C]].done = TRUE]
                 /\ res' = [res EXCEPT ![C] = <<D!Taken(C), myreq[C]>>]
                 /\ pc' = [pc EXCEPT ![ld] = "delete", ![C] = "ret"]
              /\ UNCHANGED <<q, call, myreq, ncalls, upflight, stale, bad, scen>>
TDelete == /\ IsEvent("dq.del") /\ D!Delete(C) /\ UNCHANGED <<bad, scen>>
\* the follower announces that it is going to block on <-done: no state change
TWait == /\ IsEvent("dq.wait") /\ pc[C] = "wait"
         /\ UNCHANGED <<q, reqs, pc, call, myreq, res, ncalls, upflight, stale, bad, scen>>
TWoke == /\ IsEvent("dq.woke") /\ D!Woke(C) /\ UNCHANGED <<bad, scen>>
\* the call returned: compare what the real caller got with what the request holds
TReturn == /\ IsEvent("ret") /\ D!Return(C)
           /\ bad' = bad \cup Flag(Ev.res = res[C][1], "returned result differs from the request's result")
           /\ UNCHANGED scen
\* end of scenario marker written by the harness after all callers returned
TEnd == /\ IsEvent("end") /\ D!Quiescent
        /\ UNCHANGED <<q, reqs, pc, call, myreq, res, ncalls, upflight, stale, bad, scen>>

TNext == TReset \/ TCall \/ TCallPlain \/ TPeek \/ TLos \/ TUpStart \/ TUpReturn \/ TPublish \/ TClose
         \/ TDelete \/ TWait \/ TWoke \/ TWokeEarly \/ TReturn \/ TEnd

TSpec == TInit /\ [][TNext]_tvars

\* ---- the property on the recorded behaviour ----
AtMostOneUp == D!AtMostOneUp
ResultFresh == D!ResultFresh
ReadSeesWrite == D!ReadSeesWrite
NoBad == bad = {}

\* acceptance: the whole file was consumed (high-water mark of l; run with -workers 1)
Constr == TLCSet(1, IF TLCGet(1) < l THEN l ELSE TLCGet(1))
          /\ (IF TLCGet(1) = l THEN TLCSet(2, <<scen, l, pc>>) ELSE TRUE)
Accepted == \/ TLCGet(1) = Len(Trace) + 1
            \/ PrintT(<<"REJECTED", TLCGet(1), Len(Trace), TLCGet(2)>>) /\ FALSE
=============================================================================
