------------------------------- MODULE Dedup -------------------------------
(***************************************************************************)
(* Request de-duplication (dedupqueue.go, writededupqueue.go) -- C12.      *)
(*                                                                         *)
(* One action per code segment between two hook points of the real code:   *)
(*   Begin       the caller enters GetChunk/HasChunk/StoreChunk            *)
(*   Peek        WriteDedupQueue.GetChunk looks at the store queue         *)
(*   LoadOrStore queue.loadOrStore under the queue mutex                   *)
(*   UpStart/UpReturn   the leader's upstream call                         *)
(*   Publish     request.markDone: data and err are set                    *)
(*   Close       request.markDone: close(done)                             *)
(*   Delete      queue.delete                                              *)
(*   Woke        a follower's <-done returns                               *)
(*   Return      the call returns to the caller                            *)
(*                                                                         *)
(* A request's identity is its index in reqs. stale[c] is a monotone       *)
(* history set (the requests whose leader call had returned when c's call  *)
(* began); it replaces a clock and is hidden from the VIEW.                *)
(***************************************************************************)
EXTENDS Integers, Sequences, FiniteSets, TLC

CONSTANTS Callers,      \* set of caller ids
          Ids,          \* chunk ids
          Kinds,        \* subset of {"get","has","store"}
          MaxCalls,     \* calls per caller
          WriteQueue    \* TRUE: WriteDedupQueue (GetChunk peeks at the store queue first)

VARIABLES q,        \* [Kinds \X Ids -> request index or 0]   the three in-flight maps
          reqs,     \* sequence of request records
          pc, call, myreq, res, ncalls,
          upflight, \* set of <<kind, id, caller>>: upstream calls in flight
          stale     \* history: requests already returned when the caller's call began

vars == <<q, reqs, pc, call, myreq, res, ncalls, upflight, stale>>

NoReq == 0
NoCall == [kind |-> "none", id |-> 0]

\* upstream outcomes per kind
Outcomes(k) == CASE k = "get"   -> {"data", "missing", "error"}
                 [] k = "has"   -> {"true", "false", "error"}
                 [] k = "store" -> {"ok", "error"}

\* what a GetChunk that waited on a store request returns: the chunk being stored together with the
\* store's error (a non-nil error makes the call a failure for the caller)
GetFromStore(o) == IF o = "ok" THEN "data" ELSE "error"

Init == /\ q = [x \in Kinds \X Ids |-> NoReq]
        /\ reqs = <<>>
        /\ pc = [c \in Callers |-> "idle"]
        /\ call = [c \in Callers |-> NoCall]
        /\ myreq = [c \in Callers |-> NoReq]
        /\ res = [c \in Callers |-> <<"none", NoReq>>]
        /\ ncalls = [c \in Callers |-> 0]
        /\ upflight = {}
        /\ stale = [c \in Callers |-> {}]

Returned == {r \in 1..Len(reqs) : reqs[r].ret}

Begin(c, k, i) ==
  /\ pc[c] = "idle" /\ ncalls[c] < MaxCalls
  /\ call' = [call EXCEPT ![c] = [kind |-> k, id |-> i]]
  /\ ncalls' = [ncalls EXCEPT ![c] = @ + 1]
  /\ stale' = [stale EXCEPT ![c] = Returned]
  /\ pc' = [pc EXCEPT ![c] = IF WriteQueue /\ k = "get" THEN "peek" ELSE "los"]
  /\ myreq' = [myreq EXCEPT ![c] = NoReq]
  /\ res' = [res EXCEPT ![c] = <<"none", NoReq>>]
  /\ UNCHANGED <<q, reqs, upflight>>

\* WriteDedupQueue.GetChunk: is a store of the same chunk in flight?
PeekInFlight(c) == "store" \in Kinds /\ q[<<"store", call[c].id>>] # NoReq
Peek(c) ==
  /\ pc[c] = "peek"
  /\ IF PeekInFlight(c)
     THEN /\ myreq' = [myreq EXCEPT ![c] = q[<<"store", call[c].id>>]]
          /\ pc' = [pc EXCEPT ![c] = "wait"]
     ELSE /\ pc' = [pc EXCEPT ![c] = "los"] /\ UNCHANGED myreq
  /\ UNCHANGED <<q, reqs, call, res, ncalls, upflight, stale>>

LosInFlight(c) == q[<<call[c].kind, call[c].id>>] # NoReq
LoadOrStore(c) ==
  /\ pc[c] = "los"
  /\ LET x == <<call[c].kind, call[c].id>> IN
     IF q[x] # NoReq
     THEN /\ myreq' = [myreq EXCEPT ![c] = q[x]] /\ pc' = [pc EXCEPT ![c] = "wait"]
          /\ UNCHANGED <<q, reqs>>
     ELSE /\ reqs' = Append(reqs, [kind |-> call[c].kind, id |-> call[c].id, done |-> FALSE,
                                   res |-> "none", leader |-> c, ret |-> FALSE])
          /\ q' = [q EXCEPT ![x] = Len(reqs) + 1]
          /\ myreq' = [myreq EXCEPT ![c] = Len(reqs) + 1] /\ pc' = [pc EXCEPT ![c] = "callup"]
  /\ UNCHANGED <<call, res, ncalls, upflight, stale>>

UpStart(c) ==
  /\ pc[c] = "callup"
  /\ upflight' = upflight \cup {<<call[c].kind, call[c].id, c>>}
  /\ pc' = [pc EXCEPT ![c] = "inup"]
  /\ UNCHANGED <<q, reqs, call, myreq, res, ncalls, stale>>

UpReturn(c, o) ==
  /\ pc[c] = "inup" /\ o \in Outcomes(call[c].kind)
  /\ res' = [res EXCEPT ![c] = <<o, myreq[c]>>]
  /\ upflight' = upflight \ {<<call[c].kind, call[c].id, c>>}
  /\ pc' = [pc EXCEPT ![c] = "publish"]
  /\ UNCHANGED <<q, reqs, call, myreq, ncalls, stale>>

Publish(c) ==
  /\ pc[c] = "publish"
  /\ reqs' = [reqs EXCEPT ![myreq[c]].res = res[c][1]]
  /\ pc' = [pc EXCEPT ![c] = "close"]
  /\ UNCHANGED <<q, call, myreq, res, ncalls, upflight, stale>>

Close(c) ==
  /\ pc[c] = "close"
  /\ reqs' = [reqs EXCEPT ![myreq[c]].done = TRUE]
  /\ pc' = [pc EXCEPT ![c] = "delete"]
  /\ UNCHANGED <<q, call, myreq, res, ncalls, upflight, stale>>

Delete(c) ==
  /\ pc[c] = "delete"
  /\ q' = [q EXCEPT ![<<call[c].kind, call[c].id>>] = NoReq]
  /\ pc' = [pc EXCEPT ![c] = "ret"]
  /\ UNCHANGED <<reqs, call, myreq, res, ncalls, upflight, stale>>

\* the value a follower takes from the request it waited on
Taken(c) == LET r == reqs[myreq[c]] IN
            IF call[c].kind = "get" /\ r.kind = "store" THEN GetFromStore(r.res) ELSE r.res

Woke(c) ==
  /\ pc[c] = "wait" /\ reqs[myreq[c]].done
  /\ res' = [res EXCEPT ![c] = <<Taken(c), myreq[c]>>]
  /\ pc' = [pc EXCEPT ![c] = "ret"]
  /\ UNCHANGED <<q, reqs, call, myreq, ncalls, upflight, stale>>

Return(c) ==
  /\ pc[c] = "ret"
  /\ pc' = [pc EXCEPT ![c] = "idle"]
  /\ reqs' = IF reqs[myreq[c]].leader = c /\ ~reqs[myreq[c]].ret
             THEN [reqs EXCEPT ![myreq[c]].ret = TRUE] ELSE reqs
  /\ UNCHANGED <<q, call, myreq, res, ncalls, upflight, stale>>

Step(c) == \/ \E k \in Kinds, i \in Ids : Begin(c, k, i)
           \/ Peek(c) \/ LoadOrStore(c) \/ UpStart(c)
           \/ \E o \in {"data", "missing", "error", "true", "false", "ok"} : UpReturn(c, o)
           \/ Publish(c) \/ Close(c) \/ Delete(c) \/ Woke(c) \/ Return(c)

Next == \E c \in Callers : Step(c)

\* a caller that has started a call keeps going; starting a call is not forced
Progress(c) == Peek(c) \/ LoadOrStore(c) \/ UpStart(c)
               \/ (\E o \in {"data", "missing", "error", "true", "false", "ok"} : UpReturn(c, o))
               \/ Publish(c) \/ Close(c) \/ Delete(c) \/ Woke(c) \/ Return(c)

Spec == Init /\ [][Next]_vars /\ \A c \in Callers : WF_vars(Progress(c))

----------------------------------------------------------------------------
(* The property, clause by clause. *)

\* (3) at most one upstream request per chunk ID and kind in flight
AtMostOneUp == \A a, b \in upflight : (a[1] = b[1] /\ a[2] = b[2]) => a = b

\* (2)+(4) what a caller is about to return is the result of a request for its chunk whose leader call
\* had not returned when the caller's own call began, and it is that request's result
ResultOK(c) ==
  LET r == res[c][2] IN
  /\ r # NoReq /\ r \notin stale[c]
  /\ reqs[r].id = call[c].id
  /\ \/ reqs[r].kind = call[c].kind /\ res[c][1] = reqs[r].res
     \/ call[c].kind = "get" /\ reqs[r].kind = "store" /\ res[c][1] = GetFromStore(reqs[r].res)
  /\ reqs[r].res # "none"
ResultFresh == \A c \in Callers : pc[c] = "ret" => ResultOK(c)

\* (5) a read that finds a store of the same chunk in flight is served by that store request
ReadSeesWrite == \A c \in Callers :
   (pc[c] = "wait" /\ call[c].kind = "get" /\ reqs[myreq[c]].kind = "store") => reqs[myreq[c]].id = call[c].id

\* a follower is only ever attached to a request that is still in its queue or already complete
NoOrphanWait == \A c \in Callers : pc[c] = "wait" =>
   \/ reqs[myreq[c]].done
   \/ q[<<reqs[myreq[c]].kind, reqs[myreq[c]].id>>] = myreq[c]

\* (1) no lost wake-up: nobody is stuck while nothing can happen
Quiescent == \A c \in Callers : pc[c] = "idle"
NoStuck == (~ ENABLED Next) => Quiescent

\* (1) as liveness: every started call returns
AllReturn == \A c \in Callers : (pc[c] # "idle") ~> (pc[c] = "idle")

TypeOK == /\ \A c \in Callers : pc[c] \in {"idle", "peek", "los", "callup", "inup", "publish", "close",
                                           "delete", "wait", "ret"}
          /\ \A r \in 1..Len(reqs) : reqs[r].leader \in Callers

\* stale is history only
View == <<q, reqs, pc, call, myreq, res, ncalls, upflight, stale>>
=============================================================================
