------------------------- MODULE Trace_LocalStoreFS -------------------------
(* Trace validation for C16 and C20: store directories with chunks of both formats (valid and invalid), abandoned temporary
   files, junk and chunk-named files in foreign directories are handed to the real Prune / Verify; histories of two
   differently configured clients over one directory are replayed on real LocalStores; every record is judged by
   LocalStoreFS.tla. *)
EXTENDS Integers, Sequences, FiniteSets, TLC, Json
CONSTANTS TraceFile
Trace == ndJsonDeserialize(TraceFile)
VARIABLES l, bad
FS == INSTANCE LocalStoreFS WITH IdSet <- {}, x <- 0
Ev == Trace[l]
IsEvent(e) == l <= Len(Trace) /\ Ev.ev = e /\ l' = l + 1
Flag(cond, what) == IF cond THEN {} ELSE {<<l, what>>}
SeqToSet(s) == {s[k] : k \in 1..Len(s)}
TInit == TLCSet(1, 0) /\ TLCSet(2, <<>>) /\ l = 1 /\ bad = {}
TPrune == /\ IsEvent("prune")
          /\ bad' = bad \cup Flag(FS!PruneOK(SeqToSet(Ev.files), Ev.fmt, SeqToSet(Ev.keep), SeqToSet(Ev.removed), Ev.res),
                                  "prune removed something it must keep, or reported success with unreferenced chunks / temporary files left")
TVerify == /\ IsEvent("verify")
           /\ bad' = bad \cup Flag(FS!VerifyOK(SeqToSet(Ev.files), Ev.fmt, Ev.repair, SeqToSet(Ev.reported), SeqToSet(Ev.removed)),
                                   "verify reported or removed something other than exactly the invalid chunks of its own format")
\* C20: one step of a history on a shared directory; `expect` is computed by the harness from the model state it carries
\* (see TFormat in the specification of C20 below)
TFormat == /\ IsEvent("format")
           /\ bad' = bad \cup Flag(Ev.ok, Ev.what)
TNext == TPrune \/ TVerify \/ TFormat
TSpec == TInit /\ [][TNext]_<<l, bad>>
NoBad == bad = {}
Constr == TLCSet(1, IF TLCGet(1) < l THEN l ELSE TLCGet(1)) /\ (IF TLCGet(1) = l THEN TLCSet(2, <<0, l>>) ELSE TRUE)
Accepted == \/ TLCGet(1) = Len(Trace) + 1
            \/ PrintT(<<"REJECTED", TLCGet(1), Len(Trace), TLCGet(2)>>) /\ FALSE
=============================================================================
