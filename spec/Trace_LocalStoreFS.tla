------------------------- MODULE Trace_LocalStoreFS -------------------------
(* Trace validation for C16 and C20: store directories with chunks of both formats (valid and invalid), abandoned temporary
   files, junk and chunk-named files in foreign directories are handed to the real Prune / Verify; histories of two
   differently configured clients over one directory are replayed on real LocalStores; every record is judged by
   LocalStoreFS.tla. *)
EXTENDS Integers, Sequences, FiniteSets, TLC, Json
CONSTANTS TraceFile
Trace == ndJsonDeserialize(TraceFile)
VARIABLES l, bad, present
FS == INSTANCE LocalStoreFS WITH IdSet <- {}, x <- 0
Ev == Trace[l]
IsEvent(e) == l <= Len(Trace) /\ Ev.ev = e /\ l' = l + 1
Flag(cond, what) == IF cond THEN {} ELSE {<<l, what>>}
SeqToSet(s) == {s[k] : k \in 1..Len(s)}
TInit == TLCSet(1, 0) /\ TLCSet(2, <<>>) /\ l = 1 /\ bad = {} /\ present = {}
TPrune == /\ IsEvent("prune")
          /\ bad' = bad \cup Flag(FS!PruneOK(SeqToSet(Ev.files), Ev.fmt, SeqToSet(Ev.keep), SeqToSet(Ev.removed), Ev.res),
                                  "prune removed something it must keep, or reported success with unreferenced chunks / temporary files left")
TVerify == /\ IsEvent("verify")
           /\ bad' = bad \cup Flag(FS!VerifyOK(SeqToSet(Ev.files), Ev.fmt, Ev.repair, SeqToSet(Ev.reported), SeqToSet(Ev.removed)),
                                   "verify reported or removed something other than exactly the invalid chunks of its own format")
                         \* the command with many workers reporting at once: one line per invalid chunk, and it ends normally
                         \cup (IF "lines" \in DOMAIN Ev
                               THEN Flag(Ev.lines = Cardinality(SeqToSet(Ev.reported)) /\ Ev.exit = 0, "desync verify: not exactly one report line per invalid chunk, or the command failed")
                               ELSE {})
\* C20: histories of two differently configured clients (and an HTTP handler serving one format) over one directory
Listing(p) == {[id |-> x.id, fmt |-> x.fmt] : x \in p}
TFmtReset == /\ IsEvent("fmtreset") /\ present' = {} /\ UNCHANGED bad
TFmtOp == /\ IsEvent("fmtop")
          /\ LET r == FS!FmtOp(present, Ev.fmt, Ev.op, Ev.id) IN
             /\ present' = r.present
             /\ bad' = bad \cup Flag(Ev.res = r.res \/ (r.res = "invalid" /\ Ev.res = "error"), "operation of a client configured for one format answered differently than its own files warrant")
                           \cup Flag(SeqToSet(Ev.listing) = Listing(r.present) /\ Ev.stray = 0, "directory content after the operation differs (a file of the other format or a stray file was touched, or a name is not casync's)")
TFmtPrune == /\ IsEvent("fmtprune")
             /\ present' = FS!FmtPrune(present, Ev.fmt, SeqToSet(Ev.keep))
             /\ bad' = bad \cup Flag(SeqToSet(Ev.listing) = Listing(present') /\ Ev.stray = 0, "prune touched files of the other format or kept its own unreferenced ones")
TFmtVerify == /\ IsEvent("fmtverify")
              /\ LET r == FS!FmtVerify(present, Ev.fmt, Ev.repair) IN
                 /\ present' = r.present
                 /\ bad' = bad \cup Flag(SeqToSet(Ev.reported) = r.reported, "verify reported chunks of the other format or missed its own")
                               \cup Flag(SeqToSet(Ev.listing) = Listing(r.present) /\ Ev.stray = 0, "verify removed the wrong files")
\* a stored object: one standard zstd frame that decodes to the chunk (compressed) / the raw bytes (uncompressed);
\* decodable by the other zstd implementation; casync-written stores readable
TObject == /\ IsEvent("object") /\ bad' = bad \cup Flag(Ev.ok, Ev.what) /\ UNCHANGED present
TNext == (TPrune /\ UNCHANGED present) \/ (TVerify /\ UNCHANGED present) \/ TFmtReset \/ TFmtOp \/ TFmtPrune \/ TFmtVerify \/ TObject
TSpec == TInit /\ [][TNext]_<<l, bad, present>>
NoBad == bad = {}
Constr == TLCSet(1, IF TLCGet(1) < l THEN l ELSE TLCGet(1)) /\ (IF TLCGet(1) = l THEN TLCSet(2, <<0, l>>) ELSE TRUE)
Accepted == \/ TLCGet(1) = Len(Trace) + 1
            \/ PrintT(<<"REJECTED", TLCGet(1), Len(Trace), TLCGet(2)>>) /\ FALSE
=============================================================================
