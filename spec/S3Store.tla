------------------------------- MODULE S3Store -------------------------------
(***************************************************************************)
(* The S3 chunk store as a client of an object service (s3.go): what a     *)
(* caller must see for a sequence of server responses and a retry budget.  *)
(* Extends C14 (missing vs. failed, retries, data unchanged) to the S3     *)
(* transport; prune on S3 is judged by LocalStoreFS!PruneOK (C16).         *)
(*                                                                         *)
(* A response class per attempt: "ok" (the object, whose content is the    *)
(* chunk), "bad" (an object whose content does not hash to the ID),        *)
(* "nokey" (404 NoSuchKey), "denied" (403), "fail" (5xx or connection      *)
(* reset).  A script is the sequence of classes the server gives to        *)
(* successive attempts (the last one repeats).  R is the error-retry       *)
(* budget.  Out(...) is the SET of outcomes the caller may see: where the  *)
(* retry policy is the implementation's choice (retry a 404 or not) both   *)
(* are allowed; what is not allowed is data from a bad object when         *)
(* verifying, "missing" for anything but a 404, success for a failure, or  *)
(* more than R + 1 attempts.  Loop is the code.                            *)
(***************************************************************************)
EXTENDS Integers, Sequences, FiniteSets, TLC

Resp(script, i) == IF i <= Len(script) THEN script[i] ELSE script[Len(script)]
Classes == {"ok", "bad", "nokey", "denied", "fail"}

\* ---- required
RECURSIVE GetOut(_, _, _, _)
GetOut(script, R, verify, i) ==
  IF i > R + 1 THEN {}
  ELSE LET r == Resp(script, i) IN
       CASE r = "ok" -> {"data"}
         [] r = "bad" -> IF verify THEN {"invalid"} ELSE {"baddata"}
         [] r = "nokey" -> {"missing"} \cup (IF i <= R THEN GetOut(script, R, verify, i + 1) ELSE {})       \* retrying a 404 is allowed, not required
         [] OTHER -> IF i <= R THEN GetOut(script, R, verify, i + 1) ELSE {"error"}                        \* a transient failure within the budget must be retried
HasOut(script) == LET r == Resp(script, 1) IN
                  CASE r \in {"ok", "bad"} -> {"true"} [] r = "nokey" -> {"false"} [] OTHER -> {"error"}
RECURSIVE PutOut(_, _, _)
\* PUT responses: "ok" | "denied" | "fail"; at least one attempt, at most R + 1; giving up early is allowed for a store
PutOut(script, R, i) ==
  IF i > R + 1 THEN {}
  ELSE LET r == Resp(script, i) IN
       IF r = "ok" THEN {"ok"} ELSE {"error"} \cup PutOut(script, R, i + 1)

\* ---- the code
RECURSIVE GetLoop(_, _, _, _)
GetLoop(script, R, verify, i) ==
  LET r == Resp(script, i) IN
  IF r \in {"ok", "bad"} THEN [out |-> IF r = "ok" THEN "data" ELSE IF verify THEN "invalid" ELSE "baddata", attempts |-> i]
  ELSE IF i <= R THEN GetLoop(script, R, verify, i + 1)
  ELSE [out |-> IF r = "nokey" THEN "missing" ELSE "error", attempts |-> i]
HasLoop(script) == LET r == Resp(script, 1) IN [out |-> IF r \in {"ok", "bad"} THEN "true" ELSE "false", attempts |-> 1]   \* as coded: any error reads as "not there"
RECURSIVE PutLoop(_, _, _)
PutLoop(script, R, i) ==
  LET r == Resp(script, i) IN
  IF r = "ok" THEN [out |-> "ok", attempts |-> i]
  ELSE IF i < R THEN PutLoop(script, R, i + 1) ELSE [out |-> "error", attempts |-> i]

CONSTANTS MaxLen, Budgets
Scripts == UNION {[1..n -> Classes] : n \in 1..MaxLen}
PutScripts == UNION {[1..n -> {"ok", "denied", "fail"}] : n \in 1..MaxLen}
ASSUME \A s \in Scripts, R \in Budgets, v \in BOOLEAN : LET g == GetLoop(s, R, v, 1) IN g.out \in GetOut(s, R, v, 1) /\ g.attempts <= R + 1
ASSUME \A s \in PutScripts, R \in Budgets : LET p == PutLoop(s, R, 1) IN p.out \in PutOut(s, R, 1) /\ p.attempts <= R + 1
\* HasChunk as coded does NOT meet the requirement for failing responses (known finding F23): the theorem below is the
\* requirement restricted to the responses for which it holds, the witness configuration checks that the unrestricted one fails
CONSTANT HasStrict
ASSUME \A s \in Scripts : (HasStrict \/ Resp(s, 1) \notin {"denied", "fail"}) => HasLoop(s).out \in HasOut(s)
\* the statement's clauses follow from Out
ASSUME \A s \in Scripts, R \in Budgets, v \in BOOLEAN :
         /\ ("missing" \in GetOut(s, R, v, 1) => \E i \in 1..(R + 1) : Resp(s, i) = "nokey")
         /\ ("data" \in GetOut(s, R, v, 1) => \E i \in 1..(R + 1) : Resp(s, i) = "ok")
         /\ ((\A i \in 1..(R + 1) : Resp(s, i) \in {"denied", "fail"}) => GetOut(s, R, v, 1) = {"error"})
         /\ ((\E k \in 0..R : (\A i \in 1..k : Resp(s, i) = "fail") /\ Resp(s, k + 1) = "ok") => GetOut(s, R, v, 1) = {"data"})
VARIABLE x
Spec == x = 0 /\ [][UNCHANGED x]_x
=============================================================================
