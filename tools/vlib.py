"""Shared machinery of the /verif checks: building the harness against /repo's working tree, running TLC
(design-level model checking and trace validation), known-findings matching, evidence files."""
import json, os, re, shutil, subprocess, sys, time, hashlib

VERIF = os.path.dirname(os.path.dirname(os.path.abspath(__file__)))
REPO = os.environ.get("VERIF_REPO", "/repo")
BUILD = os.path.join(VERIF, ".build")
SPEC = os.path.join(VERIF, "spec")
HARNESS = os.path.join(VERIF, "harness")
EVID = os.path.join(VERIF, "evidence")
JAR = "/opt/veriftools/tla/tla2tools.jar:/opt/veriftools/tla/CommunityModules-deps.jar"

GOENV = dict(os.environ, GOFLAGS="-mod=mod", GOPROXY="off", GOSUMDB="off", GOTOOLCHAIN="local")


class Infra(Exception):
    """infrastructure failure: exit 2, never a violation"""


def log(*a):
    print(*a, flush=True)


class Hang(Exception):
    """A driver ended itself (exit status 4) because a call into the real code did not return, twice in a row at the same place."""


class Crash(Exception):
    """A driver died with a Go panic / fatal error whose innermost non-runtime frame is in /repo: the real code crashed."""


def _real_code_crash(text):
    m = re.search(r"^(panic:|fatal error:).*$", text, re.M)
    if not m:
        return None
    tail = text[m.start():]
    for fm in re.finditer(r"^\t(/\S+\.go):(\d+)", tail, re.M):
        f = fm.group(1)
        if "/go/src/" in f or "/golang" in f or "/veriftools/go" in f or f.startswith("/usr/"):   # runtime and standard library frames
            continue
        if f.startswith("/repo/"):
            return "%s at %s:%s" % (m.group(0)[:300], f, fm.group(2)), tail[:6000]
        return None                                                                                 # innermost frame is the harness's: not a verdict
    return None


def sh(cmd, cwd=None, env=None, timeout=None, check=True, capture=True, hang_ok=False):
    errfile = None
    if isinstance(cmd, str):
        m = re.search(r"2>(\S+)", cmd)
        if m and m.group(1) == "/dev/null":          # keep the noise out of stdout, but keep it: a crash of the real code must be seen
            errfile = os.path.join(BUILD, "work", "stderr-%d.txt" % os.getpid())
            os.makedirs(os.path.dirname(errfile), exist_ok=True)
            cmd = cmd.replace("2>/dev/null", "2>" + errfile)
        elif m:
            errfile = m.group(1)

    def once():
        return subprocess.run(cmd, cwd=cwd, env=env, timeout=timeout, shell=isinstance(cmd, str),
                              stdout=subprocess.PIPE if capture else None, stderr=subprocess.STDOUT if capture else None, text=True, errors="replace")
    p = once()
    if p.returncode not in (0, 4):
        text = p.stdout or ""
        if errfile and os.path.exists(errfile):
            text += open(errfile, errors="replace").read()
        c = _real_code_crash(text)
        if c:
            raise Crash(c[0] + "\n" + c[1])
    if p.returncode == 4 and not hang_ok:
        # the driver's watchdog fired (harness/trace): only a hang that happens again on a second run is a behaviour of the code
        first = (p.stdout or "")[-1500:]
        log("driver ended itself after a call that did not return; running it once more: %s" % first.strip()[-300:])
        p = once()
        if p.returncode == 4:
            raise Hang("the real code did not return from a call (driver watchdog, reproduced on a second run): %s\ncommand: %s" % ((p.stdout or first).strip()[-800:], cmd))
    if check and p.returncode != 0:
        raise Infra("command failed (%d): %s\n%s" % (p.returncode, cmd, (p.stdout or "")[-4000:]))
    return p


def workdir(pid):
    d = os.path.join(BUILD, "work", pid)
    shutil.rmtree(d, ignore_errors=True)
    os.makedirs(d)
    return d


_synced = False


def sync_harness():
    """go.sum must cover the repository's dependencies; the harness replaces the module with /repo."""
    global _synced
    if _synced:
        return
    os.makedirs(os.path.join(BUILD, "bin"), exist_ok=True)
    _synced = True


def go_build(cmd_name, tags="verif", out=None):
    """Builds harness/cmd/<cmd_name> against /repo's current working tree."""
    sync_harness()
    out = out or os.path.join(BUILD, "bin", cmd_name)
    t0 = time.time()
    p = sh(["go", "build", "-tags", tags, "-o", out, "./cmd/" + cmd_name], cwd=HARNESS, env=GOENV, check=False)
    if p.returncode != 0:
        raise Infra("harness build failed for %s:\n%s" % (cmd_name, p.stdout[-6000:]))
    return out


def build_desync(tags="verif", out=None):
    """Builds the desync CLI from /repo's working tree."""
    out = out or os.path.join(BUILD, "bin", "desync" + ("-" + tags.replace(",", "-") if tags else ""))
    os.makedirs(os.path.dirname(out), exist_ok=True)
    args = ["go", "build"] + (["-tags", tags] if tags else []) + ["-o", out, "./cmd/desync"]
    p = sh(args, cwd=REPO, env=GOENV, check=False)
    if p.returncode != 0:
        raise Infra("desync build failed:\n" + p.stdout[-6000:])
    return out


# ----------------------------------------------------------------------------------------- TLC

class TLCResult:
    def __init__(self):
        self.ok = False
        self.generated = 0
        self.distinct = 0
        self.depth = 0
        self.violated = None  # name of violated invariant / property
        self.rejected = None  # REJECTED tuple text of a trace spec
        self.error = None  # other TLC error text
        self.out = ""
        self.coverage = {}
        self.wall = 0.0
        self.printed = []  # PrintT lines


def tlc(module, cfg, work, workers=8, timeout=1800, simulate=None, depth_first=False, coverage=False,
        heap=None, extra=None, deadlock=None):
    """Runs TLC on spec/<module>.tla with config file cfg (absolute, or relative to spec/cfg)."""
    if not os.path.isabs(cfg):
        cfg = os.path.join(SPEC, "cfg", cfg)
    meta = os.path.join(work, "meta-%s-%d" % (module, int(time.time() * 1000) % 100000000))
    java = ["java", "-XX:+UseParallelGC", "-Xss64m"]
    if heap:
        java.append("-Xmx" + heap)
    if depth_first:
        java.append("-Dtlc2.tool.queue.IStateQueue=StateDeque")
    cmd = java + ["-cp", JAR, "tlc2.TLC", "-workers", str(workers), "-metadir", meta, "-config", cfg]
    if coverage:
        cmd += ["-coverage", "1"]
    if simulate:
        cmd += ["-simulate", simulate]
    if extra:
        cmd += extra
    cmd.append(os.path.join(SPEC, module + ".tla"))
    r = TLCResult()
    t0 = time.time()
    try:
        p = subprocess.run(cmd, cwd=SPEC, stdout=subprocess.PIPE, stderr=subprocess.STDOUT, text=True, timeout=timeout)
    except subprocess.TimeoutExpired as e:
        shutil.rmtree(meta, ignore_errors=True)
        raise Infra("TLC timed out after %ds on %s" % (timeout, module))
    r.wall = time.time() - t0
    r.out = p.stdout
    shutil.rmtree(meta, ignore_errors=True)
    for f in os.listdir(SPEC):
        if f.endswith("_TTrace_") or re.match(r".*_TTrace_\d+\.(tla|bin)$", f):
            try:
                os.remove(os.path.join(SPEC, f))
            except OSError:
                pass
    m = re.search(r"(\d+) states generated, (\d+) distinct states found", r.out)
    if m:
        r.generated, r.distinct = int(m.group(1)), int(m.group(2))
    m = re.search(r"depth of the complete state graph search is (\d+)", r.out)
    if m:
        r.depth = int(m.group(1))
    m = re.search(r"Error: Invariant (\S+) is violated", r.out)
    if m:
        r.violated = m.group(1)
    m = re.search(r"Error: Action property (\S+) is violated", r.out)
    if m:
        r.violated = m.group(1)
    if "Temporal properties were violated" in r.out:
        r.violated = r.violated or "temporal"
    m = re.search(r'<<\s*"REJECTED".*?(?=\nError:|\nFinished|\n\d+ states|\Z)', r.out, re.S)   # TLC wraps long tuples over several lines
    if m:
        r.rejected = re.sub(r"\s+", " ", m.group(0)).replace("<< ", "<<").replace(" >>", ">>")
    r.printed = [ln for ln in r.out.splitlines() if ln.startswith("<<") or ln.startswith('"')]
    if "Model checking completed. No error has been found." in r.out or (simulate and p.returncode == 0):
        r.ok = True
    elif r.violated is None and r.rejected is None:
        errs = [ln for ln in r.out.splitlines() if "rror" in ln]
        r.error = "\n".join(errs[:10]) or ("TLC exit %d" % p.returncode)
    if coverage:
        for m in re.finditer(r"^<(\w+) line (\d+), col \d+ to line \d+, col \d+ of module (\w+)>: (\d+):(\d+)", r.out, re.M):
            r.coverage[m.group(1)] = r.coverage.get(m.group(1), 0) + int(m.group(5))
    return r


def tlc_design(module, cfg, work, required_actions=None, **kw):
    """Design-level run: must complete without error (a counterexample on the specification alone is an
    infrastructure problem of this framework, not a verdict about the code)."""
    r = tlc(module, cfg, work, **kw)
    if not r.ok:
        raise Infra("design-level TLC run of %s/%s did not pass: violated=%s error=%s\n%s" % (
            module, cfg, r.violated, r.error, r.out[-3000:]))
    if required_actions:
        zero = [a for a in required_actions if r.coverage.get(a, 0) == 0]
        if zero:
            raise Infra("vacuous design-level run of %s: actions never taken: %s" % (module, zero))
    return r


def write_cfg(path, text):
    with open(path, "w") as f:
        f.write(text)
    return path


def validate_trace(module, cfg_text, trace_file, work, timeout=1800, depth_first=False):
    """Validates one NDJSON file (possibly many scenarios) against a Trace_* spec.
    Returns (TLCResult, info) where info describes a rejection: kind in {None,'invariant','rejected'}."""
    cfg = os.path.join(work, module + ".cfg")
    write_cfg(cfg, cfg_text.replace("@TRACE@", trace_file))
    r = tlc(module, cfg, work, workers=1, timeout=timeout, depth_first=depth_first)
    info = {"kind": None}
    if r.ok:
        return r, info
    if r.violated:
        info["kind"] = "invariant"
        info["invariant"] = r.violated
        # position in the trace: last value of l in the printed counterexample
        ls = re.findall(r"^/\\ l = (\d+)", r.out, re.M)
        if ls:
            info["line"] = int(ls[-1]) - 1
        sc = re.findall(r"^/\\ scen = (\d+)", r.out, re.M)
        if sc:
            info["scen"] = int(sc[-1])
        bad = re.findall(r"^/\\ bad = (.*(?:\n(?!/\\ |\n|State |Error).*)*)", r.out, re.M)
        if bad:
            info["bad"] = " ".join(bad[-1].split())
        return r, info
    if r.rejected:
        info["kind"] = "rejected"
        info["detail"] = r.rejected
        m = re.search(r'<<"REJECTED", (\d+), (\d+), <<(\d+), (\d+)', r.rejected)
        if m:
            info["line"] = int(m.group(1))
            info["scen"] = int(m.group(3))
        return r, info
    raise Infra("trace validation of %s failed to run: %s\n%s" % (module, r.error, r.out[-3000:]))


def read_ndjson(path):
    out = []
    with open(path) as f:
        for ln in f:
            ln = ln.strip()
            if ln:
                out.append(json.loads(ln))
    return out


def split_scenarios(events, key="reset"):
    """Splits a concatenated trace into scenarios (lists of events, including the reset record)."""
    scs, cur = [], None
    for e in events:
        if e.get("ev") == key:
            if cur is not None:
                scs.append(cur)
            cur = [e]
        elif cur is not None:
            cur.append(e)
    if cur is not None:
        scs.append(cur)
    return scs


def write_ndjson(path, recs):
    with open(path, "w") as f:
        for r in recs:
            f.write(json.dumps(r, sort_keys=True) + "\n")


# ----------------------------------------------------------------------------------------- findings / evidence

def known_findings():
    p = os.path.join(VERIF, "known_findings.json")
    if not os.path.exists(p):
        return []
    return json.load(open(p))


def match_known(pid, signature):
    """signature: dict; a known finding matches if every key of its signature equals the given one."""
    for k in known_findings():
        if k.get("status") != "known" or k.get("property") != pid:
            continue
        sig = k.get("signature", {})
        if all(signature.get(a) == b for a, b in sig.items()):
            return k
    return None


class Report:
    """Collects the outcome of one check run and writes the evidence file."""

    def __init__(self, pid, tier, seed, level="model_checking"):
        self.pid, self.tier, self.seed, self.level = pid, tier, seed, level
        self.t0 = time.time()
        self.states = 0
        self.transitions = 0
        self.traces = 0
        self.evaluations = 0
        self.cases = set()
        self.samples = []
        self.violations = []  # (description, replay path)
        self.known = []  # lines
        self.assumptions = []
        self.trusted = []
        self.extra = {}
        self.rule = ""
        self.tlc_runs = []
        self.exhaustive = False

    def add_tlc(self, name, r):
        self.states += r.distinct
        self.transitions += r.generated
        self.tlc_runs.append({"run": name, "distinct_states": r.distinct, "states_generated": r.generated,
                              "depth": r.depth, "wall_s": round(r.wall, 1),
                              "coverage": r.coverage if r.coverage else None})

    def case(self, canonical, nontrivial=True):
        self.evaluations += 1
        if nontrivial:
            self.cases.add(hashlib.sha1(json.dumps(canonical, sort_keys=True).encode()).hexdigest())

    def sample(self, s, limit=5):
        if len(self.samples) < limit:
            self.samples.append(s)

    def violation(self, what, replay_obj):
        os.makedirs(os.path.join(EVID, "replays"), exist_ok=True)
        path = os.path.join(EVID, "replays", "%s-%d.json" % (self.pid, len(self.violations) + 1))
        with open(path, "w") as f:
            json.dump({"property": self.pid, "what": what, "replay": replay_obj}, f, indent=1, default=str)
        self.violations.append((what, path))
        log("VIOLATION property=%s replay=%s" % (self.pid, path))
        log("  " + what[:2000])

    def known_finding(self, k):
        line = "KNOWN-FINDING: property=%s %s" % (k.get("property", self.pid), k["what"])
        if line not in self.known:
            self.known.append(line)
            log(line)

    def finish(self):
        ev = {
            "property_id": self.pid, "tier": self.tier, "seed": self.seed, "level": self.level,
            "coverage": {
                "states": self.states, "transitions": self.transitions,
                "traces_validated_against_impl": self.traces,
                "evaluations": max(self.evaluations, 0), "distinct_nontrivial": len(self.cases),
                "rule": self.rule, "samples": self.samples or ["(none)"],
                "trusted_base": self.trusted, "exhaustive": self.exhaustive,
                "tlc_runs": self.tlc_runs,
            },
            "assumptions": self.assumptions,
            "wall_s": round(time.time() - self.t0, 1),
            "violations": len(self.violations),
        }
        ev["coverage"].update(self.extra)
        if self.known:
            ev["coverage"]["known_findings_reported"] = self.known
        # checks outside the property list (X..) keep their evidence apart from the per-property files
        edir = os.path.join(EVID, "extra") if self.pid.startswith("X") else EVID
        os.makedirs(edir, exist_ok=True)
        with open(os.path.join(edir, self.pid + ".json"), "w") as f:
            json.dump(ev, f, indent=1, default=str)
        return 1 if self.violations else 0
