#!/bin/bash
# usage: tools/confirm_seed.sh <seed dir (patch.diff, demo_test.go, notes.md)> <id> <property>
# Confirms in a scratch worktree: patch applies, builds, existing suite passes (except TestMountIndex), the
# demo fails with the change and passes without. On success copies the seed to /verif/seeded/<id>/.
set -u
SD="$1"; ID="$2"; PROP="$3"
export GOFLAGS=-mod=mod GOPROXY=off GOSUMDB=off GOTOOLCHAIN=local
WT=/tmp/confirm-$ID
git -C /repo worktree remove --force $WT >/dev/null 2>&1
git -C /repo worktree add -q --detach $WT HEAD || exit 3
cd $WT
DEMO=$(ls $SD/*_test.go 2>/dev/null | head -1)
DEST=.
grep -q '^package main' "$DEMO" && DEST=cmd/desync
res() { echo "$ID: $1"; cd /; git -C /repo worktree remove --force $WT; exit $2; }
git apply --3way $SD/patch.diff >/dev/null 2>&1 || res "patch does not apply" 1
git reset -q
go build ./... || res "does not build" 1
go test -vet=off -count=1 -timeout 25m ./... 2>&1 | grep -E '^(--- FAIL|FAIL|ok)' > /tmp/confirm-$ID.suite
if grep '^--- FAIL' /tmp/confirm-$ID.suite | grep -v TestMountIndex | grep -q .; then res "suite fails with change: $(grep '^--- FAIL' /tmp/confirm-$ID.suite | tr '\n' ' ')" 1; fi
cp $DEMO $DEST/zz_demo_test.go
TAGS=""
grep -q '^//go:build.*verif' $DEST/zz_demo_test.go && TAGS="-tags verif"
RUN=$(grep -o 'func Test[A-Za-z0-9_]*' $DEST/zz_demo_test.go | sed 's/func //' | tr '\n' '|' | sed 's/|$//')
( cd $DEST && timeout 600 go test $TAGS -vet=off -count=1 -timeout 300s -run "^($RUN)\$" . > /tmp/confirm-$ID.with 2>&1 ); RCW=$?
git checkout -q HEAD -- . 
( cd $DEST && timeout 600 go test $TAGS -vet=off -count=1 -timeout 300s -run "^($RUN)\$" . > /tmp/confirm-$ID.without 2>&1 ); RCO=$?
if [ $RCW -eq 0 ]; then res "demo PASSES with the change (rc=$RCW)" 1; fi
if [ $RCO -ne 0 ]; then res "demo FAILS without the change (rc=$RCO)" 1; fi
mkdir -p /verif/seeded/$ID
cp $SD/patch.diff /verif/seeded/$ID/patch.diff
cp $DEMO /verif/seeded/$ID/demo_test.go
cp $SD/notes.md /verif/seeded/$ID/notes.md 2>/dev/null
cat > /verif/seeded/$ID/meta.json <<EOM
{"id": "$ID", "property": "$PROP", "demo_dir": "$DEST", "demo_tests": "$RUN",
 "confirmed": {"suite_passes_with_change_except_TestMountIndex": true, "demo_fails_with_change": true, "demo_passes_without_change": true},
 "ran": ["git apply --3way patch.diff", "go build ./...", "go test -vet=off -count=1 ./...", "go test -run '^($RUN)\$' (with and without the change)"],
 "needs": "see notes.md"}
EOM
res "confirmed" 0
