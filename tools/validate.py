#!/opt/veriftools/pyvenv/bin/python
import json, sys, glob, jsonschema
ok = True
try:
    jsonschema.validate(json.load(open('/verif/MANIFEST.json')), json.load(open('/root/.vp/MANIFEST.schema.json')))
except Exception as e:
    ok = False; print("MANIFEST invalid:", str(e)[:500])
es = json.load(open('/root/.vp/EVIDENCE.schema.json'))
for f in sorted(glob.glob('/verif/evidence/C*.json')):
    try:
        jsonschema.validate(json.load(open(f)), es)
    except Exception as e:
        ok = False; print(f, "invalid:", str(e)[:500])
print("valid" if ok else "INVALID")
sys.exit(0 if ok else 1)
