#!/bin/bash
# usage: tools/matrix.sh [out.tsv]  -- runs every seeded change against the check of its property (quick tier) and records the verdict.
# Applies each patch to /repo, runs the check, reverts. /repo must be clean. Not a registered check: a development aid.
OUT=${1:-/verif/seeded/RESULTS.tsv}
cd /verif
: > $OUT.tmp
for d in seeded/${FILTER:-*}/; do
  id=$(basename $d)
  [ -f $d/meta.json ] || continue
  prop=$(python3 -c "import json;print(json.load(open('$d/meta.json'))['property'])")
  p=/verif/$d/patch.diff; [ -f /verif/$d/patch_ported_to_fixed_tree.diff ] && p=/verif/$d/patch_ported_to_fixed_tree.diff
  for chk in $prop ${EXTRA_CHECKS:-}; do
    res=$(timeout 1800 tools/mutant.sh $p $chk 2>&1)
    rc=$(echo "$res" | grep -o 'exit=[0-9]*' | tail -1)
    what=$(echo "$res" | grep -A1 '^VIOLATION' | tail -1 | cut -c1-200 | tr '\t' ' ')
    [ -z "$rc" ] && rc="$(echo "$res" | tail -1)"
    printf '%s\t%s\t%s\t%s\t%s\n' "$id" "$chk" "$(basename $p)" "$rc" "$what" >> $OUT.tmp
    echo "$id $chk $rc"
  done
done
mv $OUT.tmp $OUT
