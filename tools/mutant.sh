#!/bin/sh
# usage: tools/mutant.sh <patch> <check id> [tier]   -- applies a seeded change to /repo, runs the check, reverts.
set -u
P="$1"; ID="$2"; TIER="${3:-quick}"
cd /verif
if [ -n "$(git -C /repo status --porcelain)" ]; then echo "repo not clean"; exit 3; fi
git -C /repo apply --3way "$P" >/dev/null 2>&1 || { echo "patch does not apply"; git -C /repo checkout -q HEAD -- . ; exit 3; }
git -C /repo reset -q
./check "$ID" --tier "$TIER" > .build/mutant.out 2>&1; RC=$?
git -C /repo checkout -q HEAD -- .
git -C /repo status --porcelain
grep -v '^design' .build/mutant.out | cut -c1-600 | head -${LINES_OUT:-6}
echo "exit=$RC"
