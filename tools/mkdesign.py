#!/usr/bin/env python3
"""Rebuilds section 10 of DESIGN.md from tools/design_sec10.template.md (@@MATRIX@@ = the round-1 table from seeded/RESULTS.tsv)."""
import json
s = open('/verif/tools/design_sec10.template.md').read()
rows = [l.rstrip('\n').split('\t') for l in open('/verif/seeded/RESULTS.tsv')]
tbl = ["| Change | Prop. | What was changed (sub-agent's title) | Patch | Quick check of the property |", "|---|---|---|---|---|"]
for r in rows:
    m = json.load(open('/verif/seeded/%s/meta.json' % r[0]))
    title = m.get('title', r[0]).replace('|', '/')
    title = title.split(' - ', 1)[-1].split(' — ', 1)[-1][:110]
    verdict = {'exit=1': '**caught**', 'exit=0': 'not reported (see below)'}.get(r[3], r[3])
    what = r[4].strip().replace('|', '/')[:120]
    tbl.append("| %s | %s | %s | %s | %s%s |" % (r[0], r[1], title, 'ported' if 'ported' in r[2] else 'as written', verdict, (': ' + what) if what and r[3] == 'exit=1' else ''))
sec = s.replace('@@MATRIX@@', '\n'.join(tbl))
d = open('/verif/DESIGN.md').read()
marker = '## Appendix A — prototype'
i = d.index('## 10. As built'); j = d.index(marker)
d = d[:i] + sec + '\n---------------------------------------------------------------------------------------------------\n\n' + d[j:]
open('/verif/DESIGN.md', 'w').write(d)
