#!/usr/bin/env python3
"""Generates /verif/MANIFEST.json from the table below (one entry per claimed property)."""
import json, os, subprocess
V = os.path.dirname(os.path.dirname(os.path.abspath(__file__)))

CLAIMED = {
 "C12": dict(
   text="TLC explores every interleaving of the de-duplication protocol (Dedup.tla: 2-3 callers, get/has/store, 1-2 ids) "
        "against the property's clauses as invariants plus liveness; TLC-generated behaviours are replayed on the real "
        "WriteDedupQueue through a gate scheduler and traces of the real code under random/PCT schedules are validated "
        "by Trace_Dedup.tla with every invariant evaluated at every step; a caller that never returns is detected as a hang. The real `chunk-server --store-file` is run in front of a slow counting upstream: bursts before and after SIGHUP reloads and requests that straddle one.",
   note="Trusts the gate scheduler's serialisation (hooks dq.* under build tag verif), SHA of chunk data as identity, and "
        "that upstream calls return. Bounded: <=3 callers exhaustively, <=6 callers sampled.",
   technique="TLA+ spec + TLC model checking; trace validation and behaviour replay via hook-gated scheduler",
   design="4/C12"),
 "C02": dict(
   text="ParChunker.tla models IndexFromFile segment by segment (every segment between two hook points performs at most one shared "
        "operation); TLC explores all boundary sets x zero intervals of small files x all interleavings x cancellation and checks that the "
        "aggregated index equals the single-stream chain of the rolling-hash rule. The real IndexFromFile runs under a gate scheduler "
        "on generated files; the instance (boundary and null positions) is computed by an independent implementation of the rule and "
        "Trace_ParChunker.tla validates every event, every chunk and the returned index (IDs, sizes, parameters). The real `desync make` with 1/3/8 workers is compared with the library's single-stream chunk table (CliOutcome.tla). `desync chunk -S` is compared with the library chunker from that offset. Every run starts with a pinned 1009-byte instance (finding F30: a worker that skips a finished follower) under a followers-first schedule; the aggregator in the specification follows the worker's next pointer.",
   note="Trusts the independent buzhash/rule oracle (cross-checked with the casync fixture) and SHA512/256 as leaves; read fragmentation of "
        "the single-stream Chunker is covered by the Chunker driver when listed in the evidence.",
   technique="TLA+ spec + TLC model checking; trace validation of the hook-instrumented implementation under randomised/PCT schedules",
   design="4/C02"),
 "C06": dict(
   text="PipelineMC.tla (feeder/worker/errgroup skeleton with the ChunkStorage and Copy disciplines) is explored exhaustively over all "
        "interleavings and all fault plans with <=2-3 failing store calls; the real ChopFile/Copy/ChunkStream run over a gated "
        "fault-injecting store for every single-fault plan of small inputs and the traces are validated by Trace_Pipeline.tla, with the "
        "real store read back after every run. The real chop/make/tar -i/cache run against an HTTP store that fails one URL persistently and against local stores under a file-size limit; exit 0 must mean a complete store (CliOutcome.tla); for chop --ignore / --ignore-chunks: every chunk that is not listed as ignored.",
   note="Library entry points stand for the make/chop/cache/tar -i commands; the target store's pre-existing content is assumed valid.",
   technique="TLA+ spec + TLC model checking; trace validation with fault injection at every store call",
   design="4/C06"),
 "C07": dict(
   text="The same pipeline and parallel-chunker specifications with Cancel enabled in every state; the real entry points are cancelled at "
        "every recorded event of small runs and the traces validated: success is only accepted when all work is complete. Commands under SIGINT/SIGTERM include `tar -i` reading a tar stream from a FIFO (signal before the stream or between members) and extract onto a destination name too long for a temporary file.",
   note="Covers the library entry points listed in the evidence (coverage.entry_points); CLI signal delivery is a thin wrapper around context cancellation.",
   technique="TLA+ spec + TLC model checking; trace validation with cancellation at every hook point",
   design="4/C07"),
 "C17": dict(
   text="VerifyIndex.tla: TLC evaluates the batch arithmetic for every K<=120 (700 thorough) and n<=64 (batches partition the index); the real "
        "VerifyIndex is run on blobs with a single altered byte, swapped chunks, truncation and extension and its verdict compared with the "
        "specification's; the batches actually fed must cover every index entry. Blobs contain runs of identical consecutive chunks; the real `desync verify-index` is run on equal/altered/truncated/extended files (CliOutcome.tla). The empty blob's index is verified for every worker count.",
   note="SHA512/256 decides which ranges match (leaf).",
   technique="TLA+ spec evaluated by TLC; trace validation of the real verdict and batches",
   design="4/C17"),
 "C01": dict(
   text="Assemble.tla (chunk-level model of plan / validate / bail-skip-regenerate / seed copy + re-hash / self-seed / in-place reuse with a seed "
        "that may alias the target or change under the copy) is explored exhaustively for all indexes, prior contents and seed indexes of 3-4 "
        "chunks and 2-3 workers. The real AssembleFile runs under a gate scheduler on generated scenarios (all seed kinds, prior contents, "
        "actions, worker counts, emulated block cloning with chunk sizes below and above the block size); after every worker step the "
        "whole target file is read back and Trace_Assemble.tla checks frame condition, self-seed invariant, plan well-formedness, the "
        "verdict and the promised success. Panics and hangs of the real code are violations. The command glue is bound by running the real `desync extract` (seeds, seed directories, stale/deleted seeds, invalid-seed modes, in-place targets) and judging exit status and output by CliOutcome.tla. The index being extracted may lie in the seed directory, under four spellings of the two paths.",
   note="FICLONERANGE is emulated in-process (generic VFS remap rules); SHA512/256 is a leaf; block devices out of scope.",
   technique="TLA+ spec + TLC model checking; trace validation with per-step state read-back under randomised/PCT schedules",
   design="4/C01"),
 "C09": dict(
   text="ReadSeeker.tla states the property as an oracle over observable results (SeekOK/ReadOK) and models IndexPos and the mount "
        "handle structurally; TLC checks that every result of the model satisfies the oracle for all small indexes, op sequences and "
        "failing-ID sets. Random op sequences on the real IndexPos and the real mount file handle (also concurrent requests on one "
        "handle over a gated store) are recorded and every result is judged by the same oracle (Trace_ReadSeeker.tla). The real `desync cat` with offsets and lengths is compared with the blob (CliOutcome.tla). `cat` into a file, from stores with a missing, garbage or foreign chunk object, and under every progress setting is part of it.",
   note="No kernel FUSE mount is possible in the sandbox: the node's handle read function is called directly. Well-formed indexes assumed.",
   technique="TLA+ spec (property oracle + implementation-shaped model) checked by TLC; trace validation of recorded calls",
   design="4/C09"),
 "C10": dict(
   text="SparseFile.tla states the property as an oracle (ReadAtOK with the minimal history of surely/possibly loaded chunks) and models the "
        "loader structurally (need set, load, cache write, done bit, save-state, restart, lost cache); TLC checks the model against the oracle for "
        "all small indexes, reads and failure patterns. The real SparseFile is driven through handles and the mount node with failing-ID "
        "changes, save-state, restarts with matching/lost/resized cache files and pre-load, and concurrent readers under a gate scheduler "
        "(gates at the store call, before the cache write, before the done bit); every result is judged by the oracle.",
   note="One deviation of the unchanged code is recorded as known finding F17-stale-state and reported as such; errors are accepted whenever the store is failing.",
   technique="TLA+ spec (property oracle + implementation-shaped model) checked by TLC; trace validation incl. scheduled concurrent readers",
   design="4/C10"),
 "C11": dict(
   text="StoreChain.tla is an executable reference model of the documented routing / caching / repair / failover policy; TLC checks over every "
        "chain shape on three members and every content and health pattern that the model has the documented properties. Random chains of the real "
        "wrappers over fault-injecting members (in-memory and real LocalStores with corrupted files) run random histories; result class, members "
        "called and member contents after every operation are compared with the model. Swap under load and concurrent failover run under the gate scheduler. Failover groups with all members but one failing run under the gate scheduler (hook after the switch). The chain the command line builds (`-s a -s b`, `a|b`, `-c`, `--cache-repair`, local and HTTP) is exercised with the real binary (CliOutcome.tla). Members that answer 403/401, serve wrong objects or hold a damaged file are part of the failover families.",
   note="Failover-group members are assumed to hold the same chunks (documented precondition). Chains built from CLI location strings are covered through the wrapper constructors they call.",
   technique="TLA+ reference model checked by TLC; trace validation of random histories; scheduled concurrent scenarios",
   design="4/C11"),
 "C03": dict(
   text="NoBadDelivery is an invariant of the store-chain reference model (TLC, all small chains) and Stores.tla states the delivery rule per corruption "
        "class. Nine corruption classes of the stored object are applied behind real backends (LocalStore, RemoteHTTP + real handler, casync protocol "
        "with the real server and a raw peer), with verification on/off, through every wrapper, read twice, before or after an intact read; consumers "
        "(AssembleFile, IndexPos, SparseFile) run over the poisoned store; every record is judged by the specification. The de-duplication and sparse-file clauses, which are about interleavings, are decided by including the C12 (Dedup.tla, gate scheduler) and C10 (SparseFile.tla, gated loader, transient failures) machinery. Every backend - local, HTTP, casync protocol and S3 (in-memory endpoint) - is also probed for chunks that a caller holds while the store delivers others.",
   note="S3/SFTP/GCS backends are not exercised offline; zstd and SHA are executed leaves.",
   technique="TLA+ reference model checked by TLC; trace validation of corruption probes on real backends",
   design="4/C03"),
 "C04": dict(
   text="IndexCodec.tla defines the caibx layout (Encode) and the reader as a state machine with its reject transitions (Decode) over field tokens; TLC "
        "proves round trip, rejection of every strict prefix, of oversize chunks and of digest mismatch, and canonicity under every single-token "
        "substitution for all indexes with <= 3-4 chunks. Files written by the real WriteTo are tokenised independently and must equal Encode; valid, "
        "truncated, substituted and digest-mismatched files go through IndexFromReader (incl. fragmenting readers), LocalIndexStore, RemoteHTTPIndex + "
        "real handler and PUT, and verdict and table must be Decode's; casync fixtures must re-encode byte-identically. Writers that accept only part of the file must make WriteTo / StoreIndex fail (TWFault); an index written to standard output by the real `make -` / `tar -i -` under every progress setting is the index (CliOutcome.tla).",
   note="S3/SFTP index stores are not exercised (same IndexFromReader). The tokeniser in the driver is trusted.",
   technique="TLA+ spec of the format with theorems checked by TLC; trace validation of written and read files",
   design="4/C04"),
 "C15": dict(
   text="HttpServer.tla states the property as a decision rule over a request row (RowOK) and an abstract model of both handlers; TLC checks the rule on the "
        "model for every configuration and request class. The complete request table (9216 rows, more strings per class in the thorough tier) is sent to "
        "the real handlers over a sandboxed store with sentinels outside it, with store calls logged and the sandbox snapshotted around every request; "
        "every row is judged by RowOK. Doubly encoded paths are part of the table, and the real chunk-server / index-server processes are started with the authorization value given by flag, by environment, or not at all. Mismatching, garbage and empty uploads go to the real server started with --skip-verify-write=false.",
   note="Handlers are driven in-process; the binaries add http.ServeMux path cleaning in front of them.",
   technique="TLA+ decision-table spec checked by TLC; exhaustive table replay on the real handlers validated by TLC",
   design="4/C15"),
 "C14": dict(
   text="HttpRetry.tla defines the outcome a caller must see for a server response script and a retry budget (Required) and the loop as implemented; TLC "
        "proves them equal and proves the statement's clauses for all scripts of length <= 4-5. The real HTTP chunk and index clients run against a "
        "scripted server with real connection resets and short bodies for every short script and budget, the real client/handler pair in all 16 "
        "compression/verify combinations, and the real RemoteSSH store against the real `desync pull` behind a fake ssh; every record is judged by the spec. Uploads of chunks read from stores of either format, damaged upstream objects behind a non-verifying server (DamagedAllowed, the server's own status), and the S3 transport against an in-memory S3 endpoint (S3Store.tla: outcome sets per response script and retry budget) are included; chunks a consumer holds while the same protocol session delivers further chunks must stay what was delivered.",
   note="S3/SFTP/GCS are not reachable offline. Keep-alives are off on the scripted server to exclude net/http's own transparent retries.",
   technique="TLA+ spec of the retry/outcome function checked by TLC; trace validation of recorded client calls",
   design="4/C14"),
 "C16": dict(
   text="LocalStoreFS.tla states what prune and verify must and must not remove (PruneOK, VerifyOK) over a store directory as a set of typed files; TLC checks the "
        "walk as coded against PruneOK for every small directory. Random real directories (valid/invalid chunks of both formats, temporary files, junk, "
        "chunk-named files in foreign directories) are handed to the real Prune/Verify (library and CLI) and what disappeared / was reported is judged by the spec. S3Store.Prune runs against an in-memory S3 endpoint (paginated listings, refused DELETEs) and is judged by the same PruneOK. `desync verify -n 16` on a store with hundreds of invalid chunks must print one line per invalid chunk; S3 listings that are refused on the first or a later page must make Prune fail.",
   note="Local stores only; S3 and SFTP prune/verify are not reachable offline.",
   technique="TLA+ spec checked by TLC; trace validation of real prune/verify runs",
   design="4/C16"),
 "C20": dict(
   text="LocalStoreFS.tla models what a client configured for one format may see and touch; TLC checks that no operation changes files of the other format. "
        "Random histories of a compressed and an uncompressed client (LocalStore and HTTP handler+client) over one directory are compared step by step with the "
        "model, with the directory listed by a strict parser of casync's layout; every stored object is checked to be a single standard zstd frame of the chunk "
        "(or the raw bytes), stores are cross-read between the klauspost and the libzstd build, and casync-written fixture stores are read with both. Chunks written with libzstd's streaming compressor (as casync does: no content size, 2 MiB window) are read with both builds. Two clients of one directory, one per format, store the same large chunk concurrently; an ssh store whose serving side is configured uncompressed is read through `desync pull`.",
   note="zstd framing and decoding are executed leaves (independent frame walker, two implementations).",
   technique="TLA+ spec checked by TLC; trace validation of histories on a shared directory; differential decoding with libzstd",
   design="4/C20"),
 "C18": dict(
   text="Unpack.tla is a path algebra (cleaning joins, symlink resolution through the tree built so far) plus the decoder and disk writer as coded; TLC proves "
        "Confined for every archive of <= 3 entries over a hostile name alphabet with name validation on, and shows the escape with it off (the defect F9, fixed). "
        "Hostile archives from an independent encoder (all of <= 2 entries, random longer ones, well-formed names in hostile orders such as symlink-then-directory) "
        "are unpacked by the real UnTar/UnTarIndex as root into a sandbox whose surroundings are snapshotted before and after. Root entries of every kind (directory, file, symlink inside/outside) with the destination present or absent, symlink entries carrying extended attributes, and xattrs of everything outside the destination are part of the snapshot (finding F22 fixed). Entries that name the directory they are listed in (`/`, `.`, `./`, `a/..`) or have no filename element are used to swap the open directory for a symlink (top level and nested).",
   note="LocalFS only (the tar/mtree writers do not touch the filesystem). Symlinks created by the archive may point outside (that is allowed); following them is not.",
   technique="TLA+ spec checked by TLC over all small archives; trace validation of real unpack runs in a sandbox",
   design="4/C18"),
 "C19": dict(
   text="FormatDecoder.tla classifies element classes (type x size field x bytes available x content flags), protocol messages and element-kind sequences as "
        "valid / malformed / loose from the format description and models the decoders as coded with the bytes they allocate; TLC proves no panic, allocation "
        "<= 8 x available + 256 KiB, malformed => error, valid => element over all classes and all kind sequences of length <= 5, and shows the violations "
        "of the code as found (F10, F21: repaired). The same classes as bytes, every truncation of valid files and random/mutated strings are fed to the real "
        "FormatDecoder, ArchiveDecoder, IndexFromReader, Protocol (ReadMessage, RecvHello, RequestChunk, Serve), the index PUT handler and IndexFromFile in a "
        "memory-limited child; every record is judged by the spec.",
   note="Allocation is measured with runtime.MemStats.TotalAlloc; chunk decompression (zstd) is outside the property's anchors.",
   technique="TLA+ classification + decoder model checked by TLC over all classes; spec-generated inputs replayed on the real decoders and validated by TLC",
   design="4/C19"),
 "C08": dict(
   text="ChunkWrite.tla models adding a chunk as steps of concurrent writers (create temporary file, write any byte count, close, rename; failure path; pruning of "
        "live temporary files) with a crash in any state; TLC checks that nothing partial is ever visible under a chunk name and that variants (shared temporary "
        "name, writing under the final name, renaming first) violate it. ExtractCrash.tla does the same for extract through a temporary file (destination intact) "
        "and in place (a re-run fetches only what was not valid after the death). Binding: real StoreChunk calls interleaved by the gate scheduler with a directory "
        "snapshot at every step; children that SIGKILL themselves at step k or are limited to k bytes (RLIMIT_FSIZE); the real CLI under strace with every prefix of "
        "its file-system calls replayed on a model directory; the real CLI killed on entry to the k-th call of every syscall group; in-place extract killed at the "
        "k-th chunk request and re-run against a counting HTTP store. One worker: every chunk the killed run had been given is in the destination; extracts with one- and two-chunk indexes and the large one also receive SIGINT/SIGTERM at the k-th call.",
   note="Process death only (the kernel's view survives), not power loss. strace's `when=k` counts per thread. Local stores only.",
   technique="TLA+ specs checked by TLC (with violating variants as witnesses); trace validation of scheduler-, strace- and kill-based observations of the real code",
   design="4/C08"),
 "C13": dict(
   text="Catar.tla is the archive format as an attributed grammar: a pushdown recogniser over element tokens checking contiguous offsets, size fields, element "
        "order, sorted children and xattrs, and every goodbye table (items = children's back-offsets/sizes/name hashes laid out as a complete BST in array form, "
        "tail item), and rebuilding the node list. TLC checks the BST layout for all n <= 200-600. Archives written by the real Tar from random trees built as "
        "root (all attribute kinds), from every fan-out, from disk and from tar streams, and casync-made fixtures, are tokenised independently and recognised; "
        "the reconstructed node list must equal the source tree. The real `desync tar` onto an existing larger archive and with equivalent spellings of the source directory is followed by untar (CliOutcome.tla). `tar -` and `untar --output-format gnu-tar -` on standard output (tree with a skipped node, every progress setting) must equal the file output.",
   note="SipHash-2-4 and the byte tokeniser are independent leaves in harness/oracle, validated on casync fixtures.",
   technique="TLA+ grammar/recogniser evaluated by TLC on element traces of real archives; BST layout checked by TLC",
   design="4/C13"),
 "C05": dict(
   text="On top of the C13 machinery: every archive's reconstructed node list equals the source tree, packing twice gives identical bytes, and the trees unpacked "
        "by the real UnTar, UnTarIndex (ChunkStream + LocalStore, 64-512 byte chunks) and the tar writer are compared field by field with the source tree "
        "(path, type, mode incl. set-id/sticky, owner, target, xattrs, device numbers, content, mtime with ns). Deviations of the unchanged code are reported as known findings. The real `desync tar`/`untar` (catar and caidx, onto an existing larger archive, source directory spelled in equivalent ways) are run end to end (CliOutcome.tla).",
   note="Three known findings (F11 directory/symlink mtimes, F18-F19 tar writer mode/device, F20 tar writer xattrs). SHA256 mode and mtree output not exercised.",
   technique="TLA+ grammar + tree comparison evaluated by TLC on traces of real pack/unpack runs",
   design="4/C05"),
}

NOT_YET = "check not built yet in this round (planned in DESIGN.md section 4)"

def main():
    props = [json.loads(l) for l in open(os.path.join(V, "properties.jsonl"))]
    hooks = subprocess.run(["git", "-C", "/repo", "log", "--format=%H %s"], capture_output=True, text=True).stdout.splitlines()
    hook_commits = [l.split()[0] for l in hooks if l.split(" ", 1)[1].startswith("verif:")]
    m = {
     "version": 1,
     "setup_cmd": "cd /verif && ./setup.sh",
     "hooks": {
        "guard": "verif",
        "enable": "go build -tags verif (harness: cd /verif/harness && go build -tags verif ./cmd/...)",
        "baseline_off_cmd": "cd /repo && GOFLAGS=-mod=mod go test -vet=off -count=1 -timeout 25m ./...",
        "source_commits": hook_commits,
        "add_only": True,
     },
     "engines": [
        {"name": "tlc", "path": "/opt/veriftools/tla/tla2tools.jar", "serves_properties": sorted(CLAIMED),
         "kind_free_text": "TLA+ specifications in /verif/spec checked with TLC (exhaustive, simulation, trace validation)"},
        {"name": "harness", "path": "/verif/harness", "serves_properties": sorted(CLAIMED),
         "kind_free_text": "Go conformance drivers (gate scheduler, fakes, trace recorder) built against /repo's working tree with -tags verif"},
     ],
     "checks": [],
     "not_applicable": [],
     "notes": "All checks: ./check <id> --tier quick|thorough; exit 0 held / 1 VIOLATION (reproduced on the real code) / 2 infrastructure. "
              "known_findings.json lists genuine defects recorded or fixed.",
    }
    for p in props:
        pid = p["id"]
        if pid in CLAIMED:
            c = CLAIMED[pid]
            m["checks"].append({
              "property_id": pid,
              "quick_cmd": "./check %s --tier quick" % pid,
              "thorough_cmd": "./check %s --tier thorough" % pid,
              "evidence_file": "/verif/evidence/%s.json" % pid,
              "replay_cmd_template": "./check %s --replay {path}" % pid,
              "engine": "tlc",
              "level_claimed": {"category": c.get("category", "model_checking"), "text": c["text"], "design_ref": "DESIGN.md section " + c["design"]},
              "level_note": c["note"],
              "technique": c["technique"],
            })
        else:
            m["not_applicable"].append({"property_id": pid, "reason": NOT_YET})
    json.dump(m, open(os.path.join(V, "MANIFEST.json"), "w"), indent=1)
    print("claimed:", len(m["checks"]), "not applicable:", len(m["not_applicable"]))

if __name__ == "__main__":
    main()
